//! Violation records, grouping, and the JSON result a run hands to the `check` driver.
//!
//! A violation is (kind, features, case, detail):
//!   * `kind`     — the *failure kind* (what relation was broken), e.g. "iter_interval_longer";
//!   * `features` — structural predicates that hold on the *input* (never on outcomes), computed
//!     by `features::of_expr` & co.; the known-findings file matches on (property, kind, class∈features);
//!   * `case`     — a self-contained JSON replay record (property-specific);
//!   * `detail`   — human readable observed/expected.
//!
//! Violations are grouped by (kind, features) and only the first few examples per group are kept
//! (enumeration is simplest-first, so those are the smallest).

use serde_json::{json, Map, Value};
use std::collections::BTreeMap;

pub const MAX_EXAMPLES: usize = 4;

#[derive(Clone, Debug)]
pub struct Violation {
    pub kind: String,
    pub features: Vec<String>,
    pub case: Value,
    pub detail: String,
}

impl Violation {
    pub fn new(kind: &str, features: Vec<String>, case: Value, detail: String) -> Self {
        let mut features = features;
        features.sort();
        features.dedup();
        Self { kind: kind.to_string(), features, case, detail }
    }
}

#[derive(Clone, Debug, Default)]
pub struct Group {
    pub count: u64,
    pub examples: Vec<Violation>,
}

/// Accumulator local to a shard; merged in shard order so that the result is deterministic.
#[derive(Clone, Debug, Default)]
pub struct Acc {
    pub groups: BTreeMap<(String, Vec<String>), Group>,
    pub counters: BTreeMap<String, u64>,
    pub samples: Vec<Value>,
}

impl Acc {
    pub fn new() -> Self {
        Self::default()
    }

    pub fn violate(&mut self, v: Violation) {
        let g = self.groups.entry((v.kind.clone(), v.features.clone())).or_default();
        g.count += 1;
        if g.examples.len() < MAX_EXAMPLES {
            g.examples.push(v);
        }
    }

    #[inline]
    pub fn add(&mut self, key: &str, n: u64) {
        if let Some(c) = self.counters.get_mut(key) {
            *c += n;
        } else {
            self.counters.insert(key.to_string(), n);
        }
    }

    pub fn get(&self, key: &str) -> u64 {
        self.counters.get(key).copied().unwrap_or(0)
    }

    pub fn sample(&mut self, v: Value) {
        if self.samples.len() < 12 {
            self.samples.push(v);
        }
    }

    pub fn merge(&mut self, other: Acc) {
        for (k, g) in other.groups {
            let e = self.groups.entry(k).or_default();
            e.count += g.count;
            for ex in g.examples {
                if e.examples.len() < MAX_EXAMPLES {
                    e.examples.push(ex);
                }
            }
        }
        for (k, n) in other.counters {
            *self.counters.entry(k).or_insert(0) += n;
        }
        for s in other.samples {
            self.sample(s);
        }
    }

    pub fn total_violations(&self) -> u64 {
        self.groups.values().map(|g| g.count).sum()
    }
}

/// What a property run returns to `main`.
pub struct Outcome {
    pub level: &'static str,
    pub acc: Acc,
    /// Extra coverage keys (alphabets, bounds, …).
    pub coverage: Map<String, Value>,
    pub assumptions: Vec<String>,
    pub exhaustive: bool,
    pub caps_hit: Vec<String>,
}

impl Outcome {
    pub fn new(level: &'static str, acc: Acc) -> Self {
        Self {
            level,
            acc,
            coverage: Map::new(),
            assumptions: Vec::new(),
            exhaustive: false,
            caps_hit: Vec::new(),
        }
    }

    pub fn cov(&mut self, key: &str, v: Value) -> &mut Self {
        self.coverage.insert(key.to_string(), v);
        self
    }

    pub fn assume(&mut self, s: &str) -> &mut Self {
        self.assumptions.push(s.to_string());
        self
    }

    pub fn to_json(&self) -> Value {
        let mut coverage = self.coverage.clone();
        for (k, n) in &self.acc.counters {
            coverage.entry(k.clone()).or_insert(json!(n));
        }
        if !self.acc.samples.is_empty() && !coverage.contains_key("samples") {
            coverage.insert("samples".into(), Value::Array(self.acc.samples.clone()));
        }
        coverage.insert("exhaustive".into(), json!(self.exhaustive && self.caps_hit.is_empty()));
        coverage.insert("caps_hit".into(), json!(self.caps_hit));
        let groups: Vec<Value> = self
            .acc
            .groups
            .iter()
            .map(|((kind, feats), g)| {
                json!({
                    "kind": kind,
                    "features": feats,
                    "count": g.count,
                    "examples": g.examples.iter().map(|v| json!({
                        "kind": v.kind, "features": v.features, "case": v.case, "detail": v.detail
                    })).collect::<Vec<_>>(),
                })
            })
            .collect();
        json!({
            "level": self.level,
            "coverage": Value::Object(coverage),
            "assumptions": self.assumptions,
            "violation_groups": groups,
            "violations_total": self.acc.total_violations(),
        })
    }
}

/// Run `f` over `items` in parallel shards, merging accumulators in index order.
pub fn par_shards<T: Sync, F>(items: &[T], shard: usize, f: F) -> Acc
where
    F: Fn(usize, &T, &mut Acc) + Sync,
{
    use rayon::prelude::*;
    let shard = shard.max(1);
    let accs: Vec<Acc> = items
        .par_chunks(shard)
        .enumerate()
        .map(|(ci, chunk)| {
            let mut acc = Acc::new();
            for (i, it) in chunk.iter().enumerate() {
                f(ci * shard + i, it, &mut acc);
            }
            acc
        })
        .collect();
    let mut out = Acc::new();
    for a in accs {
        out.merge(a);
    }
    out
}
