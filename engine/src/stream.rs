//! Comparison of the real interval stream (`iter_range` / `iter_from`) with the expected stream
//! derived from the pointwise oracle P. Shared by C02, C03, C08, C16.

use crate::evalx::{from_min, to_min, Pointwise};
use crate::model::kind_code;
use crate::util::{catch, fmt_dt, PanicInfo};
use chrono::{NaiveDate, NaiveDateTime, Timelike};
use opening_hours::{OpeningHours, DATE_END};

pub type Iv = (NaiveDateTime, NaiveDateTime, u8);

pub fn date_start() -> NaiveDateTime {
    NaiveDate::from_ymd_opt(1900, 1, 1).unwrap().and_hms_opt(0, 0, 0).unwrap()
}

fn floor_min(t: NaiveDateTime) -> i64 {
    // to_min truncates toward zero on positive durations; all our instants are after the epoch
    let m = to_min(t);
    if from_min(m) > t {
        m - 1
    } else {
        m
    }
}

fn on_minute(t: NaiveDateTime) -> bool {
    t.second() == 0 && t.nanosecond() == 0
}

/// Expected stream over [from, min(to, DATE_END)) according to P, at most `limit` intervals.
/// P must cover the whole supported range for the part of the window that intersects it;
/// outside P's window the state is closed.
pub fn expected(p: &Pointwise, from: NaiveDateTime, to: NaiveDateTime, limit: usize) -> Vec<Iv> {
    let end = to.min(DATE_END);
    let mut out: Vec<Iv> = Vec::new();
    if from >= end {
        return out;
    }
    let mut cur = from;
    while cur < end && out.len() < limit {
        let m = floor_min(cur);
        let (kind, run_end_min) = if m < p.lo {
            // before the window: closed, joined with P's first run if that is closed too
            if p.kinds[0] == 0 {
                (0u8, if p.starts.len() > 1 { p.starts[1] } else { i64::MAX })
            } else {
                (0u8, p.lo)
            }
        } else if m >= p.hi {
            (0u8, i64::MAX)
        } else {
            let re = p.run_end(m);
            (p.kind_at(m), if re >= p.hi { i64::MAX } else { re })
        };
        let run_end = if run_end_min == i64::MAX { end } else { from_min(run_end_min).min(end) };
        match out.last_mut() {
            Some(last) if last.2 == kind => last.1 = run_end,
            _ => out.push((cur, run_end, kind)),
        }
        cur = run_end;
    }
    out
}

pub fn collect_range(oh: &OpeningHours, from: NaiveDateTime, to: NaiveDateTime, limit: usize) -> Result<Vec<Iv>, PanicInfo> {
    catch(|| oh.iter_range(from, to).take(limit).map(|r| (r.range.start, r.range.end, kind_code(r.kind))).collect())
}

pub fn collect_from(oh: &OpeningHours, from: NaiveDateTime, limit: usize) -> Result<Vec<Iv>, PanicInfo> {
    catch(|| oh.iter_from(from).take(limit).map(|r| (r.range.start, r.range.end, kind_code(r.kind))).collect())
}

pub struct Mismatch {
    pub kind: &'static str,
    pub index: usize,
    pub detail: String,
}

fn kname(k: u8) -> &'static str {
    match k {
        0 => "closed",
        1 => "open",
        _ => "unknown",
    }
}

pub fn fmt_iv(iv: &Iv) -> String {
    format!("[{} .. {}) {}", fmt_dt(iv.0), fmt_dt(iv.1), kname(iv.2))
}

/// Compare a real stream with the expected one. `complete`: the real stream was consumed to
/// exhaustion (not cut by `take`), so its length must match too.
pub fn compare(real: &[Iv], exp: &[Iv], complete: bool) -> Option<Mismatch> {
    // intrinsic well-formedness first (oracle-free)
    for (i, iv) in real.iter().enumerate() {
        if iv.0 >= iv.1 {
            return Some(Mismatch { kind: "empty_or_inverted_interval", index: i, detail: format!("interval #{i} {} is empty or inverted", fmt_iv(iv)) });
        }
        if i > 0 {
            if real[i - 1].1 != iv.0 {
                return Some(Mismatch { kind: "gap_or_overlap", index: i, detail: format!("interval #{} ends {} but #{i} starts {}", i - 1, fmt_dt(real[i - 1].1), fmt_dt(iv.0)) });
            }
            if real[i - 1].2 == iv.2 {
                return Some(Mismatch { kind: "consecutive_intervals_same_state", index: i, detail: format!("intervals #{} and #{i} are both {} (split at {})", i - 1, kname(iv.2), fmt_dt(iv.0)) });
            }
        }
    }
    for i in 0..real.len().min(exp.len()) {
        let (r, e) = (&real[i], &exp[i]);
        if r.0 != e.0 {
            return Some(Mismatch { kind: "start_differs", index: i, detail: format!("interval #{i}: got {} expected {}", fmt_iv(r), fmt_iv(e)) });
        }
        if r.2 != e.2 {
            return Some(Mismatch { kind: "state_differs", index: i, detail: format!("interval #{i}: got {} expected {}", fmt_iv(r), fmt_iv(e)) });
        }
        if r.1 > e.1 {
            return Some(Mismatch { kind: "change_skipped", index: i, detail: format!("interval #{i}: got {} but the daily schedules change state at {}", fmt_iv(r), fmt_dt(e.1)) });
        }
        if r.1 < e.1 {
            return Some(Mismatch { kind: "spurious_change", index: i, detail: format!("interval #{i}: got {} but the daily schedules keep that state until {}", fmt_iv(r), fmt_dt(e.1)) });
        }
    }
    if real.len() < exp.len() && complete {
        return Some(Mismatch { kind: "stream_ends_early", index: real.len(), detail: format!("stream has {} intervals, expected at least {}; next expected {}", real.len(), exp.len(), fmt_iv(&exp[real.len()])) });
    }
    if real.len() > exp.len() {
        return Some(Mismatch { kind: "stream_too_long", index: exp.len(), detail: format!("stream yields an extra interval {}", fmt_iv(&real[exp.len()])) });
    }
    None
}

pub fn is_on_minute(t: NaiveDateTime) -> bool {
    on_minute(t)
}

/// Lazy version of `expected`.
pub struct ExpectedIter<'a> {
    p: &'a Pointwise,
    cur: NaiveDateTime,
    end: NaiveDateTime,
}

impl<'a> ExpectedIter<'a> {
    pub fn new(p: &'a Pointwise, from: NaiveDateTime, to: NaiveDateTime) -> Self {
        Self { p, cur: from, end: to.min(DATE_END) }
    }

    fn raw_next(&mut self) -> Option<Iv> {
        if self.cur >= self.end {
            return None;
        }
        let p = self.p;
        let m = floor_min(self.cur);
        let (kind, run_end_min) = if m < p.lo {
            if p.kinds[0] == 0 {
                (0u8, if p.starts.len() > 1 { p.starts[1] } else { i64::MAX })
            } else {
                (0u8, p.lo)
            }
        } else if m >= p.hi {
            (0u8, i64::MAX)
        } else {
            let re = p.run_end(m);
            (p.kind_at(m), if re >= p.hi { i64::MAX } else { re })
        };
        let run_end = if run_end_min == i64::MAX { self.end } else { from_min(run_end_min).min(self.end) };
        let iv = (self.cur, run_end, kind);
        self.cur = run_end;
        Some(iv)
    }
}

impl Iterator for ExpectedIter<'_> {
    type Item = Iv;
    fn next(&mut self) -> Option<Iv> {
        let mut iv = self.raw_next()?;
        // merge following pieces of the same kind (window edge joined with P's first/last run)
        loop {
            let save = self.cur;
            match self.raw_next() {
                Some(n) if n.2 == iv.2 => iv.1 = n.1,
                Some(_) => {
                    self.cur = save;
                    break;
                }
                None => break,
            }
        }
        Some(iv)
    }
}

/// Streaming comparison of `iter_range(from, to)` / `iter_from(from)` with P, at most `limit`
/// intervals. Returns (intervals compared, mismatch).
pub fn compare_streaming(oh: &OpeningHours, p: &Pointwise, from: NaiveDateTime, to: Option<NaiveDateTime>, limit: usize) -> Result<(u64, Option<Mismatch>), PanicInfo> {
    catch(|| {
        let mut exp = ExpectedIter::new(p, from, to.unwrap_or(DATE_END));
        let real: Box<dyn Iterator<Item = opening_hours::DateTimeRange>> = match to {
            Some(t) => Box::new(oh.iter_range(from, t)),
            None => Box::new(oh.iter_from(from)),
        };
        let mut prev: Option<Iv> = None;
        let mut n = 0u64;
        for (i, r) in real.enumerate() {
            if i >= limit {
                return (n, None);
            }
            let iv: Iv = (r.range.start, r.range.end, kind_code(r.kind));
            n += 1;
            if iv.0 >= iv.1 {
                return (n, Some(Mismatch { kind: "empty_or_inverted_interval", index: i, detail: format!("interval #{i} {} is empty or inverted", fmt_iv(&iv)) }));
            }
            if let Some(pv) = prev {
                if pv.1 != iv.0 {
                    return (n, Some(Mismatch { kind: "gap_or_overlap", index: i, detail: format!("interval #{} ends {} but #{i} starts {}", i - 1, fmt_dt(pv.1), fmt_dt(iv.0)) }));
                }
                if pv.2 == iv.2 {
                    return (n, Some(Mismatch { kind: "consecutive_intervals_same_state", index: i, detail: format!("intervals #{} and #{i} are both {} (split at {})", i - 1, kname(iv.2), fmt_dt(iv.0)) }));
                }
            }
            match exp.next() {
                None => return (n, Some(Mismatch { kind: "stream_too_long", index: i, detail: format!("stream yields an extra interval {}", fmt_iv(&iv)) })),
                Some(e) => {
                    if iv.0 != e.0 {
                        return (n, Some(Mismatch { kind: "start_differs", index: i, detail: format!("interval #{i}: got {} expected {}", fmt_iv(&iv), fmt_iv(&e)) }));
                    }
                    if iv.2 != e.2 {
                        return (n, Some(Mismatch { kind: "state_differs", index: i, detail: format!("interval #{i}: got {} expected {}", fmt_iv(&iv), fmt_iv(&e)) }));
                    }
                    if iv.1 > e.1 {
                        return (n, Some(Mismatch { kind: "change_skipped", index: i, detail: format!("interval #{i}: got {} but the daily schedules change state at {}", fmt_iv(&iv), fmt_dt(e.1)) }));
                    }
                    if iv.1 < e.1 {
                        return (n, Some(Mismatch { kind: "spurious_change", index: i, detail: format!("interval #{i}: got {} but the daily schedules keep that state until {}", fmt_iv(&iv), fmt_dt(e.1)) }));
                    }
                }
            }
            prev = Some(iv);
        }
        // real stream exhausted: expected must be exhausted too
        if let Some(e) = exp.next() {
            return (n, Some(Mismatch { kind: "stream_ends_early", index: n as usize, detail: format!("stream ended after {n} intervals, the daily schedules continue with {}", fmt_iv(&e)) }));
        }
        (n, None)
    })
}
