//! Small shared helpers: panic capture, dates, formatting.

use chrono::{NaiveDate, NaiveDateTime};
use std::cell::RefCell;
use std::panic::{catch_unwind, AssertUnwindSafe};

thread_local! {
    static LAST_PANIC: RefCell<Option<PanicInfo>> = const { RefCell::new(None) };
}

#[derive(Clone, Debug)]
pub struct PanicInfo {
    pub msg: String,
    pub loc: String,
}

/// Quiet panic hook that records message and `file:line` in a thread local.
pub fn install_panic_hook() {
    std::panic::set_hook(Box::new(|info| {
        let msg = if let Some(s) = info.payload().downcast_ref::<&str>() {
            s.to_string()
        } else if let Some(s) = info.payload().downcast_ref::<String>() {
            s.clone()
        } else {
            "<non-string panic>".to_string()
        };
        let loc = info
            .location()
            .map(|l| {
                let f = l.file();
                // keep the path relative to the repository so that it is stable
                let f = f.strip_prefix("/repo/").unwrap_or(f);
                // dependency sources: keep `crate-x.y.z/src/…` only
                let f = match f.find("/registry/src/") {
                    Some(i) => f[i + 14..].split_once('/').map(|x| x.1).unwrap_or(f),
                    None => f,
                };
                format!("{}:{}", f, l.line())
            })
            .unwrap_or_else(|| "?".into());
        LAST_PANIC.with(|p| *p.borrow_mut() = Some(PanicInfo { msg, loc }));
    }));
}

/// Run `f`, turning a panic into `Err(PanicInfo)`.
pub fn catch<T>(f: impl FnOnce() -> T) -> Result<T, PanicInfo> {
    LAST_PANIC.with(|p| *p.borrow_mut() = None);
    match catch_unwind(AssertUnwindSafe(f)) {
        Ok(v) => Ok(v),
        Err(_) => Err(LAST_PANIC.with(|p| p.borrow_mut().take()).unwrap_or(PanicInfo {
            msg: "<unknown>".into(),
            loc: "?".into(),
        })),
    }
}

pub fn ymd(y: i32, m: u32, d: u32) -> NaiveDate {
    NaiveDate::from_ymd_opt(y, m, d).expect("valid date")
}

pub fn dt(y: i32, mo: u32, d: u32, h: u32, mi: u32) -> NaiveDateTime {
    ymd(y, mo, d).and_hms_opt(h, mi, 0).unwrap()
}

pub fn date_start() -> NaiveDate {
    ymd(1900, 1, 1)
}

pub fn date_end() -> NaiveDate {
    ymd(10000, 1, 1)
}

pub fn parse_dt(s: &str) -> Option<NaiveDateTime> {
    // chrono's own parser refuses 5-digit/negative years in %Y without sign; accept both forms
    for fmt in ["%Y-%m-%dT%H:%M:%S%.f", "%Y-%m-%dT%H:%M:%S", "%Y-%m-%dT%H:%M", "%Y-%m-%d %H:%M:%S", "%Y-%m-%d %H:%M"] {
        if let Ok(d) = NaiveDateTime::parse_from_str(s, fmt) {
            return Some(d);
        }
    }
    // manual: [+-]Y..-MM-DDTHH:MM[:SS[.fff]]
    let (date, time) = s.split_once('T').or_else(|| s.split_once(' '))?;
    let neg = date.starts_with('-');
    let body = date.trim_start_matches(['+', '-']);
    let mut it = body.split('-');
    let y: i32 = it.next()?.parse().ok()?;
    let m: u32 = it.next()?.parse().ok()?;
    let d: u32 = it.next()?.parse().ok()?;
    let y = if neg { -y } else { y };
    let mut tp = time.split(':');
    let h: u32 = tp.next()?.parse().ok()?;
    let mi: u32 = tp.next()?.parse().ok()?;
    let (sec, nano) = match tp.next() {
        None => (0, 0),
        Some(sf) => {
            let (s, f) = sf.split_once('.').unwrap_or((sf, ""));
            let mut f = f.to_string();
            while f.len() < 9 {
                f.push('0');
            }
            (s.parse().ok()?, f[..9].parse().ok()?)
        }
    };
    NaiveDate::from_ymd_opt(y, m, d)?.and_hms_nano_opt(h, mi, sec, nano)
}

pub fn fmt_dt(d: NaiveDateTime) -> String {
    d.format("%Y-%m-%dT%H:%M:%S%.f").to_string()
}

pub fn parse_date(s: &str) -> Option<NaiveDate> {
    parse_dt(&format!("{s}T00:00")).map(|d| d.date())
}

/// Simple deterministic string hash (FNV-1a), used for stable shard rotation only.
pub fn fnv(s: &str) -> u64 {
    let mut h: u64 = 0xcbf29ce484222325;
    for b in s.bytes() {
        h ^= b as u64;
        h = h.wrapping_mul(0x100000001b3);
    }
    h
}
