//! Frozen per-dimension alphabets (DESIGN §2.1) and the bounded expression families built from
//! them. Every value is there because a specific branch of the evaluator/parser treats it
//! specially. Values whose AST equals another value's (`2020-2020`, `Jan-Jan`, `Mo-Mo`,
//! `week 5-5`, `May 15-15`, `00:00-24:00`) are *syntactic variants* and live in `Style`
//! (equal_as_range, explicit_full_day), not here.

use super::ast::*;
use chrono::Weekday::*;

pub fn years() -> Vec<Vec<YearRange>> {
    vec![
        vec![],
        vec![yr(2020, 2020, 1)],
        vec![yr(2020, 2022, 1)],
        vec![yr(2020, 2030, 3)],
        vec![yr(2030, 2030, 3)],
        vec![yr(2021, 9999, 1)],
        vec![yr(2030, 2010, 1)],
        vec![yr(1900, 1900, 1)],
        vec![yr(9999, 9999, 1)],
        vec![yr(2020, 2020, 1), yr(2024, 2024, 1)],
        vec![yr(1900, 1901, 2)],
        vec![yr(9998, 9999, 1)],
    ]
}

pub fn monthdays() -> Vec<Vec<MonthdayRange>> {
    let o = off0();
    vec![
        vec![],
        vec![md_month(1, 1, None)],
        vec![md_month(4, 7, None)],
        vec![md_month(11, 2, None)],
        vec![md_month(12, 12, Some(2020))],
        vec![md_month(11, 2, Some(2020))],
        vec![md_single(fixed(None, 2, 29), o)],
        vec![md_range(fixed(None, 2, 29), o, fixed(None, 3, 1), o)],
        vec![md_range(fixed(None, 2, 15), o, fixed(None, 2, 29), o)],
        vec![md_single(fixed(None, 4, 31), o)],
        vec![md_range(fixed(None, 1, 31), o, fixed(None, 2, 31), o)],
        vec![md_range(fixed(None, 12, 25), o, fixed(None, 1, 5), o)],
        vec![md_range(fixed(None, 3, 28), o, fixed(None, 4, 16), o)],
        vec![md_range(fixed(Some(2021), 3, 28), o, fixed(None, 4, 16), o)],
        vec![md_range(fixed(Some(2021), 12, 25), o, fixed(Some(2022), 1, 5), o)],
        vec![md_range(fixed(Some(2020), 12, 25), o, fixed(None, 1, 5), o)],
        vec![md_range(fixed(Some(2020), 2, 29), o, fixed(None, 3, 1), o)],
        vec![md_range(fixed(None, 5, 15), o, fixed(None, 6, 1), o)], // May 15-01
        vec![md_single(fixed(None, 5, 15), o)],
        vec![md_single(fixed(Some(2020), 6, 1), o)],
        vec![md_range(fixed(None, 6, 7), o, fixed(None, 6, 7), off_next(Tue))],
        vec![md_range(fixed(None, 5, 2), o, fixed(None, 12, 31), o)], // May 2+
        vec![md_range(fixed(Some(2020), 5, 2), o, fixed(Some(9999), 12, 31), o)], // 2020 May 2+
        vec![md_single(easter(None), o)],
        vec![md_single(easter(Some(2024)), o)],
        vec![md_range(easter(None), off_days(-2), easter(None), off_days(1))],
        vec![md_range(fixed(None, 1, 1), o, easter(None), o)],
        vec![md_single(fixed(None, 1, 1), off_next(Sun))],
        vec![md_range(fixed(None, 6, 7), o, fixed(None, 7, 7), off_prev(Mon))],
        vec![md_single(fixed(None, 12, 31), off_days(1))],
        vec![md_single(fixed(None, 1, 1), off_days(-1))],
        vec![md_month(1, 1, None), md_single(fixed(None, 7, 14), o)],
        vec![md_range(fixed(None, 12, 31), o, fixed(None, 1, 1), o)],
        vec![md_range(fixed(Some(2020), 6, 1), o, fixed(None, 6, 1), o)], // 2020 Jun 01-Jun 01: year-less end equal to the start
        vec![md_range(easter(Some(2020)), o, fixed(Some(9999), 12, 31), o)], // 2020 easter+
        vec![md_range(easter(None), off_days(1), fixed(None, 12, 31), o)],  // easter +1 day+
        // ranges of which one bound is an Easter with a year, or of which only one bound has a year
        vec![md_range(fixed(Some(2024), 1, 1), o, easter(Some(2024)), o)], // 2024 Jan 01-2024 easter
        vec![md_range(easter(Some(2021)), o, fixed(None, 6, 30), o)],      // 2021 easter-Jun 30
        vec![md_range(fixed(None, 3, 1), o, fixed(Some(2020), 4, 5), o)],  // Mar 01-2020 Apr 05
        vec![md_range(easter(None), o, fixed(Some(2020), 5, 1), o)],       // easter-2020 May 01
    ]
}

pub fn weeks() -> Vec<Vec<WeekRange>> {
    vec![
        vec![],
        vec![wk(1, 1, 1)],
        vec![wk(2, 2, 1), wk(10, 20, 1)],
        vec![wk(52, 1, 1)],
        vec![wk(1, 53, 2)],
        vec![wk(53, 53, 1)],
        vec![wk(2, 52, 5)],
        vec![wk(50, 52, 1)], // ends at 52: week 53 exists in some years only
    ]
}

pub fn weekdays() -> Vec<Vec<WeekDayRange>> {
    vec![
        vec![],
        vec![wd(Mon, Mon)],
        vec![wd(Mon, Fri)],
        vec![wd(Tue, Mon)],
        vec![wd(Wed, Mon)],
        vec![wd_nth(Mon, &[1], 0)],
        vec![wd_nth(Sun, &[-1], 0)],
        vec![wd_nth(Mon, &[2, 3, 4], 2)],
        vec![wd_nth(Sat, &[1], 0), wd_nth(Sat, &[3], 0)],
        vec![wd_nth(Fri, &[5], 0)],
        vec![wd_nth(Mon, &[1], -1)],
        vec![wd_nth(Mon, &[1, 2, 3, 4, 5], 1)],
        vec![wd_nth(Sat, &[1, -1], 0)],
        vec![hol(HolidayKind::Public, 0)],
        vec![hol(HolidayKind::School, 0)],
        vec![hol(HolidayKind::Public, 1)],
        vec![hol(HolidayKind::Public, -1)],
        vec![wd(Mon, Mon), hol(HolidayKind::Public, 0)],
        vec![hol(HolidayKind::Public, 0), wd(Sat, Sat)],
        vec![wd(Sat, Sun)],
        vec![wd_nth(Mon, &[1, 2, 3, 4, 5, -1, -2, -3, -4, -5], 1)], // every nth, with an offset
        // the last occurrence of every weekday = the last seven days of the month (month lengths, leap rule)
        vec![wd_nth(Mon, &[-1], 0), wd_nth(Tue, &[-1], 0), wd_nth(Wed, &[-1], 0), wd_nth(Thu, &[-1], 0), wd_nth(Fri, &[-1], 0), wd_nth(Sat, &[-1], 0), wd_nth(Sun, &[-1], 0)],
    ]
}

pub fn times() -> Vec<Vec<TimeSpan>> {
    use TimeEvent::*;
    vec![
        vec![],
        vec![span(tfix(10, 0), tfix(18, 0))],
        vec![span(tfix(10, 0), tfix(12, 0)), span(tfix(14, 0), tfix(16, 0))],
        vec![span(tfix(22, 0), tfix(26, 0))],
        vec![span(tfix(23, 0), tfix(1, 0))],
        vec![span(tfix(4, 0), tfix(4, 0))],
        vec![span(tfix(4, 0), tfix(48, 0))],
        vec![span(tfix(0, 0), tfix(1, 0)), span(tfix(23, 0), tfix(24, 0))],
        vec![span_open_end(tfix(10, 0), tfix(24, 0))],
        vec![span_open_end(tfix(10, 0), tfix(12, 0))],
        vec![span(tev(Sunrise, 0), tev(Sunset, 0))],
        vec![span(tev(Dawn, 30), tev(Dusk, -30))],
        vec![span(tev(Dusk, 0), tev(Sunrise, 0))],
        vec![span(tfix(8, 15), tev(Sunset, 0))],
        vec![span(tfix(10, 0), tfix(12, 0)), span(tfix(11, 0), tfix(16, 0))],
        vec![span(tfix(0, 0), tfix(5, 0))],
        vec![span(tfix(13, 30), tfix(14, 0))],
        // a literal full-day span next to a span reaching 48:00 (`is_immutable_full_day` is a
        // conjunction over the spans of the selector)
        vec![span(tfix(0, 0), tfix(24, 0)), span(tfix(4, 0), tfix(48, 0))],
        // an open end with an explicit end just after midnight (`18:00-24:30+`)
        vec![span_open_end(tfix(18, 0), tfix(24, 30))],
        // repetition steps, in minutes and in hours:minutes
        vec![span_rep(tfix(10, 0), tfix(12, 0), 30), span_rep(tfix(14, 0), tfix(20, 0), 90)],
        // spans starting at midnight and ending after it: the whole next day (`00:00-48:00`), a part of it
        // (the full-day shortcut must tell `00:00-24:00` from these)
        vec![span(tfix(0, 0), tfix(48, 0))],
        vec![span(tfix(0, 0), tfix(26, 0))],
    ]
}

#[derive(Clone, Debug)]
pub struct Modifier {
    pub kind: RuleKind,
    pub comments: Vec<&'static str>,
}

pub fn modifiers() -> Vec<Modifier> {
    vec![
        Modifier { kind: RuleKind::Open, comments: vec![] },
        Modifier { kind: RuleKind::Closed, comments: vec![] },
        Modifier { kind: RuleKind::Unknown, comments: vec![] },
        Modifier { kind: RuleKind::Open, comments: vec!["c"] },
        Modifier { kind: RuleKind::Closed, comments: vec!["c"] },
        Modifier { kind: RuleKind::Unknown, comments: vec!["c"] },
    ]
}

pub const OPERATORS: [RuleOperator; 3] = [RuleOperator::Normal, RuleOperator::Additional, RuleOperator::Fallback];


/// Day selectors with at most `max_kinds` non-empty kinds (simplest first).
pub fn day_selectors(max_kinds: usize) -> Vec<DaySelector> {
    let (ys, ms, ws, ds) = (years(), monthdays(), weeks(), weekdays());
    let mut out = Vec::new();
    // 0 kinds
    out.push(DaySelector::default());
    if max_kinds >= 1 {
        for y in ys.iter().skip(1) {
            out.push(DaySelector { year: y.clone(), ..Default::default() });
        }
        for m in ms.iter().skip(1) {
            out.push(DaySelector { monthday: m.clone(), ..Default::default() });
        }
        for w in ws.iter().skip(1) {
            out.push(DaySelector { week: w.clone(), ..Default::default() });
        }
        for d in ds.iter().skip(1) {
            out.push(DaySelector { weekday: d.clone(), ..Default::default() });
        }
    }
    if max_kinds >= 2 {
        for y in ys.iter().skip(1) {
            for m in ms.iter().skip(1) {
                out.push(DaySelector { year: y.clone(), monthday: m.clone(), ..Default::default() });
            }
        }
        for y in ys.iter().skip(1) {
            for w in ws.iter().skip(1) {
                out.push(DaySelector { year: y.clone(), week: w.clone(), ..Default::default() });
            }
        }
        for y in ys.iter().skip(1) {
            for d in ds.iter().skip(1) {
                out.push(DaySelector { year: y.clone(), weekday: d.clone(), ..Default::default() });
            }
        }
        for m in ms.iter().skip(1) {
            for w in ws.iter().skip(1) {
                out.push(DaySelector { monthday: m.clone(), week: w.clone(), ..Default::default() });
            }
        }
        for m in ms.iter().skip(1) {
            for d in ds.iter().skip(1) {
                out.push(DaySelector { monthday: m.clone(), weekday: d.clone(), ..Default::default() });
            }
        }
        for w in ws.iter().skip(1) {
            for d in ds.iter().skip(1) {
                out.push(DaySelector { week: w.clone(), weekday: d.clone(), ..Default::default() });
            }
        }
    }
    if max_kinds >= 3 {
        // every combination of 3 and 4 kinds (index 0 of a dimension = selector absent)
        for y in ys.iter() {
            for m in ms.iter() {
                for w in ws.iter() {
                    for d in ds.iter() {
                        let kinds = [!y.is_empty(), !m.is_empty(), !w.is_empty(), !d.is_empty()].iter().filter(|x| **x).count();
                        if kinds >= 3 && kinds <= max_kinds {
                            out.push(DaySelector { year: y.clone(), monthday: m.clone(), week: w.clone(), weekday: d.clone() });
                        }
                    }
                }
            }
        }
    }
    out
}

pub fn mk_rule(ds: &DaySelector, t: &[TimeSpan], m: &Modifier) -> RuleSequence {
    RuleSequence {
        day_selector: ds.clone(),
        time_selector: TimeSelector::new(t.to_vec()),
        kind: m.kind,
        operator: RuleOperator::Normal,
        comments: comments(&m.comments),
    }
}

/// E1 — single rules: day selectors with ≤ `max_kinds` kinds × every time value × every modifier.
pub fn e1(max_kinds: usize) -> Vec<OpeningHoursExpression> {
    let mut out = Vec::new();
    let ts = times();
    let ms = modifiers();
    for ds in day_selectors(max_kinds) {
        for t in &ts {
            for m in &ms {
                out.push(expr(vec![mk_rule(&ds, t, m)]));
            }
        }
    }
    out
}

/// R2 — reduced rule set: every alphabet value of every dimension appears alone and with a span.
pub fn r2() -> Vec<RuleSequence> {
    let ts = times();
    let open = Modifier { kind: RuleKind::Open, comments: vec![] };
    let off = Modifier { kind: RuleKind::Closed, comments: vec![] };
    let unk_c = Modifier { kind: RuleKind::Unknown, comments: vec!["c"] };
    let mut out = Vec::new();
    // selector-less rules
    out.push(mk_rule(&DaySelector::default(), &[], &open));
    out.push(mk_rule(&DaySelector::default(), &[], &off));
    out.push(mk_rule(&DaySelector::default(), &[], &Modifier { kind: RuleKind::Unknown, comments: vec![] }));
    out.push(mk_rule(&DaySelector::default(), &[], &Modifier { kind: RuleKind::Open, comments: vec!["c"] }));
    // time only
    for t in ts.iter().skip(1) {
        out.push(mk_rule(&DaySelector::default(), t, &open));
    }
    for t in [&ts[1], &ts[3], &ts[6]] {
        out.push(mk_rule(&DaySelector::default(), t, &off));
        out.push(mk_rule(&DaySelector::default(), t, &unk_c));
    }
    for ds in day_selectors(1).iter().skip(1) {
        out.push(mk_rule(ds, &[], &open));
        out.push(mk_rule(ds, &ts[1], &open));
        out.push(mk_rule(ds, &[], &off));
        out.push(mk_rule(ds, &ts[3], &unk_c));
    }
    out
}

/// Is this one of the "long-skip" shapes (hints jump months to millennia)?
pub fn is_long_skip(ds: &DaySelector) -> bool {
    !ds.year.is_empty()
        || !ds.monthday.is_empty()
        || !ds.week.is_empty()
        || ds.weekday.iter().any(|w| matches!(w, WeekDayRange::Holiday { .. }))
}

/// E2 — all ordered pairs of R2 × the three separators.
pub fn e2_count() -> usize {
    let n = r2().len();
    n * n * 3
}

pub fn e2_at(r: &[RuleSequence], idx: usize) -> OpeningHoursExpression {
    let n = r.len();
    let op = OPERATORS[idx % 3];
    let j = (idx / 3) % n;
    let i = idx / 3 / n;
    expr(vec![r[i].clone(), with_op(r[j].clone(), op)])
}

/// R3 — ≈ 40 rules chosen to overlap pairwise on at least one day and one minute, covering every
/// (operator, kind) combination when paired.
pub fn r3() -> Vec<RuleSequence> {
    let ts = times();
    let m = modifiers();
    let dsel = |y: usize, mo: usize, w: usize, d: usize| DaySelector {
        year: years()[y].clone(),
        monthday: monthdays()[mo].clone(),
        week: weeks()[w].clone(),
        weekday: weekdays()[d].clone(),
    };
    let mut out = Vec::new();
    let shapes: Vec<(DaySelector, usize)> = vec![
        (dsel(0, 0, 0, 0), 0),
        (dsel(0, 0, 0, 0), 1),
        (dsel(0, 0, 0, 0), 3),
        (dsel(0, 0, 0, 2), 1),
        (dsel(0, 0, 0, 2), 3),
        (dsel(0, 0, 0, 1), 0),
        (dsel(0, 0, 0, 1), 6),
        (dsel(0, 0, 0, 13), 0),
        (dsel(0, 0, 0, 19), 2),
        (dsel(0, 1, 0, 0), 0),
        (dsel(0, 1, 0, 0), 14),
        (dsel(0, 11, 0, 0), 1),
        (dsel(2, 0, 0, 0), 1),
        (dsel(0, 0, 3, 0), 4),
        (dsel(0, 0, 0, 5), 1),
    ];
    for (ds, t) in &shapes {
        out.push(mk_rule(ds, &ts[*t], &m[0]));
    }
    for (ds, t) in shapes.iter().take(10) {
        out.push(mk_rule(ds, &ts[*t], &m[1]));
    }
    for (ds, t) in shapes.iter().take(8) {
        out.push(mk_rule(ds, &ts[*t], &m[5]));
    }
    for (ds, t) in shapes.iter().skip(3).take(5) {
        out.push(mk_rule(ds, &ts[*t], &m[3]));
    }
    out
}

pub fn e3_count() -> usize {
    let n = r3().len();
    n * n * n * 9
}

pub fn e3_at(r: &[RuleSequence], idx: usize) -> OpeningHoursExpression {
    let n = r.len();
    let op2 = OPERATORS[idx % 3];
    let op1 = OPERATORS[(idx / 3) % 3];
    let rest = idx / 9;
    let k = rest % n;
    let j = (rest / n) % n;
    let i = rest / n / n;
    expr(vec![r[i].clone(), with_op(r[j].clone(), op1), with_op(r[k].clone(), op2)])
}

/// The corpus S: sample file of the repository + expression literals collected from the tests
/// and the property statements (engine/data/corpus.txt).
pub fn corpus(repo: &str) -> Vec<String> {
    let mut out: Vec<String> = Vec::new();
    let mut seen = std::collections::HashSet::new();
    let sample = std::fs::read_to_string(format!("{repo}/opening-hours/src/tests/data/sample.txt")).unwrap_or_default();
    let verif = std::env::var("VERIF_DIR").unwrap_or_else(|_| "/verif".into());
    let extra = std::fs::read_to_string(format!("{verif}/engine/data/corpus.txt")).unwrap_or_default();
    for line in sample.lines().chain(extra.lines()) {
        let l = line.trim_end_matches(['\r', '\n']);
        if l.trim().is_empty() || l.starts_with("#!") {
            continue;
        }
        if seen.insert(l.to_string()) {
            out.push(l.to_string());
        }
    }
    out
}
