//! Constructors for values of the *real* AST types (all their fields are public), used as the
//! generator AST: the engine never obtains a generated expression from the parser — it builds the
//! value, prints it with its own printer (gen::print) and hands the *string* to the real parser.

pub use opening_hours_syntax::rules::day::{
    Date, DateOffset, DaySelector, HolidayKind, Month, MonthdayRange, WeekDayOffset, WeekDayRange, WeekNum, WeekRange,
    Weekday, Year, YearRange,
};
pub use opening_hours_syntax::rules::time::{Time, TimeEvent, TimeSelector, TimeSpan, VariableTime};
pub use opening_hours_syntax::rules::{OpeningHoursExpression, RuleKind, RuleOperator, RuleSequence};
use opening_hours_syntax::sorted_vec::UniqueSortedVec;
pub use opening_hours_syntax::ExtendedTime;
use std::sync::Arc;

pub type Comments = UniqueSortedVec<Arc<str>>;

pub fn yr(a: u16, b: u16, step: u16) -> YearRange {
    YearRange { range: Year(a)..=Year(b), step }
}

pub fn month(n: u8) -> Month {
    Month::try_from(n).expect("month 1..12")
}

pub fn md_month(a: u8, b: u8, year: Option<u16>) -> MonthdayRange {
    MonthdayRange::Month { range: month(a)..=month(b), year }
}

pub fn fixed(year: Option<u16>, m: u8, d: u8) -> Date {
    Date::Fixed { year, month: month(m), day: d }
}

pub fn easter(year: Option<u16>) -> Date {
    Date::Easter { year }
}

pub fn off0() -> DateOffset {
    DateOffset::default()
}

pub fn off_days(n: i64) -> DateOffset {
    DateOffset { wday_offset: WeekDayOffset::None, day_offset: n }
}

pub fn off_next(w: Weekday) -> DateOffset {
    DateOffset { wday_offset: WeekDayOffset::Next(w), day_offset: 0 }
}

pub fn off_prev(w: Weekday) -> DateOffset {
    DateOffset { wday_offset: WeekDayOffset::Prev(w), day_offset: 0 }
}

pub fn md_single(d: Date, o: DateOffset) -> MonthdayRange {
    MonthdayRange::Date { start: (d, o), end: (d, o) }
}

pub fn md_range(a: Date, ao: DateOffset, b: Date, bo: DateOffset) -> MonthdayRange {
    MonthdayRange::Date { start: (a, ao), end: (b, bo) }
}

pub fn wk(a: u8, b: u8, step: u8) -> WeekRange {
    WeekRange { range: WeekNum(a)..=WeekNum(b), step }
}

pub fn wd(a: Weekday, b: Weekday) -> WeekDayRange {
    WeekDayRange::Fixed { range: a..=b, offset: 0, nth_from_start: [true; 5], nth_from_end: [true; 5] }
}

/// `nth` entries: positive 1..5 from the start, negative -1..-5 from the end.
pub fn wd_nth(a: Weekday, nth: &[i8], offset: i64) -> WeekDayRange {
    let mut s = [false; 5];
    let mut e = [false; 5];
    for n in nth {
        if *n > 0 {
            s[(*n - 1) as usize] = true;
        } else {
            e[(-*n - 1) as usize] = true;
        }
    }
    WeekDayRange::Fixed { range: a..=a, offset, nth_from_start: s, nth_from_end: e }
}

pub fn hol(kind: HolidayKind, offset: i64) -> WeekDayRange {
    WeekDayRange::Holiday { kind, offset }
}

pub fn hm(h: u8, m: u8) -> ExtendedTime {
    ExtendedTime::new(h, m).expect("valid extended time")
}

pub fn tfix(h: u8, m: u8) -> Time {
    Time::Fixed(hm(h, m))
}

pub fn tev(event: TimeEvent, offset: i16) -> Time {
    Time::Variable(VariableTime { event, offset })
}

pub fn span(a: Time, b: Time) -> TimeSpan {
    TimeSpan { range: a..b, open_end: false, repeats: None }
}

pub fn span_open_end(a: Time, b: Time) -> TimeSpan {
    TimeSpan { range: a..b, open_end: true, repeats: None }
}

/// `a-b/step`: a span with a repetition step of `minutes` (evaluated as the plain span).
pub fn span_rep(a: Time, b: Time, minutes: i64) -> TimeSpan {
    TimeSpan { range: a..b, open_end: false, repeats: Some(chrono::Duration::minutes(minutes)) }
}

pub fn comments(cs: &[&str]) -> Comments {
    cs.iter().map(|c| Arc::<str>::from(*c)).collect::<Vec<_>>().into()
}

pub fn rule(
    year: Vec<YearRange>,
    monthday: Vec<MonthdayRange>,
    week: Vec<WeekRange>,
    weekday: Vec<WeekDayRange>,
    time: Vec<TimeSpan>,
    kind: RuleKind,
    cs: &[&str],
) -> RuleSequence {
    RuleSequence {
        day_selector: DaySelector { year, monthday, week, weekday },
        time_selector: TimeSelector::new(time),
        kind,
        operator: RuleOperator::Normal,
        comments: comments(cs),
    }
}

pub fn expr(rules: Vec<RuleSequence>) -> OpeningHoursExpression {
    OpeningHoursExpression { rules }
}

pub fn with_op(mut r: RuleSequence, op: RuleOperator) -> RuleSequence {
    r.operator = op;
    r
}
