pub mod alphabet;
pub mod ast;
pub mod print;
