//! The engine's own printer: AST value -> string, in a chosen *syntactic variant* (`Style`).
//! It is written from grammar.pest, not from the library's `Display` implementations, so that
//! C05 (parse(print(ast)) == ast for every documented variant) and C06 (library Display
//! round-trips) do not share code. Returns `None` for AST values the grammar cannot express.

use super::ast::*;

#[derive(Clone, Copy, Debug, PartialEq, Eq, Hash)]
pub struct Style {
    /// two-digit hours and day numbers ("04:00", "Jan 05") vs. single digits ("4:00", "Jan 5")
    pub pad: bool,
    /// 0: "off", 1: "closed"
    pub closed_word: u8,
    /// print the default modifier "open" explicitly
    pub explicit_open: bool,
    /// after wide-range selectors: 0 " ", 1 ":", 2 ": "
    pub wide_sep: u8,
    /// spaces around '-' in time spans and date ranges
    pub dash_space: bool,
    /// "Jan 5" / "2020 Jan 5" vs "Jan5" / "2020Jan5"
    pub date_space: bool,
    /// 0 "week 01", 1 "week01", 2 "week 1"
    pub week_style: u8,
    /// between holiday and weekday sequences: 0 ",", 1 " "
    pub hol_sep: u8,
    /// space before a trailing comment
    pub comment_space: bool,
    /// ";" without surrounding spaces
    pub tight_rule_sep: bool,
    /// print equal endpoints as a range: 2020-2020, Jan-Jan, Mo-Mo, week 05-05, May 15-15
    pub equal_as_range: bool,
    /// print the default time selector as "00:00-24:00" and a selector-less rule as "24/7 <modifier>"
    pub explicit_full_day: bool,
    /// print `a-9999` years as `a+`, nth ranges as ranges; when false: nth entries one by one, backwards (negative first)
    pub alt_forms: bool,
}

impl Style {
    pub const CANON: Style = Style {
        pad: true,
        closed_word: 0,
        explicit_open: false,
        wide_sep: 0,
        dash_space: false,
        date_space: true,
        week_style: 0,
        hol_sep: 0,
        comment_space: true,
        tight_rule_sep: false,
        equal_as_range: false,
        explicit_full_day: false,
        alt_forms: true,
    };

    /// Every combination of the documented variants (C05). 2*2*2*3*2*2*3*2*2*2*2*2*2 = 18 432;
    /// callers deduplicate the resulting strings.
    pub fn all() -> Vec<Style> {
        let mut out = Vec::new();
        for pad in [true, false] {
            for closed_word in 0..2 {
                for explicit_open in [false, true] {
                    for wide_sep in 0..3 {
                        for dash_space in [false, true] {
                            for date_space in [true, false] {
                                for week_style in 0..3 {
                                    for hol_sep in 0..2 {
                                        for comment_space in [true, false] {
                                            for tight_rule_sep in [false, true] {
                                                for equal_as_range in [false, true] {
                                                    for explicit_full_day in [false, true] {
                                                        for alt_forms in [true, false] {
                                                            out.push(Style {
                                                                pad,
                                                                closed_word,
                                                                explicit_open,
                                                                wide_sep,
                                                                dash_space,
                                                                date_space,
                                                                week_style,
                                                                hol_sep,
                                                                comment_space,
                                                                tight_rule_sep,
                                                                equal_as_range,
                                                                explicit_full_day,
                                                                alt_forms,
                                                            });
                                                        }
                                                    }
                                                }
                                            }
                                        }
                                    }
                                }
                            }
                        }
                    }
                }
            }
        }
        out
    }

    /// One-at-a-time deviations from the canonical style plus a few combined ones (cheap subset).
    pub fn basic() -> Vec<Style> {
        let c = Style::CANON;
        vec![
            c,
            Style { pad: false, ..c },
            Style { closed_word: 1, ..c },
            Style { explicit_open: true, ..c },
            Style { wide_sep: 1, ..c },
            Style { wide_sep: 2, ..c },
            Style { dash_space: true, ..c },
            Style { date_space: false, ..c },
            Style { week_style: 1, ..c },
            Style { week_style: 2, ..c },
            Style { hol_sep: 1, ..c },
            Style { comment_space: false, ..c },
            Style { tight_rule_sep: true, ..c },
            Style { equal_as_range: true, ..c },
            Style { explicit_full_day: true, ..c },
            Style { alt_forms: false, ..c },
            Style { pad: false, dash_space: true, date_space: false, tight_rule_sep: true, closed_word: 1, ..c },
        ]
    }
}

pub fn wday_str(w: Weekday) -> &'static str {
    match w {
        Weekday::Mon => "Mo",
        Weekday::Tue => "Tu",
        Weekday::Wed => "We",
        Weekday::Thu => "Th",
        Weekday::Fri => "Fr",
        Weekday::Sat => "Sa",
        Weekday::Sun => "Su",
    }
}

pub fn month_str(m: Month) -> &'static str {
    ["Jan", "Feb", "Mar", "Apr", "May", "Jun", "Jul", "Aug", "Sep", "Oct", "Nov", "Dec"][m as usize - 1]
}

fn p_year(y: &YearRange, st: &Style) -> Option<String> {
    let (a, b) = (y.range.start().0, y.range.end().0);
    let mut s = format!("{a}");
    if y.step == 1 && b == 9999 && a != 9999 && st.alt_forms {
        s.push('+');
        return Some(s);
    }
    if a != b || y.step != 1 || st.equal_as_range {
        s.push_str(&format!("-{b}"));
        if y.step != 1 {
            s.push_str(&format!("/{}", y.step));
        }
    }
    Some(s)
}

fn p_day_offset(n: i64) -> String {
    if n == 0 {
        return String::new();
    }
    let sign = if n > 0 { '+' } else { '-' };
    let abs = n.unsigned_abs();
    format!(" {sign}{abs} day{}", if abs > 1 { "s" } else { "" })
}

fn p_date_offset(o: &DateOffset) -> String {
    let mut s = String::new();
    match o.wday_offset {
        WeekDayOffset::None => {}
        WeekDayOffset::Next(w) => s.push_str(&format!("+{}", wday_str(w))),
        WeekDayOffset::Prev(w) => s.push_str(&format!("-{}", wday_str(w))),
    }
    s.push_str(&p_day_offset(o.day_offset));
    s
}

fn p_daynum(d: u8, st: &Style) -> String {
    if st.pad {
        format!("{d:02}")
    } else {
        format!("{d}")
    }
}

fn p_date(d: &Date, st: &Style) -> String {
    let sp = if st.date_space { " " } else { "" };
    match d {
        Date::Fixed { year, month, day } => {
            let mut s = String::new();
            if let Some(y) = year {
                s.push_str(&format!("{y}{sp}"));
            }
            s.push_str(&format!("{}{sp}{}", month_str(*month), p_daynum(*day, st)));
            s
        }
        Date::Easter { year } => match year {
            Some(y) => format!("{y}{sp}easter"),
            None => "easter".to_string(),
        },
    }
}

fn p_monthday(m: &MonthdayRange, st: &Style) -> Option<String> {
    match m {
        MonthdayRange::Month { range, year } => {
            let mut s = String::new();
            if let Some(y) = year {
                s.push_str(&format!("{y}"));
            }
            s.push_str(month_str(*range.start()));
            if range.start() != range.end() || st.equal_as_range {
                s.push_str(&format!("-{}", month_str(*range.end())));
            }
            Some(s)
        }
        MonthdayRange::Date { start, end } => {
            let mut s = format!("{}{}", p_date(&start.0, st), p_date_offset(&start.1));
            if start == end {
                // single date; the variant "Mon D-D" denotes the same value when there is no offset
                if st.equal_as_range && start.1 == DateOffset::default() {
                    if let Date::Fixed { day, .. } = start.0 {
                        s.push_str(&format!("-{}", p_daynum(day, st)));
                    }
                }
                return Some(s);
            }
            // "D+" forms
            // (own reading of "the start date carries a year": never the library's `has_year`)
            let start_has_year = matches!(start.0, Date::Fixed { year: Some(_), .. } | Date::Easter { year: Some(_) });
            let plus_end = if start_has_year { fixed(Some(9999), 12, 31) } else { fixed(None, 12, 31) };
            if end.0 == plus_end && end.1 == DateOffset::default() && st.alt_forms {
                s.push('+');
                return Some(s);
            }
            let dash = if st.dash_space { " - " } else { "-" };
            s.push_str(dash);
            s.push_str(&p_date(&end.0, st));
            s.push_str(&p_date_offset(&end.1));
            Some(s)
        }
    }
}

fn p_weeknum(n: u8, st: &Style) -> String {
    if st.week_style == 2 {
        format!("{n}")
    } else {
        format!("{n:02}")
    }
}

fn p_week(w: &WeekRange, st: &Style) -> Option<String> {
    let (a, b) = (w.range.start().0, w.range.end().0);
    let mut s = p_weeknum(a, st);
    if a != b || w.step != 1 || st.equal_as_range {
        s.push_str(&format!("-{}", p_weeknum(b, st)));
        if w.step != 1 {
            s.push_str(&format!("/{}", w.step));
        }
    }
    Some(s)
}

fn p_nth(from_start: &[bool; 5], from_end: &[bool; 5], st: &Style) -> String {
    let mut parts: Vec<String> = Vec::new();
    let mut i = 0;
    while i < 5 {
        if from_start[i] {
            let mut j = i;
            while j + 1 < 5 && from_start[j + 1] {
                j += 1;
            }
            if j > i && st.alt_forms {
                parts.push(format!("{}-{}", i + 1, j + 1));
            } else {
                for k in i..=j {
                    parts.push(format!("{}", k + 1));
                }
            }
            i = j + 1;
        } else {
            i += 1;
        }
    }
    for (k, set) in from_end.iter().enumerate() {
        if *set {
            parts.push(format!("-{}", k + 1));
        }
    }
    // the order of the entries of an nth list is free (the value is a mask): the non-canonical
    // style writes them backwards, negative entries first (`Th[-1,2]`)
    if !st.alt_forms {
        parts.reverse();
    }
    format!("[{}]", parts.join(","))
}

fn p_weekday(w: &WeekDayRange, st: &Style) -> Option<String> {
    match w {
        WeekDayRange::Fixed { range, offset, nth_from_start, nth_from_end } => {
            let all = nth_from_start.iter().all(|x| *x) && nth_from_end.iter().all(|x| *x);
            if all && *offset != 0 {
                // `Mo +1 day` is not in the grammar: the offset needs an nth list, written out in full
                if range.start() != range.end() {
                    return None;
                }
                return Some(format!("{}{}{}", wday_str(*range.start()), p_nth(nth_from_start, nth_from_end, st), p_day_offset(*offset)));
            }
            if all {
                let mut s = wday_str(*range.start()).to_string();
                if range.start() != range.end() || st.equal_as_range {
                    s.push_str(&format!("-{}", wday_str(*range.end())));
                }
                Some(s)
            } else {
                if range.start() != range.end() {
                    return None; // nth only applies to a single weekday in the grammar
                }
                if !nth_from_start.iter().any(|x| *x) && !nth_from_end.iter().any(|x| *x) {
                    return None;
                }
                Some(format!("{}{}{}", wday_str(*range.start()), p_nth(nth_from_start, nth_from_end, st), p_day_offset(*offset)))
            }
        }
        WeekDayRange::Holiday { kind, offset } => match kind {
            HolidayKind::Public => Some(format!("PH{}", p_day_offset(*offset))),
            HolidayKind::School => {
                if *offset != 0 {
                    None
                } else {
                    Some("SH".to_string())
                }
            }
        },
    }
}

fn p_weekday_selector(ws: &[WeekDayRange], st: &Style) -> Option<String> {
    // holidays must form a prefix or a suffix
    let is_h = |w: &WeekDayRange| matches!(w, WeekDayRange::Holiday { .. });
    let nh_prefix = ws.iter().take_while(|w| is_h(w)).count();
    let nh_suffix = ws.iter().rev().take_while(|w| is_h(w)).count();
    let total_h = ws.iter().filter(|w| is_h(w)).count();
    let strs: Option<Vec<String>> = ws.iter().map(|w| p_weekday(w, st)).collect();
    let strs = strs?;
    let sep = if st.hol_sep == 0 { "," } else { " " };
    if total_h == 0 || total_h == ws.len() {
        return Some(strs.join(","));
    }
    if nh_prefix == total_h {
        return Some(format!("{}{sep}{}", strs[..nh_prefix].join(","), strs[nh_prefix..].join(",")));
    }
    if nh_suffix == total_h {
        let k = ws.len() - nh_suffix;
        return Some(format!("{}{sep}{}", strs[..k].join(","), strs[k..].join(",")));
    }
    None
}

fn p_hm(t: ExtendedTime, st: &Style) -> String {
    if st.pad {
        format!("{:02}:{:02}", t.hour(), t.minute())
    } else {
        format!("{}:{:02}", t.hour(), t.minute())
    }
}

fn p_time(t: &Time, st: &Style, is_start: bool) -> Option<String> {
    match t {
        Time::Fixed(x) => {
            if is_start && x.mins_from_midnight() > 1440 {
                return None;
            }
            Some(p_hm(*x, st))
        }
        Time::Variable(v) => {
            if v.offset == 0 {
                Some(v.event.as_str().to_string())
            } else {
                let abs = v.offset.unsigned_abs();
                if abs > 1440 {
                    return None;
                }
                let sign = if v.offset > 0 { '+' } else { '-' };
                // offsets are always two-digit in real data; single digit hour is also accepted
                Some(format!("({}{}{})", v.event.as_str(), sign, p_hm(ExtendedTime::from_mins_from_midnight(abs).unwrap(), st)))
            }
        }
    }
}

fn p_span(s: &TimeSpan, st: &Style) -> Option<String> {
    let a = p_time(&s.range.start, st, true)?;
    let b = p_time(&s.range.end, st, false)?;
    if let Some(rep) = s.repeats {
        if s.open_end {
            return None;
        }
        let mins = rep.num_minutes();
        if !(0..=1440).contains(&mins) {
            return None;
        }
        // "/mm" for < 60 minutes, "/hh:mm" otherwise. The optional spaces around '-' are the same
        // documented relaxation as for a span without a step
        let d = if st.dash_space { format!("{a} - {b}") } else { format!("{a}-{b}") };
        return Some(if mins < 60 { format!("{d}/{:02}", mins) } else { format!("{d}/{:02}:{:02}", mins / 60, mins % 60) });
    }
    if s.open_end && s.range.end == Time::Fixed(ExtendedTime::MIDNIGHT_24) && st.alt_forms {
        return Some(format!("{a}+"));
    }
    let dash = if st.dash_space { " - " } else { "-" };
    Some(format!("{a}{dash}{b}{}", if s.open_end { "+" } else { "" }))
}

fn kind_str(k: RuleKind, st: &Style) -> &'static str {
    match k {
        RuleKind::Open => "open",
        RuleKind::Closed => {
            if st.closed_word == 0 {
                "off"
            } else {
                "closed"
            }
        }
        RuleKind::Unknown => "unknown",
    }
}

pub fn print_rule(r: &RuleSequence, st: &Style) -> Option<String> {
    let ds = &r.day_selector;
    let default_ts = r.time_selector == TimeSelector::default();
    let cs: Vec<&str> = r.comments.iter().map(|c| &**c).collect();
    if cs.iter().any(|c| c.contains('"') || c.is_empty()) {
        return None;
    }
    if cs.len() > 2 {
        return None;
    }
    let mut sel = String::new();
    let prefix_comment = cs.len() == 2;
    if prefix_comment {
        // `"x":` takes the place of the wide-range selectors; the parser sorts the two comments,
        // so any order denotes the same value
        if !(ds.year.is_empty() && ds.monthday.is_empty() && ds.week.is_empty()) {
            return None;
        }
        sel.push_str(&format!("\"{}\":", cs[0]));
    }
    // wide range
    let mut wide = String::new();
    {
        let ys: Option<Vec<String>> = ds.year.iter().map(|y| p_year(y, st)).collect();
        wide.push_str(&ys?.join(","));
        let ms: Option<Vec<String>> = ds.monthday.iter().map(|m| p_monthday(m, st)).collect();
        let ms = ms?;
        if !ms.is_empty() {
            // a lone plain year directly followed by a monthday selector is read by the grammar as the
            // year *of* that monthday range (documented ambiguity): not expressible as two selectors
            // — the two-selector value is written with the year as a range `Y-Y`
            if ds.year.len() == 1 && ds.year[0].step == 1 && ds.year[0].range.start() == ds.year[0].range.end() && !wide.contains('-') && !wide.contains('+') {
                wide = format!("{0}-{0}", **ds.year[0].range.start());
            }
            // a year selector directly followed by a monthday range that starts with its own year
            // glues two digit strings together (`2020-2030/3` + `2020Dec`): not expressible
            if !ds.year.is_empty() && ms[0].starts_with(|c: char| c.is_ascii_digit()) {
                return None;
            }
            wide.push_str(&ms.join(","));
        }
        if !ds.week.is_empty() {
            let ws: Option<Vec<String>> = ds.week.iter().map(|w| p_week(w, st)).collect();
            if !wide.is_empty() {
                wide.push(' ');
            }
            wide.push_str(if st.week_style == 1 { "week" } else { "week " });
            wide.push_str(&ws?.join(","));
        }
    }
    // small range
    let mut small = String::new();
    if !ds.weekday.is_empty() {
        small.push_str(&p_weekday_selector(&ds.weekday, st)?);
    }
    let print_time = !default_ts || (st.explicit_full_day && !(ds.is_empty() && !prefix_comment && false));
    let has_selectors = !wide.is_empty() || !small.is_empty();
    let mut time = String::new();
    if !default_ts || (st.explicit_full_day && has_selectors) {
        let ts: Option<Vec<String>> = r.time_selector.time.iter().map(|s| p_span(s, st)).collect();
        time = ts?.join(",");
    }
    let _ = print_time;
    if !time.is_empty() {
        if !small.is_empty() {
            small.push(' ');
        }
        small.push_str(&time);
    }
    sel.push_str(&wide);
    if !wide.is_empty() && !small.is_empty() {
        sel.push_str(match st.wide_sep {
            0 => " ",
            1 => ":",
            _ => ": ",
        });
    }
    sel.push_str(&small);
    // modifier
    let mut modifier = String::new();
    if r.kind != RuleKind::Open || st.explicit_open {
        modifier.push_str(kind_str(r.kind, st));
    }
    let trailing = if prefix_comment { Some(cs[1]) } else { cs.first().copied() };
    if let Some(c) = trailing {
        if !modifier.is_empty() && st.comment_space {
            modifier.push(' ');
        }
        modifier.push_str(&format!("\"{c}\""));
    }
    if sel.is_empty() || (prefix_comment && wide.is_empty() && small.is_empty()) {
        if prefix_comment {
            return None; // `"x":` must be followed by a small-range selector to be unambiguous here
        }
        // selector-less rule
        if modifier.is_empty() {
            return Some("24/7".to_string());
        }
        if st.explicit_full_day {
            return Some(format!("24/7 {modifier}"));
        }
        return Some(modifier);
    }
    if modifier.is_empty() {
        Some(sel)
    } else {
        Some(format!("{sel} {modifier}"))
    }
}

pub fn print_expr(e: &OpeningHoursExpression, st: &Style) -> Option<String> {
    let mut out = String::new();
    for (i, r) in e.rules.iter().enumerate() {
        if i == 0 {
            if r.operator != RuleOperator::Normal {
                return None;
            }
        } else {
            out.push_str(match r.operator {
                RuleOperator::Normal => {
                    if st.tight_rule_sep {
                        ";"
                    } else {
                        " ; "
                    }
                }
                RuleOperator::Additional => ", ",
                RuleOperator::Fallback => " || ",
            });
        }
        let text = print_rule(r, st)?;
        out.push_str(&text);
    }
    if e.rules.is_empty() {
        return None;
    }
    Some(out)
}

pub fn canon(e: &OpeningHoursExpression) -> Option<String> {
    print_expr(e, &Style::CANON)
}
