//! Evaluation contexts: the real `Context` values and, next to each, the plain date sets the
//! reference model uses (built from the same date lists / from the source data files, never
//! read back from the real calendars).

use crate::util::ymd;
use chrono::NaiveDate;
use compact_calendar::CompactCalendar;
use opening_hours::localization::Country;
use opening_hours::{Context, ContextHolidays};
use std::collections::{BTreeMap, BTreeSet};
use std::sync::Arc;

#[derive(Clone)]
pub struct Ctx {
    pub name: &'static str,
    pub real: Context,
    pub public: BTreeSet<NaiveDate>,
    pub school: BTreeSet<NaiveDate>,
}

pub fn synthetic_dates() -> (Vec<NaiveDate>, Vec<NaiveDate>) {
    let public = vec![
        ymd(2020, 1, 1),
        ymd(2020, 12, 25),
        ymd(2020, 12, 26),
        ymd(2021, 4, 5),
        ymd(1900, 1, 1),
        ymd(9999, 12, 31),
        ymd(1899, 12, 31),
        ymd(10000, 1, 1),
        ymd(2024, 2, 29),
        ymd(2021, 1, 3),
        ymd(2020, 6, 1),
        ymd(2019, 12, 31),
    ];
    let mut school = Vec::new();
    let mut d = ymd(2020, 2, 10);
    while d <= ymd(2020, 2, 23) {
        school.push(d);
        d = d.succ_opt().unwrap();
    }
    let mut d = ymd(2020, 12, 21);
    while d <= ymd(2021, 1, 3) {
        school.push(d);
        d = d.succ_opt().unwrap();
    }
    (public, school)
}

fn cal(dates: &[NaiveDate]) -> Arc<CompactCalendar> {
    Arc::new(dates.iter().copied().collect())
}

pub fn empty() -> Ctx {
    Ctx { name: "empty", real: Context::default(), public: BTreeSet::new(), school: BTreeSet::new() }
}

pub fn synthetic() -> Ctx {
    let (p, s) = synthetic_dates();
    Ctx {
        name: "synthetic",
        real: Context::default().with_holidays(ContextHolidays::new(cal(&p), cal(&s))),
        public: p.into_iter().collect(),
        school: s.into_iter().collect(),
    }
}

fn read_db(path: &str) -> BTreeMap<String, BTreeSet<NaiveDate>> {
    let mut db: BTreeMap<String, BTreeSet<NaiveDate>> = BTreeMap::new();
    if let Ok(text) = std::fs::read_to_string(path) {
        for line in text.lines() {
            let mut it = line.split_whitespace();
            if let (Some(r), Some(d)) = (it.next(), it.next()) {
                if let Some(d) = crate::util::parse_date(d) {
                    db.entry(r.to_string()).or_default().insert(d);
                }
            }
        }
    }
    db
}

/// Country context: real side = the embedded calendars, model side = the source text files.
pub fn country(repo: &str, c: Country, name: &'static str) -> Ctx {
    let public = read_db(&format!("{repo}/opening-hours/data/holidays_public.txt")).remove(c.iso_code()).unwrap_or_default();
    let school = read_db(&format!("{repo}/opening-hours/data/holidays_school.txt")).remove(c.iso_code()).unwrap_or_default();
    Ctx { name, real: Context::default().with_holidays(c.holidays()), public, school }
}

pub fn by_name(repo: &str, name: &str) -> Ctx {
    match name {
        "synthetic" => synthetic(),
        "FR" => country(repo, Country::FR, "FR"),
        "US" => country(repo, Country::US, "US"),
        _ => empty(),
    }
}

pub fn all(repo: &str) -> Vec<Ctx> {
    vec![empty(), synthetic(), country(repo, Country::FR, "FR"), country(repo, Country::US, "US")]
}
