//! Helpers around the *real* evaluator: day run-lists and the pointwise run-length oracle **P**
//! (DESIGN §2.4): the concatenation, for every day of a window, of the real
//! `schedule_at(day).into_iter()` ranges with adjacent equal kinds merged.

use crate::model::{kind_code, K_CLOSED};
use chrono::{Duration, NaiveDate, NaiveDateTime};
use opening_hours::localization::Localize;
use opening_hours::OpeningHours;

pub type Run = (u16, u16, u8);

pub fn real_day_runs<L: Localize>(oh: &OpeningHours<L>, d: NaiveDate) -> Vec<Run> {
    let mut out: Vec<Run> = Vec::with_capacity(4);
    for tr in oh.schedule_at(d) {
        let (a, b, k) = (tr.range.start.mins_from_midnight(), tr.range.end.mins_from_midnight(), kind_code(tr.kind));
        match out.last_mut() {
            Some(last) if last.2 == k && last.1 == a => last.1 = b,
            _ => out.push((a, b, k)),
        }
    }
    out
}

/// True iff the runs form a gap-free tiling of 00:00..24:00.
pub fn is_tiling(runs: &[Run]) -> bool {
    !runs.is_empty() && runs[0].0 == 0 && runs[runs.len() - 1].1 == 1440 && runs.windows(2).all(|w| w[0].1 == w[1].0) && runs.iter().all(|r| r.0 < r.1)
}

pub fn fmt_runs(runs: &[Run]) -> String {
    let k = |c: u8| match c {
        0 => "closed",
        1 => "open",
        _ => "unknown",
    };
    runs.iter().map(|(a, b, c)| format!("{:02}:{:02}-{:02}:{:02} {}", a / 60, a % 60, b / 60, b % 60, k(*c))).collect::<Vec<_>>().join(", ")
}

pub fn epoch() -> NaiveDateTime {
    NaiveDate::from_ymd_opt(1899, 1, 1).unwrap().and_hms_opt(0, 0, 0).unwrap()
}

pub fn to_min(dt: NaiveDateTime) -> i64 {
    (dt - epoch()).num_minutes()
}

pub fn from_min(m: i64) -> NaiveDateTime {
    epoch() + Duration::minutes(m)
}

/// Pointwise run-length encoding over [lo, hi) (minutes since `epoch`).
pub struct Pointwise {
    pub lo: i64,
    pub hi: i64,
    /// start minute of each run (strictly increasing; first == lo)
    pub starts: Vec<i64>,
    pub kinds: Vec<u8>,
    pub days: u64,
}

impl Pointwise {
    /// Build from the real `schedule_at` over the days [d0, d1] (inclusive).
    pub fn build<L: Localize>(oh: &OpeningHours<L>, d0: NaiveDate, d1: NaiveDate) -> Pointwise {
        let lo = to_min(d0.and_hms_opt(0, 0, 0).unwrap());
        let mut starts: Vec<i64> = Vec::new();
        let mut kinds: Vec<u8> = Vec::new();
        let mut d = d0;
        let mut base = lo;
        let mut days = 0;
        loop {
            days += 1;
            for tr in oh.schedule_at(d) {
                let a = tr.range.start.mins_from_midnight() as i64;
                let k = kind_code(tr.kind);
                if kinds.last() != Some(&k) {
                    starts.push(base + a);
                    kinds.push(k);
                }
            }
            if d >= d1 {
                break;
            }
            d = d.succ_opt().unwrap();
            base += 1440;
        }
        let hi = base + 1440;
        if starts.is_empty() {
            starts.push(lo);
            kinds.push(K_CLOSED);
        }
        Pointwise { lo, hi, starts, kinds, days }
    }

    fn idx(&self, m: i64) -> usize {
        match self.starts.binary_search(&m) {
            Ok(i) => i,
            Err(i) => i.saturating_sub(1),
        }
    }

    pub fn kind_at(&self, m: i64) -> u8 {
        if m < self.lo || m >= self.hi {
            return K_CLOSED;
        }
        self.kinds[self.idx(m)]
    }

    /// End (exclusive) of the run containing minute `m`, capped at `hi`.
    pub fn run_end(&self, m: i64) -> i64 {
        let i = self.idx(m);
        if i + 1 < self.starts.len() {
            self.starts[i + 1]
        } else {
            self.hi
        }
    }

    pub fn run_start(&self, m: i64) -> i64 {
        self.starts[self.idx(m)]
    }

    pub fn n_runs(&self) -> usize {
        self.starts.len()
    }
}

/// Day signature with comments: the ranges of `schedule_at(d).into_iter()` as they come, each
/// with its comment set flattened on ", " (several comments of one rule print joined).
pub fn real_day_sig<L: Localize>(oh: &OpeningHours<L>, d: NaiveDate) -> Vec<(u16, u16, u8, Vec<String>)> {
    oh.schedule_at(d)
        .into_iter()
        .map(|tr| {
            let mut cs: Vec<String> = tr.comments.iter().flat_map(|c| c.split(", ").map(|s| s.to_string()).collect::<Vec<_>>()).collect();
            cs.sort();
            cs.dedup();
            (tr.range.start.mins_from_midnight(), tr.range.end.mins_from_midnight(), kind_code(tr.kind), cs)
        })
        .collect()
}

/// First day of the blocks on which two evaluators differ (kinds only, or kinds and comments).
pub fn first_difference<L: Localize>(
    a: &OpeningHours<L>,
    b: &OpeningHours<L>,
    blocks: &[(NaiveDate, NaiveDate)],
    with_comments: bool,
) -> (u64, Option<(NaiveDate, String, String)>, bool) {
    let mut n = 0u64;
    let mut varied = false;
    let mut prev: Option<Vec<Run>> = None;
    for (d0, d1) in blocks {
        let mut d = *d0;
        loop {
            n += 1;
            if with_comments {
                let (x, y) = (real_day_sig(a, d), real_day_sig(b, d));
                if x != y {
                    return (n, Some((d, format!("{x:?}"), format!("{y:?}"))), varied);
                }
                let r: Vec<Run> = x.iter().map(|t| (t.0, t.1, t.2)).collect();
                if let Some(p) = &prev {
                    varied |= *p != r;
                }
                prev = Some(r);
            } else {
                let (x, y) = (real_day_runs(a, d), real_day_runs(b, d));
                if x != y {
                    return (n, Some((d, fmt_runs(&x), fmt_runs(&y))), varied);
                }
                if let Some(p) = &prev {
                    varied |= *p != x;
                }
                prev = Some(x);
            }
            if d >= *d1 {
                break;
            }
            d = d.succ_opt().unwrap();
        }
    }
    (n, None, varied)
}
