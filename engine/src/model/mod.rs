//! Reference model **M** of the documented rule semantics (DESIGN §2.3).
//!
//! Representation: a day is an array of 1440 cells `(kind, writer)`. No interval arithmetic.
//! The model is three-valued: constructs that neither the property statement nor the
//! repository's documentation pin down evaluate to "unspecified" (`None`) and the caller makes
//! no claim for that day.

use crate::gen::ast::*;
use chrono::{Datelike, Duration, NaiveDate};
use std::collections::{BTreeSet, HashMap};
use std::rc::Rc;

#[derive(Clone, Copy, Debug, PartialEq, Eq, Hash)]
pub enum Tri {
    No,
    Yes,
    Unspec,
}

impl Tri {
    pub fn from_bool(b: bool) -> Tri {
        if b {
            Tri::Yes
        } else {
            Tri::No
        }
    }
    pub fn and(self, o: Tri) -> Tri {
        match (self, o) {
            (Tri::No, _) | (_, Tri::No) => Tri::No,
            (Tri::Unspec, _) | (_, Tri::Unspec) => Tri::Unspec,
            _ => Tri::Yes,
        }
    }
    pub fn or(self, o: Tri) -> Tri {
        match (self, o) {
            (Tri::Yes, _) | (_, Tri::Yes) => Tri::Yes,
            (Tri::Unspec, _) | (_, Tri::Unspec) => Tri::Unspec,
            _ => Tri::No,
        }
    }
}

/// Where sun-event times come from.
pub enum Events<'a> {
    /// No coordinates: 06:00 / 07:00 / 19:00 / 20:00 (localize.rs, `Localize::event_time` default).
    Fixed,
    /// Supplied by the caller (minutes after local midnight), e.g. read from the real `Localize`.
    Lookup(&'a dyn Fn(NaiveDate, TimeEvent) -> u16),
}

pub struct ModelCtx<'a> {
    pub public: &'a BTreeSet<NaiveDate>,
    pub school: &'a BTreeSet<NaiveDate>,
    pub events: Events<'a>,
}

// ---------------------------------------------------------------- calendar arithmetic

/// Gregorian Easter Sunday, Oudin (1940) formulation — deliberately not the "anonymous
/// Gregorian" variant the library uses.
pub fn easter_oudin(year: i32) -> Option<NaiveDate> {
    if !(1583..=9999).contains(&year) {
        return None;
    }
    let g = year % 19;
    let c = year / 100;
    let h = (c - c / 4 - (8 * c + 13) / 25 + 19 * g + 15) % 30;
    let i = h - (h / 28) * (1 - (29 / (h + 1)) * ((21 - g) / 11));
    let j = (year + year / 4 + i + 2 - c + c / 4) % 7;
    let l = i - j;
    let month = 3 + (l + 40) / 44;
    let day = l + 28 - 31 * (month / 4);
    NaiveDate::from_ymd_opt(year, month as u32, day as u32)
}

fn days_in_month(y: i32, m: u32) -> u32 {
    match m {
        1 | 3 | 5 | 7 | 8 | 10 | 12 => 31,
        4 | 6 | 9 | 11 => 30,
        _ => {
            if (y % 4 == 0 && y % 100 != 0) || y % 400 == 0 {
                29
            } else {
                28
            }
        }
    }
}

enum Res {
    NoOccurrence,
    At(NaiveDate),
    Unspec,
}

fn apply_offset(d: NaiveDate, o: &DateOffset) -> Option<NaiveDate> {
    if o.day_offset != 0 && o.wday_offset != WeekDayOffset::None {
        return None; // order of application is not documented
    }
    if o.day_offset.abs() > 100_000 {
        return None;
    }
    let d = d.checked_add_signed(Duration::days(o.day_offset))?;
    match o.wday_offset {
        WeekDayOffset::None => Some(d),
        WeekDayOffset::Next(w) => {
            let mut x = d;
            for _ in 0..7 {
                if x.weekday() == w {
                    return Some(x);
                }
                x = x.succ_opt()?;
            }
            None
        }
        WeekDayOffset::Prev(w) => {
            let mut x = d;
            for _ in 0..7 {
                if x.weekday() == w {
                    return Some(x);
                }
                x = x.pred_opt()?;
            }
            None
        }
    }
}

/// Occurrence of a (date, offset) in year `y`. `start_side`: a non-existing day resolves to the
/// first existing day after it (start) or the last existing day before it (end).
fn resolve(date: &Date, off: &DateOffset, y: i32, start_side: bool) -> Res {
    let base = match date {
        Date::Fixed { year, month, day } => {
            if let Some(yy) = year {
                if *yy as i32 != y {
                    return Res::NoOccurrence;
                }
            }
            let m = *month as u32;
            let d = *day as u32;
            if d == 0 || d > 31 {
                return Res::Unspec;
            }
            let dim = days_in_month(y, m);
            if d <= dim {
                NaiveDate::from_ymd_opt(y, m, d)
            } else if start_side {
                if m == 12 {
                    NaiveDate::from_ymd_opt(y + 1, 1, 1)
                } else {
                    NaiveDate::from_ymd_opt(y, m + 1, 1)
                }
            } else {
                NaiveDate::from_ymd_opt(y, m, dim)
            }
        }
        Date::Easter { year } => {
            if let Some(yy) = year {
                if *yy as i32 != y {
                    return Res::NoOccurrence;
                }
            }
            easter_oudin(y)
        }
    };
    match base.and_then(|b| apply_offset(b, off)) {
        Some(d) => Res::At(d),
        None => Res::Unspec,
    }
}

fn date_year(d: &Date) -> Option<i32> {
    match d {
        Date::Fixed { year, .. } | Date::Easter { year } => year.map(|y| y as i32),
    }
}

fn nominal(d: &Date) -> Option<(u32, u32)> {
    match d {
        Date::Fixed { month, day, .. } => Some((*month as u32, *day as u32)),
        Date::Easter { .. } => None,
    }
}

fn has_offset(o: &DateOffset) -> bool {
    o.day_offset != 0 || o.wday_offset != WeekDayOffset::None
}

/// Interval [s, e] of the range whose start occurs in year `y` (None = no interval that year).
fn interval_for_year(start: &(Date, DateOffset), end: &(Date, DateOffset), y: i32, end_year: Option<i32>) -> Result<Option<(NaiveDate, NaiveDate)>, ()> {
    let s = match resolve(&start.0, &start.1, y, true) {
        Res::NoOccurrence => return Ok(None),
        Res::Unspec => return Err(()),
        Res::At(d) => d,
    };
    let offsets = has_offset(&start.1) || has_offset(&end.1);
    if let Some(ye) = end_year {
        // both ends carry a year: one fixed interval
        return match resolve(&end.0, &end.1, ye, false) {
            Res::At(e) if e >= s => Ok(Some((s, e))),
            _ => Err(()),
        };
    }
    match (nominal(&start.0), nominal(&end.0)) {
        (Some(a), Some(b)) => {
            let wraps = b < a;
            let ey = if wraps { y + 1 } else { y };
            match resolve(&end.0, &end.1, ey, false) {
                Res::At(e) => {
                    if e < s {
                        if offsets {
                            Err(()) // an offset inverted the nominal order: not documented
                        } else {
                            Ok(None) // e.g. `Apr 31`: resolves to an empty interval
                        }
                    } else {
                        Ok(Some((s, e)))
                    }
                }
                _ => Err(()),
            }
        }
        _ => {
            // Easter involved: same-year interval when the resolved order allows it
            match resolve(&end.0, &end.1, y, false) {
                Res::At(e) if e >= s => Ok(Some((s, e))),
                _ => Err(()),
            }
        }
    }
}

fn monthday_matches(m: &MonthdayRange, d: NaiveDate) -> Tri {
    let y = d.year();
    match m {
        MonthdayRange::Month { range, year } => {
            let (a, b) = (*range.start() as u32, *range.end() as u32);
            let mo = d.month();
            match year {
                Some(yy) => {
                    if a > b {
                        // `YYYYMon1-Mon2` wrapping over New Year: that occurrence only, from Mon1 of YYYY to
                        // Mon2 of YYYY+1 — the reading of every other start-year-only range (§2.3 date-range
                        // row) and, since fix 41a39f6, of both `filter` and the hint. (Unspecified in the first
                        // build, when the two disagreed; a round-7 agent's change went unnoticed through that.)
                        Tri::from_bool((*yy as i32 == y && mo >= a) || (*yy as i32 + 1 == y && mo <= b))
                    } else {
                        Tri::from_bool(*yy as i32 == y && a <= mo && mo <= b)
                    }
                }
                None => Tri::from_bool(if a <= b { a <= mo && mo <= b } else { mo >= a || mo <= b }),
            }
        }
        MonthdayRange::Date { start, end } => {
            let ys = date_year(&start.0);
            let ye = date_year(&end.0);
            match (ys, ye) {
                (None, Some(_)) => Tri::Unspec,
                (Some(y0), ye) => match interval_for_year(start, end, y0, ye) {
                    Err(()) => Tri::Unspec,
                    Ok(None) => Tri::No,
                    Ok(Some((s, e))) => Tri::from_bool(s <= d && d <= e),
                },
                (None, None) => {
                    let mut res = Tri::No;
                    for yy in [y - 1, y, y + 1] {
                        match interval_for_year(start, end, yy, None) {
                            Err(()) => res = res.or(Tri::Unspec),
                            Ok(None) => {}
                            Ok(Some((s, e))) => {
                                if s <= d && d <= e {
                                    return Tri::Yes;
                                }
                            }
                        }
                    }
                    res
                }
            }
        }
    }
}

fn year_matches(r: &YearRange, d: NaiveDate) -> Tri {
    let (a, b, s) = (r.range.start().0 as i32, r.range.end().0 as i32, r.step as i32);
    let y = d.year();
    if s <= 0 {
        return Tri::Unspec;
    }
    if a <= b {
        Tri::from_bool(a <= y && y <= b && (y - a) % s == 0)
    } else if s == 1 {
        Tri::from_bool(y >= a || y <= b)
    } else {
        Tri::Unspec
    }
}

fn week_matches(r: &WeekRange, d: NaiveDate) -> Tri {
    let (a, b, s) = (r.range.start().0 as i32, r.range.end().0 as i32, r.step as i32);
    let w = d.iso_week().week() as i32;
    if s <= 0 {
        return Tri::Unspec;
    }
    if a <= b {
        Tri::from_bool(a <= w && w <= b && (w - a) % s == 0)
    } else if s == 1 {
        Tri::from_bool(w >= a || w <= b)
    } else {
        Tri::Unspec
    }
}

fn weekday_matches(r: &WeekDayRange, d: NaiveDate, ctx: &ModelCtx) -> Tri {
    match r {
        WeekDayRange::Fixed { range, offset, nth_from_start, nth_from_end } => {
            if offset.abs() > 100_000 {
                return Tri::Unspec;
            }
            let Some(x) = d.checked_sub_signed(Duration::days(*offset)) else { return Tri::Unspec };
            let (a, b) = (range.start().num_days_from_monday(), range.end().num_days_from_monday());
            let w = x.weekday().num_days_from_monday();
            let in_range = if a <= b { a <= w && w <= b } else { w >= a || w <= b };
            if !in_range {
                return Tri::No;
            }
            let dim = days_in_month(x.year(), x.month());
            let from_start = ((x.day() - 1) / 7) as usize;
            let from_end = ((dim - x.day()) / 7) as usize;
            Tri::from_bool(nth_from_start[from_start] || nth_from_end[from_end])
        }
        WeekDayRange::Holiday { kind, offset } => {
            if offset.abs() > 100_000 {
                return Tri::Unspec;
            }
            let Some(x) = d.checked_sub_signed(Duration::days(*offset)) else { return Tri::Unspec };
            let cal = match kind {
                HolidayKind::Public => ctx.public,
                HolidayKind::School => ctx.school,
            };
            Tri::from_bool(cal.contains(&x))
        }
    }
}

pub fn day_matches(ds: &DaySelector, d: NaiveDate, ctx: &ModelCtx) -> Tri {
    fn any<T>(v: &[T], f: impl Fn(&T) -> Tri) -> Tri {
        if v.is_empty() {
            return Tri::Yes;
        }
        v.iter().fold(Tri::No, |acc, x| acc.or(f(x)))
    }
    any(&ds.year, |r| year_matches(r, d))
        .and(any(&ds.monthday, |r| monthday_matches(r, d)))
        .and(any(&ds.week, |r| week_matches(r, d)))
        .and(any(&ds.weekday, |r| weekday_matches(r, d, ctx)))
}

// ---------------------------------------------------------------- time spans

fn event_minutes(ev: TimeEvent, d: NaiveDate, ctx: &ModelCtx) -> u16 {
    match &ctx.events {
        Events::Fixed => match ev {
            TimeEvent::Dawn => 6 * 60,
            TimeEvent::Sunrise => 7 * 60,
            TimeEvent::Sunset => 19 * 60,
            TimeEvent::Dusk => 20 * 60,
        },
        Events::Lookup(f) => f(d, ev),
    }
}

fn time_minutes(t: &Time, d: NaiveDate, ctx: &ModelCtx) -> Option<i32> {
    match t {
        Time::Fixed(x) => Some(x.mins_from_midnight() as i32),
        Time::Variable(v) => {
            let m = event_minutes(v.event, d, ctx) as i32 + v.offset as i32;
            if (0..=2880).contains(&m) {
                Some(m)
            } else {
                None
            }
        }
    }
}

/// Spans of a time selector on date `d`, as [a, b) minute pairs within 0..=2880.
pub fn spans(ts: &TimeSelector, d: NaiveDate, ctx: &ModelCtx) -> Option<Vec<(i32, i32)>> {
    let mut out = Vec::new();
    for s in &ts.time {
        if s.repeats.is_some() {
            return None;
        }
        let a = time_minutes(&s.range.start, d, ctx)?;
        let mut b = time_minutes(&s.range.end, d, ctx)?;
        if b <= a {
            b += 1440;
        }
        if b > 2880 {
            return None;
        }
        out.push((a, b));
    }
    Some(out)
}

pub fn has_events(e: &OpeningHoursExpression) -> bool {
    e.rules.iter().any(|r| r.time_selector.time.iter().any(|s| matches!(s.range.start, Time::Variable(_)) || matches!(s.range.end, Time::Variable(_))))
}

// ---------------------------------------------------------------- day evaluation

pub const K_CLOSED: u8 = 0;
pub const K_OPEN: u8 = 1;
pub const K_UNKNOWN: u8 = 2;

pub fn kind_code(k: RuleKind) -> u8 {
    match k {
        RuleKind::Closed => K_CLOSED,
        RuleKind::Open => K_OPEN,
        RuleKind::Unknown => K_UNKNOWN,
    }
}

/// Result of the model for one day.
#[derive(Clone, Debug)]
pub struct DayModel {
    /// kind per minute
    pub kind: Vec<u8>,
    /// index of the rule that wrote the minute last, -1 = nobody (implicit closed)
    pub writer: Vec<i16>,
    /// run-length form of `kind`: (start, end, kind)
    pub runs: Vec<(u16, u16, u8)>,
    /// per rule: the minutes it covers on this day on its own (today part ∪ spill of yesterday),
    /// whether or not a later rule overwrote them; None = contributes nothing
    pub cover: Vec<Option<Vec<(u16, u16)>>>,
    /// rules whose evaluation takes part in the final accumulated schedule
    pub contributing: Vec<usize>,
}

fn runs_of(kind: &[u8]) -> Vec<(u16, u16, u8)> {
    let mut out: Vec<(u16, u16, u8)> = Vec::new();
    for (i, k) in kind.iter().enumerate() {
        match out.last_mut() {
            Some(last) if last.2 == *k => last.1 = i as u16 + 1,
            _ => out.push((i as u16, i as u16 + 1, *k)),
        }
    }
    out
}

#[derive(Clone)]
struct AccDay {
    kind: Vec<u8>,
    writer: Vec<i16>,
    covered: Vec<bool>,
    contributing: Vec<usize>,
}

impl AccDay {
    fn from_rule(idx: usize, k: u8, cover: &[(u16, u16)]) -> AccDay {
        let mut a = AccDay { kind: vec![K_CLOSED; 1440], writer: vec![-1; 1440], covered: vec![false; 1440], contributing: vec![idx] };
        for (s, e) in cover {
            for m in *s..*e {
                a.kind[m as usize] = k;
                a.writer[m as usize] = idx as i16;
                a.covered[m as usize] = true;
            }
        }
        a
    }
    fn overlay(&mut self, other: &AccDay) {
        for m in 0..1440 {
            if other.covered[m] {
                self.kind[m] = other.kind[m];
                self.writer[m] = other.writer[m];
                self.covered[m] = true;
            }
        }
        self.contributing.extend(other.contributing.iter().copied());
    }
    fn always_closed(&self) -> bool {
        (0..1440).all(|m| !self.covered[m] || self.kind[m] == K_CLOSED)
    }
}

/// Evaluate one day given the match vectors of D and D-1 and the spans of each rule on D / D-1.
/// `spans_today[i]` / `spans_yesterday[i]` are None when unspecified.
fn combine(
    e: &OpeningHoursExpression,
    m_today: &[Tri],
    m_yest: &[Tri],
    spans_today: &[Option<Vec<(i32, i32)>>],
    spans_yest: &[Option<Vec<(i32, i32)>>],
) -> Option<DayModel> {
    let mut prev_match = false;
    let mut acc: Option<AccDay> = None;
    let mut covers: Vec<Option<Vec<(u16, u16)>>> = Vec::with_capacity(e.rules.len());
    for (i, r) in e.rules.iter().enumerate() {
        if m_today[i] == Tri::Unspec || m_yest[i] == Tri::Unspec {
            return None;
        }
        let curr_match = m_today[i] == Tri::Yes;
        let mut cover: Option<Vec<(u16, u16)>> = None;
        if curr_match {
            let sp = spans_today[i].as_ref()?;
            let c = cover.get_or_insert_with(Vec::new);
            for (a, b) in sp {
                let (a, b) = ((*a).max(0), (*b).min(1440));
                if a < b {
                    c.push((a as u16, b as u16));
                }
            }
        }
        if m_yest[i] == Tri::Yes {
            let sp = spans_yest[i].as_ref()?;
            let c = cover.get_or_insert_with(Vec::new);
            for (a, b) in sp {
                let (a, b) = ((*a).max(1440) - 1440, (*b).min(2880) - 1440);
                if a < b {
                    c.push((a as u16, b as u16));
                }
            }
        }
        let k = kind_code(r.kind);
        let curr_eval: Option<AccDay> = cover.as_ref().map(|c| AccDay::from_rule(i, k, c));
        covers.push(cover);
        match (r.operator, r.kind) {
            (RuleOperator::Normal, RuleKind::Open | RuleKind::Unknown) => {
                if curr_match {
                    acc = curr_eval;
                } else {
                    // the rule does not apply today: the part of yesterday's spans that passes
                    // midnight "continues on the following day" (statement), over what earlier
                    // rules left — a later rule is never hidden by an earlier one
                    acc = match (acc, curr_eval) {
                        (Some(mut a), Some(c)) => {
                            a.overlay(&c);
                            Some(a)
                        }
                        (a, c) => a.or(c),
                    };
                }
                prev_match = curr_match || prev_match;
            }
            (RuleOperator::Additional, _) | (RuleOperator::Normal, RuleKind::Closed) => {
                acc = match (acc, curr_eval) {
                    (Some(mut a), Some(c)) => {
                        a.overlay(&c);
                        Some(a)
                    }
                    (a, c) => a.or(c),
                };
                prev_match = prev_match || curr_match;
            }
            (RuleOperator::Fallback, _) => {
                // "fallback rules apply only on days nothing else covered": a day on which the
                // accumulated result has an open or unknown minute is covered — also when that minute
                // is only the after-midnight part of yesterday's span (no earlier rule *matches* the
                // day then; the first build had pinned `prev_match &&` here to the implementation)
                let keep = acc.as_ref().map(|a| !a.always_closed()).unwrap_or(false);
                if !keep {
                    prev_match = curr_match;
                    acc = curr_eval;
                }
            }
        }
    }
    let acc = acc.unwrap_or(AccDay { kind: vec![K_CLOSED; 1440], writer: vec![-1; 1440], covered: vec![false; 1440], contributing: vec![] });
    let runs = runs_of(&acc.kind);
    Some(DayModel { kind: acc.kind, writer: acc.writer, runs, cover: covers, contributing: acc.contributing })
}

/// Stateful evaluator for one (expression, context): memoises day models by the pair of match
/// vectors when the spans do not depend on the date, and reuses D's match vector as D+1's
/// "yesterday" vector.
pub struct Evaluator<'a> {
    pub expr: &'a OpeningHoursExpression,
    pub ctx: &'a ModelCtx<'a>,
    date_dependent_spans: bool,
    fixed_spans: Vec<Option<Vec<(i32, i32)>>>,
    memo: HashMap<(Vec<Tri>, Vec<Tri>), Option<Rc<DayModel>>>,
    last: Option<(NaiveDate, Vec<Tri>)>,
}

impl<'a> Evaluator<'a> {
    pub fn new(expr: &'a OpeningHoursExpression, ctx: &'a ModelCtx<'a>) -> Self {
        let date_dependent_spans = has_events(expr) && matches!(ctx.events, Events::Lookup(_));
        let any_date = NaiveDate::from_ymd_opt(2020, 1, 1).unwrap();
        let fixed_spans = expr.rules.iter().map(|r| spans(&r.time_selector, any_date, ctx)).collect();
        Self { expr, ctx, date_dependent_spans, fixed_spans, memo: HashMap::new(), last: None }
    }

    fn match_vec(&self, d: NaiveDate) -> Vec<Tri> {
        self.expr.rules.iter().map(|r| day_matches(&r.day_selector, d, self.ctx)).collect()
    }

    /// Model of day `d`; None = unspecified. Outside 1900..9999: all closed.
    pub fn day(&mut self, d: NaiveDate) -> Option<Rc<DayModel>> {
        let lo = NaiveDate::from_ymd_opt(1900, 1, 1).unwrap();
        let hi = NaiveDate::from_ymd_opt(9999, 12, 31).unwrap();
        if d < lo || d > hi {
            let key = (vec![], vec![]);
            if !self.memo.contains_key(&key) {
                let kind = vec![K_CLOSED; 1440];
                let runs = runs_of(&kind);
                self.memo.insert(key.clone(), Some(Rc::new(DayModel { kind, writer: vec![-1; 1440], runs, cover: vec![None; self.expr.rules.len()], contributing: vec![] })));
            }
            return self.memo[&key].clone();
        }
        let m_today = self.match_vec(d);
        let yest = d.pred_opt()?;
        let m_yest = match &self.last {
            Some((ld, v)) if *ld == yest => v.clone(),
            _ => self.match_vec(yest),
        };
        self.last = Some((d, m_today.clone()));
        // spill from 1899-12-31 into 1900-01-01: "closed before 1900" vs "spans continue on the
        // following day" — not pinned by the statement
        if d == lo {
            for (i, r) in self.expr.rules.iter().enumerate() {
                if m_yest[i] != Tri::No {
                    let sp = spans(&r.time_selector, yest, self.ctx);
                    if sp.map(|s| s.iter().any(|(_, b)| *b > 1440)).unwrap_or(true) {
                        return None;
                    }
                }
            }
        }
        if self.date_dependent_spans {
            let st: Vec<_> = self.expr.rules.iter().map(|r| spans(&r.time_selector, d, self.ctx)).collect();
            let sy: Vec<_> = self.expr.rules.iter().map(|r| spans(&r.time_selector, yest, self.ctx)).collect();
            return combine(self.expr, &m_today, &m_yest, &st, &sy).map(Rc::new);
        }
        let key = (m_today, m_yest);
        if let Some(v) = self.memo.get(&key) {
            return v.clone();
        }
        let v = combine(self.expr, &key.0, &key.1, &self.fixed_spans, &self.fixed_spans).map(Rc::new);
        self.memo.insert(key, v.clone());
        v
    }
}

/// Cross-check of the model's calendar arithmetic against chrono (run once at start-up).
pub fn self_check() -> (u64, Vec<String>) {
    let mut n = 0;
    let mut errs = Vec::new();
    for y in 1900..=9999 {
        n += 1;
        let e = easter_oudin(y);
        // Meeus/Jones/Butcher as an independent second computation
        let a = y % 19;
        let b = y / 100;
        let c = y % 100;
        let d = b / 4;
        let e2 = b % 4;
        let f = (b + 8) / 25;
        let g = (b - f + 1) / 3;
        let h = (19 * a + b - d - g + 15) % 30;
        let i = c / 4;
        let k = c % 4;
        let l = (32 + 2 * e2 + 2 * i - h - k) % 7;
        let m = (a + 11 * h + 22 * l) / 451;
        let mo = (h + l - 7 * m + 114) / 31;
        let da = (h + l - 7 * m + 114) % 31 + 1;
        if e != NaiveDate::from_ymd_opt(y, mo as u32, da as u32) {
            errs.push(format!("easter {y}: {e:?}"));
        }
        if e.map(|d| d.weekday()) != Some(chrono::Weekday::Sun) {
            errs.push(format!("easter {y} is not a Sunday"));
        }
        for m in 1..=12u32 {
            n += 1;
            let dim = days_in_month(y, m);
            if NaiveDate::from_ymd_opt(y, m, dim).is_none() || NaiveDate::from_ymd_opt(y, m, dim + 1).is_some() {
                errs.push(format!("days_in_month {y}-{m}"));
            }
        }
    }
    (n, errs)
}
