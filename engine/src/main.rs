//! ohmc — bounded exhaustive exploration engine for opening-hours-rs properties C01..C20.
//!
//! usage: ohmc <C01..C20> --tier quick|thorough --out <result.json> [--seed N]
//!             [--witnesses <file.json>]      replay the witnesses of known findings first
//!        ohmc <Cxx> --replay <case.json>      replay one recorded case, exit 1 if it still fails
//!
//! Exit code of the engine itself: 0 = ran to completion (violations are in the JSON),
//! 2 = machinery failure. The `check` driver turns the JSON into VIOLATION / KNOWN-FINDING lines.

mod util;
mod report;
mod gen;
mod model;
mod ctx;
mod windows;
mod features;
mod evalx;
mod stream;
mod props;

use report::Outcome;
use serde_json::{json, Value};
use std::time::Instant;

#[derive(Clone, Debug)]
pub struct Cfg {
    pub tier: Tier,
    pub seed: u64,
    pub repo: String,
}

#[derive(Clone, Copy, Debug, PartialEq, Eq)]
pub enum Tier {
    Quick,
    Thorough,
}

impl Cfg {
    pub fn quick(&self) -> bool {
        self.tier == Tier::Quick
    }
}

fn usage() -> ! {
    eprintln!("usage: ohmc <Cxx> --tier quick|thorough --out <file> [--seed N] [--witnesses f] | ohmc <Cxx> --replay <case.json>");
    std::process::exit(2)
}

fn main() {
    util::install_panic_hook();
    let args: Vec<String> = std::env::args().collect();
    if args.len() < 2 {
        usage();
    }
    let prop = args[1].to_uppercase();
    if prop == "_C18" {
        props::c18::child(&args[2..]);
        return;
    }
    if prop == "_TZ" {
        // debug: offsets of a zone, `ohmc _TZ Europe/Lisbon 1992-09-26T20:00 40`
        use chrono::{Offset, TimeZone};
        let tz: chrono_tz::Tz = args[2].parse().unwrap();
        let t0 = util::parse_dt(&args[3]).unwrap();
        let n: i64 = args[4].parse().unwrap();
        for i in 0..n {
            let u = t0 + chrono::Duration::minutes(30 * i);
            let o = tz.offset_from_utc_datetime(&u).fix().local_minus_utc();
            let back = tz.from_local_datetime(&(u + chrono::Duration::seconds(o as i64)));
            println!("{}Z off={} local={} from_local={:?}", util::fmt_dt(u), o, util::fmt_dt(u + chrono::Duration::seconds(o as i64)), back.map(|d| d.naive_utc().to_string()));
        }
        return;
    }
    if prop == "_TZSHAPE" {
        // debug: `ohmc _TZSHAPE C02 quick` prints the violation groups of the time-zone family alone
        let which = match args[2].as_str() {
            "C02" => props::tzshape::Which::C02,
            "C03" => props::tzshape::Which::C03,
            _ => props::tzshape::Which::C08,
        };
        let mut acc = report::Acc::new();
        let t0 = Instant::now();
        let cov = props::tzshape::run(which, args.get(3).map(|s| s != "thorough").unwrap_or(true), &mut acc);
        println!("{cov}");
        for (k, n) in &acc.counters {
            println!("  {k} = {n}");
        }
        for ((kind, feats), g) in &acc.groups {
            println!("GROUP {kind} {feats:?} count={}", g.count);
            for ex in g.examples.iter().take(2) {
                println!("    {}", ex.detail);
            }
        }
        println!("wall {:.1}s", t0.elapsed().as_secs_f64());
        return;
    }
    if prop == "_RT" {
        // debug: parse / print / reparse each argument, `ohmc _RT 'Jan open, easter closed'`
        for a in &args[2..] {
            match util::catch(|| opening_hours_syntax::parse(a)) {
                Ok(Ok(e)) => {
                    let d = e.to_string();
                    let back = util::catch(|| opening_hours_syntax::parse(&d));
                    let same = matches!(&back, Ok(Ok(b)) if *b == e);
                    let n = util::catch(|| e.clone().normalize().to_string());
                    println!("`{a}` -> `{d}` reparse_same={same} normalized={n:?}");
                    if !same {
                        println!("   ast   = {e:?}\n   back  = {back:?}");
                    }
                }
                other => println!("`{a}` -> {other:?}"),
            }
        }
        return;
    }
    if prop == "_FILTER" {
        // keep the stdin lines the real parser accepts (used once to build data/corpus.txt)
        use std::io::BufRead;
        for line in std::io::stdin().lock().lines().map_while(Result::ok) {
            if util::catch(|| opening_hours_syntax::parse(&line)).map(|r| r.is_ok()).unwrap_or(false) {
                println!("{line}");
            }
        }
        return;
    }
    let mut tier = Tier::Quick;
    let mut out: Option<String> = None;
    let mut seed = 0u64;
    let mut witnesses: Option<String> = None;
    let mut replay: Option<String> = None;
    let mut i = 2;
    while i < args.len() {
        match args[i].as_str() {
            "--tier" => {
                i += 1;
                tier = match args.get(i).map(|s| s.as_str()) {
                    Some("quick") => Tier::Quick,
                    Some("thorough") => Tier::Thorough,
                    _ => usage(),
                }
            }
            "--out" => {
                i += 1;
                out = args.get(i).cloned();
            }
            "--seed" => {
                i += 1;
                seed = args.get(i).and_then(|s| s.parse().ok()).unwrap_or(0);
            }
            "--witnesses" => {
                i += 1;
                witnesses = args.get(i).cloned();
            }
            "--replay" => {
                i += 1;
                replay = args.get(i).cloned();
            }
            _ => usage(),
        }
        i += 1;
    }
    let repo = std::env::var("OHRS_REPO").unwrap_or_else(|_| "/repo".to_string());
    let cfg = Cfg { tier, seed, repo };

    if let Some(path) = replay {
        let text = std::fs::read_to_string(&path).unwrap_or_else(|e| {
            eprintln!("cannot read {path}: {e}");
            std::process::exit(2)
        });
        let rec: Value = serde_json::from_str(&text).unwrap_or_else(|e| {
            eprintln!("bad json in {path}: {e}");
            std::process::exit(2)
        });
        let case = rec.get("case").cloned().unwrap_or(rec.clone());
        let vs = props::replay(&prop, &cfg, &case);
        if vs.is_empty() {
            println!("replay: case passes (no violation)");
            std::process::exit(0);
        }
        for v in &vs {
            println!("replay: still fails kind={} detail={}", v.kind, v.detail);
        }
        std::process::exit(1);
    }

    let start = Instant::now();

    // Witness replays for known findings (live/dead classification is the driver's job).
    let mut witness_results = serde_json::Map::new();
    if let Some(path) = witnesses {
        if let Ok(text) = std::fs::read_to_string(&path) {
            if let Ok(Value::Array(ws)) = serde_json::from_str::<Value>(&text) {
                for w in ws {
                    let id = w.get("id").and_then(|x| x.as_str()).unwrap_or("?").to_string();
                    let case = w.get("witness").cloned().unwrap_or(Value::Null);
                    let vs = props::replay(&prop, &cfg, &case);
                    witness_results.insert(
                        id,
                        json!({
                            "fails": !vs.is_empty(),
                            "kinds": vs.iter().map(|v| v.kind.clone()).collect::<Vec<_>>(),
                            "features": vs.iter().flat_map(|v| v.features.clone()).collect::<Vec<_>>(),
                            "detail": vs.first().map(|v| v.detail.clone()),
                        }),
                    );
                }
            }
        }
    }

    let outcome: Outcome = props::run(&prop, &cfg);
    let mut result = outcome.to_json();
    let wall = start.elapsed().as_secs_f64();
    result["property_id"] = json!(prop);
    result["tier"] = json!(match tier {
        Tier::Quick => "quick",
        Tier::Thorough => "thorough",
    });
    result["seed"] = json!(seed);
    result["wall_s"] = json!(wall);
    result["witness_results"] = Value::Object(witness_results);
    let text = serde_json::to_string_pretty(&result).unwrap();
    match out {
        Some(p) => std::fs::write(&p, text).unwrap_or_else(|e| {
            eprintln!("cannot write {p}: {e}");
            std::process::exit(2)
        }),
        None => println!("{text}"),
    }
    eprintln!(
        "ohmc {prop}: violations_total={} wall={:.1}s",
        result["violations_total"], wall
    );
}
