//! Structural predicates on *inputs* (never on outcomes). Known findings are matched on
//! (failure kind, class ⊆ features): see DESIGN §2.7.

use crate::gen::ast::*;

fn day_may_not_exist(m: Month, d: u8) -> bool {
    match m as u8 {
        2 => d >= 29,
        4 | 6 | 9 | 11 => d >= 31,
        _ => false,
    }
}

pub fn of_rule(r: &RuleSequence, f: &mut Vec<String>) {
    let mut add = |s: &str| f.push(s.to_string());
    let ds = &r.day_selector;
    for y in &ds.year {
        add("year_sel");
        if y.step != 1 {
            add("year_step");
        }
        if y.range.start() > y.range.end() {
            add("year_wrap");
        }
    }
    for m in &ds.monthday {
        match m {
            MonthdayRange::Month { range, year } => {
                add("md_month");
                if year.is_some() {
                    add("md_month_year");
                    if range.start() > range.end() {
                        add("md_month_year_wrap");
                    }
                }
                if range.start() > range.end() {
                    add("md_month_wrap");
                }
            }
            MonthdayRange::Date { start, end } => {
                add("md_date");
                let single = start == end;
                if single {
                    add("md_date_single");
                } else {
                    add("md_date_range");
                }
                match (start.0.has_year(), end.0.has_year()) {
                    (true, false) if !single => add("md_date_year_on_start_only"),
                    (true, true) if !single => add("md_date_year_on_both"),
                    (false, true) => add("md_date_year_on_end_only"),
                    (true, true) if single => add("md_date_single_with_year"),
                    _ => {}
                }
                if start.0.has_year() || end.0.has_year() {
                    add("md_date_with_year");
                }
                for (side, (d, o)) in [("start", start), ("end", end)] {
                    match d {
                        Date::Fixed { month, day, .. } => {
                            if day_may_not_exist(*month, *day) {
                                add("md_date_day_may_not_exist");
                                add(&format!("md_date_{side}_day_may_not_exist"));
                            }
                        }
                        Date::Easter { .. } => add("md_easter"),
                    }
                    if o.wday_offset != WeekDayOffset::None {
                        add("md_offset_wday");
                    }
                    if o.day_offset != 0 {
                        add("md_offset_days");
                    }
                }
                if let (Date::Fixed { month: m1, day: d1, .. }, Date::Fixed { month: m2, day: d2, .. }) = (start.0, end.0) {
                    if (m2 as u8, d2) < (m1 as u8, d1) {
                        add("md_date_wrap");
                    }
                }
            }
        }
    }
    for w in &ds.week {
        add("week_sel");
        if w.step != 1 {
            add("week_step");
        }
        if w.range.start() > w.range.end() {
            add("week_wrap");
        }
    }
    for w in &ds.weekday {
        match w {
            WeekDayRange::Fixed { range, offset, nth_from_start, nth_from_end } => {
                add("wd_fixed");
                if *offset != 0 {
                    add("wd_offset");
                }
                if nth_from_start.contains(&false) || nth_from_end.contains(&false) {
                    add("wd_nth");
                }
                if range.start().num_days_from_monday() > range.end().num_days_from_monday() {
                    add("wd_wrap");
                }
            }
            WeekDayRange::Holiday { offset, .. } => {
                add("holiday");
                if *offset != 0 {
                    add("holiday_offset");
                }
            }
        }
    }
    if !ds.is_empty() {
        add("day_selector");
    }
    let mut fixed_spans: Vec<(u16, u16)> = Vec::new();
    for s in &r.time_selector.time {
        if s.open_end {
            add("time_open_end");
        }
        if s.repeats.is_some() {
            add("time_repeats");
        }
        match (&s.range.start, &s.range.end) {
            (Time::Fixed(a), Time::Fixed(b)) => {
                let (a, mut b) = (a.mins_from_midnight(), b.mins_from_midnight());
                if b <= a {
                    add("time_wrap");
                    b += 1440;
                }
                if b > 1440 {
                    add("time_spill");
                }
                if b - a >= 1440 {
                    add("time_24h_or_longer");
                }
                fixed_spans.push((a, b));
            }
            _ => {
                add("time_event");
                for t in [&s.range.start, &s.range.end] {
                    if let Time::Variable(v) = t {
                        if v.offset != 0 {
                            add("time_event_offset");
                        }
                    }
                }
                if let (Time::Variable(a), Time::Variable(b)) = (&s.range.start, &s.range.end) {
                    let rank = |e: TimeEvent| match e {
                        TimeEvent::Dawn => 0,
                        TimeEvent::Sunrise => 1,
                        TimeEvent::Sunset => 2,
                        TimeEvent::Dusk => 3,
                    };
                    if rank(b.event) <= rank(a.event) {
                        add("time_spill");
                        add("time_wrap");
                    }
                }
            }
        }
    }
    if r.time_selector != TimeSelector::default() {
        add("time_sel");
    }
    for i in 0..fixed_spans.len() {
        for j in 0..i {
            let (a, b) = (fixed_spans[i], fixed_spans[j]);
            if a.0 <= b.1 && b.0 <= a.1 {
                add("time_spans_touch_or_overlap");
            }
        }
    }
    match r.kind {
        RuleKind::Closed => add("kind_closed"),
        RuleKind::Unknown => add("kind_unknown"),
        RuleKind::Open => add("kind_open"),
    }
    if !r.comments.is_empty() {
        add("comment");
    }
    match r.operator {
        RuleOperator::Additional => add("op_additional"),
        RuleOperator::Fallback => add("op_fallback"),
        RuleOperator::Normal => {}
    }
}

pub fn of_expr(e: &OpeningHoursExpression) -> Vec<String> {
    let mut f = Vec::new();
    for r in &e.rules {
        of_rule(r, &mut f);
    }
    // a comment-less closed rule (which `normalize` folds away) followed by a rule whose span
    // passes midnight
    for (i, r) in e.rules.iter().enumerate() {
        if r.kind == RuleKind::Closed && r.comments.is_empty() && r.operator != RuleOperator::Fallback {
            let mut later = Vec::new();
            for r2 in &e.rules[i + 1..] {
                of_rule(r2, &mut later);
            }
            if later.iter().any(|x| x == "time_spill") {
                f.push("closed_nocomment_rule_before_spill_rule".to_string());
            }
        }
    }
    f.push(format!("rules_{}", e.rules.len().min(4)));
    f.sort();
    f.dedup();
    f
}

pub fn of_str(s: &str) -> Vec<String> {
    match opening_hours_syntax::parse(s) {
        Ok(e) => of_expr(&e),
        Err(_) => vec!["unparseable".to_string()],
    }
}
