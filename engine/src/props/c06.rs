//! C06 — Printed expressions parse back to an equivalent expression.
//!
//! For every parsed expression of the family and its normal form: `s = e.to_string()` must parse;
//! if the reparsed AST equals the original (modulo several comments of one rule coming back
//! joined) the case passes without evaluation; otherwise both are evaluated with the real
//! `schedule_at` over the window in every context and must give identical ranges, kinds and
//! comment sets. The Python `str`/`repr` forms are covered by the C12 driver's repr section
//! (drivers/c06.py adds it to this check).

use crate::ctx::{self, Ctx};
use crate::evalx::first_difference;
use crate::features;
use crate::gen::alphabet as al;
use crate::gen::ast::*;
use crate::gen::print::canon;
use crate::props::normfam;
use crate::report::{Acc, Outcome, Violation};
use crate::util::catch;
use crate::windows;
use crate::Cfg;
use chrono::NaiveDate;
use opening_hours::OpeningHours;
use rayon::prelude::*;
use serde_json::{json, Value};
use std::sync::Arc;

/// Equality modulo the documented difference: several comments of one rule come back joined.
pub fn equal_modulo_comment_join(a: &OpeningHoursExpression, b: &OpeningHoursExpression) -> bool {
    if a.rules.len() != b.rules.len() {
        return false;
    }
    a.rules.iter().zip(&b.rules).all(|(x, y)| {
        x.day_selector == y.day_selector
            && x.time_selector == y.time_selector
            && x.kind == y.kind
            && x.operator == y.operator
            && (x.comments == y.comments || (x.comments.len() > 1 && y.comments.len() == 1 && *y.comments[0] == x.comments.join(", ")))
    })
}

pub fn check_roundtrip(e: &OpeningHoursExpression, oa_plain: &OpeningHours, origin: &str, ctxs: &[Ctx], blocks: &[(NaiveDate, NaiveDate)], acc: &mut Acc) -> (bool, bool) {
    let feats = features::of_expr(e);
    let s = match catch(|| e.to_string()) {
        Ok(s) => s,
        Err(p) => {
            acc.violate(Violation::new("to_string_panic", feats, json!({"origin": origin}), format!("to_string of `{origin}` panicked: {} at {}", p.msg, p.loc)));
            return (false, false);
        }
    };
    if oa_plain.to_string() != s {
        acc.violate(Violation::new("evaluator_and_expression_print_differently", feats, json!({"origin": origin}), format!("OpeningHours::to_string = `{}`, expression to_string = `{s}`", oa_plain)));
        return (false, false);
    }
    let e2 = match catch(|| opening_hours_syntax::parse(&s)) {
        Ok(Ok(e2)) => e2,
        Ok(Err(_)) => {
            acc.violate(Violation::new("printed_form_does_not_parse", feats, json!({"origin": origin, "printed": s}), format!("`{origin}` prints as `{s}`, which the parser rejects")));
            return (false, false);
        }
        Err(p) => {
            acc.violate(Violation::new("parse_panic", feats, json!({"origin": origin, "printed": s}), format!("parse(`{s}`) panicked: {} at {}", p.msg, p.loc)));
            return (false, false);
        }
    };
    if equal_modulo_comment_join(e, &e2) {
        acc.add("ast_equal", 1);
        return (true, false);
    }
    // evaluate both with the real evaluator
    acc.add("ast_differs_evaluated", 1);
    let Ok(ob_plain) = OpeningHours::parse(&s) else { return (false, false) };
    let mut varied = false;
    for c in ctxs {
        let oa = oa_plain.clone().with_context(c.real.clone());
        let ob = ob_plain.clone().with_context(c.real.clone());
        match catch(|| first_difference(&oa, &ob, blocks, true)) {
            Err(_) => {
                acc.add("evaluation_panics_left_to_C04", 1);
                return (false, false);
            }
            Ok((n, None, v)) => {
                acc.add("days_compared", n);
                varied |= v;
            }
            Ok((_, Some((d, x, y)), _)) => {
                acc.violate(Violation::new(
                    "reparsed_expression_evaluates_differently",
                    feats,
                    json!({"origin": origin, "printed": s, "ctx": c.name, "date": d.to_string()}),
                    format!("`{origin}` prints as `{s}`; on {d} [{}] the original gives {x}, the reparsed one {y}", c.name),
                ));
                return (false, false);
            }
        }
    }
    (true, varied)
}

pub enum Src {
    Ast(OpeningHoursExpression),
    Text(String),
}

pub fn family(cfg: &Cfg) -> Vec<Src> {
    let mut out: Vec<Src> = Vec::new();
    for e in al::e1(if cfg.quick() { 1 } else { 2 }) {
        out.push(Src::Ast(e));
    }
    {
        // E_syn: every combination of 2 (quick) / 2..4 (thorough) day-selector kinds, where the
        // printing of one kind depends on its neighbour (`2030-2030/3` + `Nov-Feb`), with two bodies
        let ts = al::times();
        let ms = al::modifiers();
        for ds in al::day_selectors(if cfg.quick() { 2 } else { 4 }) {
            let kinds = [!ds.year.is_empty(), !ds.monthday.is_empty(), !ds.week.is_empty(), !ds.weekday.is_empty()].iter().filter(|x| **x).count();
            if kinds >= 2 {
                out.push(Src::Ast(expr(vec![al::mk_rule(&ds, &ts[0], &ms[0])])));
                out.push(Src::Ast(expr(vec![al::mk_rule(&ds, &ts[1], &ms[4])])));
            }
        }
    }
    let r2 = al::r2();
    let n2 = al::e2_count();
    let stride = if cfg.quick() { 53 } else { 1 };
    let mut i = 0;
    while i < n2 {
        out.push(Src::Ast(al::e2_at(&r2, i)));
        i += stride;
    }
    for (i, e) in normfam::family(cfg.quick()).into_iter().enumerate() {
        if !cfg.quick() || i % 5 == 0 {
            out.push(Src::Ast(e));
        }
    }
    // comments with characters that matter for printing
    for c in ["a", "a, b", "é", "e\u{301}", "\\", "'", "x\u{7f}y", " lead", "trail ", "semi;colon", "pipe || pipe"] {
        let mut r = al::mk_rule(&DaySelector { weekday: vec![wd(chrono::Weekday::Mon, chrono::Weekday::Fri)], ..Default::default() }, &al::times()[1], &al::modifiers()[0]);
        r.comments = vec![Arc::<str>::from(c)].into();
        out.push(Src::Ast(expr(vec![r.clone()])));
        r.kind = RuleKind::Closed;
        out.push(Src::Ast(expr(vec![r.clone(), al::mk_rule(&DaySelector::default(), &al::times()[2], &al::modifiers()[3])])));
    }
    // time span with a repetition step, event offsets
    for s in ["10:00-12:00/30", "10:00-16:00/01:30", "(sunrise+00:30)-sunset", "(dawn-02:30)-(dusk+02:30)", "PH +1 day", "PH -2 days", "2030-2030/3", "week 05-05/2", "Mo[1-5] +1 day", "Mo[1-5,-1,-2,-3,-4,-5] +1 day", "Mo[-1] -3 days", "Jan open, easter closed", "2020 easter+", "2030-2030/3Nov-Feb", "Jun 07+Tu", "easter -2 days-easter +1 day", "10:00+", "dusk-dusk+", "Jun24:00+", "\"x\":Mo 10:00-12:00 \"y\""] {
        out.push(Src::Text(s.to_string()));
    }
    for s in al::corpus(&cfg.repo) {
        out.push(Src::Text(s));
    }
    out
}

fn process(src: &Src, ctxs: &[Ctx], blocks: &[(NaiveDate, NaiveDate)], acc: &mut Acc) {
    // obtain the *parsed* expression (C06 quantifies over parsed expressions)
    let (origin, e) = match src {
        Src::Ast(a) => match canon(a) {
            Some(t) => match opening_hours_syntax::parse(&t) {
                Ok(e) => (t, e),
                Err(_) => {
                    acc.add("rejected_by_parser", 1);
                    return;
                }
            },
            None => {
                acc.add("asts_not_expressible", 1);
                return;
            }
        },
        Src::Text(t) => match catch(|| opening_hours_syntax::parse(t)) {
            Ok(Ok(e)) => (t.clone(), e),
            _ => {
                acc.add("rejected_by_parser", 1);
                return;
            }
        },
    };
    let Ok(oa) = OpeningHours::parse(&origin) else { return };
    acc.add("states", 1);
    acc.add("evaluations", 1);
    acc.add("transitions", 1);
    let (ok, varied) = check_roundtrip(&e, &oa, &origin, ctxs, blocks, acc);
    if ok {
        acc.add("traces_validated_against_impl", 1);
    }
    let mut nontrivial = varied || !e.rules.iter().all(|r| r.day_selector.is_empty());
    // … and its normal form
    match catch(|| e.clone().normalize()) {
        Err(p) => {
            acc.violate(Violation::new("normalize_panic", features::of_expr(&e), json!({"origin": origin}), format!("normalize(`{origin}`) panicked: {} at {}", p.msg, p.loc)));
        }
        Ok(n) => {
            if n != e {
                acc.add("states", 1);
                acc.add("evaluations", 1);
                acc.add("transitions", 1);
                let o2 = format!("normalize({origin})");
                let on = oa.normalize();
                let (ok, v) = check_roundtrip(&n, &on, &o2, ctxs, blocks, acc);
                if ok {
                    acc.add("traces_validated_against_impl", 1);
                }
                nontrivial |= v;
            }
        }
    }
    if nontrivial {
        acc.add("distinct_nontrivial", 1);
    }
}

pub fn run(cfg: &Cfg) -> Outcome {
    let fam = family(cfg);
    let ctxs: Vec<Ctx> = if cfg.quick() { vec![ctx::empty(), ctx::synthetic()] } else { ctx::all(&cfg.repo) };
    let blocks = if cfg.quick() { windows::w_small_blocks() } else { windows::w_core_blocks() };
    let accs: Vec<Acc> = fam
        .par_chunks(64)
        .map(|chunk| {
            let mut acc = Acc::new();
            for s in chunk {
                process(s, &ctxs, &blocks, &mut acc);
            }
            acc
        })
        .collect();
    let mut acc = Acc::new();
    for a in accs {
        acc.merge(a);
    }
    // the Python str/repr clause: records written by py/c12_driver.py (section C) when the check
    // driver provides them
    if let Ok(path) = std::env::var("OHMC_C12_OBS") {
        if let Ok(text) = std::fs::read_to_string(&path) {
            for line in text.lines() {
                if let Ok(rec) = serde_json::from_str::<Value>(line) {
                    if rec.get("part").and_then(|v| v.as_str()) == Some("C") {
                        acc.add("python_str_repr_records", 1);
                        crate::props::c12::check_record(&rec, &mut acc);
                    }
                }
            }
        }
    }
    for i in [0usize, fam.len() / 3, fam.len() / 2, fam.len() - 1] {
        let t = match &fam[i] {
            Src::Ast(a) => canon(a).unwrap_or_default(),
            Src::Text(t) => t.clone(),
        };
        let printed = opening_hours_syntax::parse(&t).map(|e| e.to_string()).unwrap_or_default();
        acc.sample(json!({"expr": t, "library_prints": printed}));
    }
    let mut o = Outcome::new("model_checking", acc);
    o.exhaustive = true;
    o.cov("family_size", json!(fam.len()));
    o.cov("rule", json!("bounded exhaustive with a differential oracle: every parsed expression of the family (E1 ≤1/≤2 kinds; E2; the normalisation family N; comment alphabet; corpus S) and its normal form is printed by the library, reparsed, and — unless the ASTs are equal modulo joined comments — both are evaluated by the real schedule_at on every day of the window in every context (ranges, kinds, flattened comment sets must be identical). states = expressions (incl. normal forms), validated = round trips that held; non-trivial = expression has a day selector or a varying schedule"));
    o.assume("AST equality implies equal evaluation (sound); evaluation comparison is bounded by the window");
    o
}

pub fn replay(cfg: &Cfg, case: &Value) -> Vec<Violation> {
    let mut acc = Acc::new();
    let Some(origin) = case.get("origin").and_then(|v| v.as_str()) else { return vec![] };
    let inner = origin.strip_prefix("normalize(").and_then(|s| s.strip_suffix(')')).unwrap_or(origin);
    let ctxs = ctx::all(&cfg.repo);
    let blocks = windows::w_core_blocks();
    process(&Src::Text(inner.to_string()), &ctxs, &blocks, &mut acc);
    acc.groups.into_values().flat_map(|g| g.examples).collect()
}
