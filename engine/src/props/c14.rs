//! C14 — Schedule algebra: overlay semantics and gap-free day iteration.
//!
//! Explicit-state exploration of the real `Schedule`: base schedules are `from_ranges` of every
//! ordered sequence of ≤ 3 ranges over a time grid (empty, inverted, nested, overlapping,
//! adjacent, duplicate ranges included) × 3 kinds × comment sets; transitions are the real
//! `addition` in both orders; breadth-first from the empty schedule *and* from every base
//! schedule up to the depth bound, states deduplicated by the `Debug` rendering of the value
//! (the whole state of a `Schedule`). Oracle: a per-grid-cell model (`Vec<Option<kind>>`):
//! from_ranges = union of the valid input ranges, addition = "other wins where other covers".

use crate::report::{Acc, Outcome, Violation};
use crate::util::catch;
use crate::Cfg;
use opening_hours::schedule::Schedule;
use opening_hours::RuleKind;
use opening_hours_syntax::sorted_vec::UniqueSortedVec;
use opening_hours_syntax::ExtendedTime;
use serde_json::{json, Value};
use std::collections::{BTreeSet, HashMap};
use std::ops::Range;
use std::sync::Arc;

type Cells = Vec<Option<RuleKind>>;
type Comments = UniqueSortedVec<Arc<str>>;

fn grid(cfg: &Cfg) -> Vec<u16> {
    if cfg.quick() {
        vec![0, 6 * 60, 9 * 60 + 30, 14 * 60, 24 * 60]
    } else {
        vec![0, 1, 6 * 60, 9 * 60 + 30, 14 * 60, 23 * 60 + 59, 24 * 60]
    }
}

fn et(m: u16) -> ExtendedTime {
    ExtendedTime::from_mins_from_midnight(m).unwrap()
}

fn kind_name(k: RuleKind) -> &'static str {
    match k {
        RuleKind::Open => "open",
        RuleKind::Closed => "closed",
        RuleKind::Unknown => "unknown",
    }
}

fn kind_of(s: &str) -> RuleKind {
    match s {
        "open" => RuleKind::Open,
        "unknown" => RuleKind::Unknown,
        _ => RuleKind::Closed,
    }
}

/// A base schedule in replayable form.
#[derive(Clone, Debug)]
struct Base {
    ranges: Vec<(u16, u16)>,
    kind: RuleKind,
    comments: Vec<String>,
}

impl Base {
    fn json(&self) -> Value {
        json!({"ranges": self.ranges, "kind": kind_name(self.kind), "comments": self.comments})
    }
    fn from_json(v: &Value) -> Option<Base> {
        Some(Base {
            ranges: v.get("ranges")?.as_array()?.iter().filter_map(|p| {
                let p = p.as_array()?;
                Some((p.first()?.as_u64()? as u16, p.get(1)?.as_u64()? as u16))
            }).collect(),
            kind: kind_of(v.get("kind")?.as_str()?),
            comments: v.get("comments")?.as_array()?.iter().filter_map(|c| c.as_str().map(|s| s.to_string())).collect(),
        })
    }
    fn comments(&self) -> Comments {
        self.comments.iter().map(|s| Arc::<str>::from(s.as_str())).collect::<Vec<_>>().into()
    }
    fn build(&self) -> Schedule {
        let rs: Vec<Range<ExtendedTime>> = self.ranges.iter().map(|(a, b)| et(*a)..et(*b)).collect();
        Schedule::from_ranges(rs, self.kind, &self.comments())
    }
    fn model(&self, g: &[u16]) -> Cells {
        let mut cells = vec![None; g.len() - 1];
        for (a, b) in &self.ranges {
            if a < b {
                for (i, w) in g.windows(2).enumerate() {
                    if *a <= w[0] && w[1] <= *b {
                        cells[i] = Some(self.kind);
                    }
                }
            }
        }
        cells
    }
}

fn model_add(a: &Cells, b: &Cells) -> Cells {
    a.iter().zip(b).map(|(x, y)| y.or(*x)).collect()
}

/// History = initial base (or none) followed by steps (base, other_on_left).
#[derive(Clone, Debug)]
struct Step {
    base: usize,
    /// false: state.addition(base) ; true: base.addition(state)
    flipped: bool,
}

fn hist_json(bases: &[Base], init: Option<usize>, steps: &[Step]) -> Value {
    json!({
        "init": init.map(|i| bases[i].json()),
        "steps": steps.iter().map(|s| json!({"base": bases[s.base].json(), "flipped": s.flipped})).collect::<Vec<_>>(),
    })
}

/// Parse the inner ranges out of the Debug rendering (the inner vector is not public).
/// Returns None when the format is not recognised (then the structural invariant is skipped).
fn inner_from_debug(dbg: &str) -> Option<Vec<(u16, u16)>> {
    let mut out = Vec::new();
    let mut rest = dbg;
    while let Some(pos) = rest.find("range: ") {
        rest = &rest[pos + 7..];
        let end = rest.find(',')?;
        let (a, b) = rest[..end].split_once("..")?;
        let p = |s: &str| -> Option<u16> {
            let (h, m) = s.trim().split_once(':')?;
            Some(h.parse::<u16>().ok()? * 60 + m.parse::<u16>().ok()?)
        };
        out.push((p(a)?, p(b)?));
    }
    Some(out)
}

/// Check every invariant of one state against the model. Returns the number of agreeing observations.
fn check_state(s: &Schedule, model: &Cells, allowed_comments: &BTreeSet<String>, g: &[u16], case: &Value, acc: &mut Acc) -> u64 {
    let mut ok = 0;
    let dbg = format!("{s:?}");
    // structural invariant on the inner vector (through Debug)
    if let Some(inner) = inner_from_debug(&dbg) {
        let good = inner.iter().all(|(a, b)| a < b) && inner.windows(2).all(|w| w[0].1 <= w[1].0);
        if !good {
            acc.violate(Violation::new("inner_not_disjoint_increasing_nonempty", vec![], case.clone(), format!("inner ranges {inner:?}")));
        } else {
            ok += 1;
        }
        // the covered set equals the model's covered set
        let covered_model: Vec<bool> = model.iter().map(|c| c.is_some()).collect();
        let covered_real: Vec<bool> = g.windows(2).map(|w| inner.iter().any(|(a, b)| *a <= w[0] && w[1] <= *b)).collect();
        let partial = g.windows(2).any(|w| inner.iter().any(|(a, b)| (*a > w[0] && *a < w[1]) || (*b > w[0] && *b < w[1])));
        if covered_model != covered_real || partial {
            acc.violate(Violation::new("covered_set_differs", vec![], case.clone(), format!("inner ranges {inner:?} vs model cells {model:?}")));
        } else {
            ok += 1;
        }
    }
    if s.is_empty() != model.iter().all(|c| c.is_none()) {
        acc.violate(Violation::new("is_empty", vec![], case.clone(), format!("is_empty() = {} but model cells {model:?}", s.is_empty())));
    } else {
        ok += 1;
    }
    // iteration: gap-free tiling of 00:00-24:00, closed holes, adjacent kinds differ, kinds = model
    match catch(|| s.clone().into_iter().collect::<Vec<_>>()) {
        Err(p) => acc.violate(Violation::new("into_iter_panic", vec![], case.clone(), format!("panic {} at {}", p.msg, p.loc))),
        Ok(items) => {
            let mut good = !items.is_empty()
                && items.first().map(|r| r.range.start) == Some(ExtendedTime::MIDNIGHT_00)
                && items.last().map(|r| r.range.end) == Some(ExtendedTime::MIDNIGHT_24);
            good &= items.iter().all(|r| r.range.start < r.range.end);
            good &= items.windows(2).all(|w| w[0].range.end == w[1].range.start && w[0].kind != w[1].kind);
            if !good {
                acc.violate(Violation::new("iteration_not_a_tiling", vec![], case.clone(), format!("into_iter() = {:?}", items.iter().map(|r| (r.range.clone(), r.kind)).collect::<Vec<_>>())));
            } else {
                ok += 1;
                // kinds per cell
                let mut cells_ok = true;
                for (i, w) in g.windows(2).enumerate() {
                    let exp = model[i].unwrap_or(RuleKind::Closed);
                    let got = items.iter().find(|r| r.range.start <= et(w[0]) && et(w[1]) <= r.range.end).map(|r| r.kind);
                    if got != Some(exp) {
                        cells_ok = false;
                        acc.violate(Violation::new("kind_differs_from_overlay_model", vec![], case.clone(), format!("cell {}..{}: iteration says {:?}, model says {:?}; into_iter = {:?}", et(w[0]), et(w[1]), got, exp, items.iter().map(|r| (r.range.clone(), r.kind)).collect::<Vec<_>>())));
                        break;
                    }
                }
                if cells_ok {
                    ok += 1;
                }
            }
            // comments well-formed (sorted, unique, taken from the schedules added so far)
            for r in &items {
                let cs: Vec<&str> = r.comments.iter().map(|c| &**c).collect();
                if !cs.windows(2).all(|w| w[0] < w[1]) || !cs.iter().all(|c| allowed_comments.contains(*c)) {
                    acc.violate(Violation::new("comments_malformed", vec![], case.clone(), format!("comments {cs:?} not sorted/unique/from inputs {allowed_comments:?}")));
                }
            }
        }
    }
    ok
}

fn sequences(g: &[u16], max_len: usize) -> Vec<Vec<(u16, u16)>> {
    let pairs: Vec<(u16, u16)> = g.iter().flat_map(|a| g.iter().map(move |b| (*a, *b))).collect();
    let mut out = vec![vec![]];
    let mut frontier: Vec<Vec<(u16, u16)>> = vec![vec![]];
    for _ in 0..max_len {
        let mut next = Vec::new();
        for s in &frontier {
            for p in &pairs {
                let mut t = s.clone();
                t.push(*p);
                next.push(t);
            }
        }
        out.extend(next.iter().cloned());
        frontier = next;
    }
    out
}

struct Explored {
    states: u64,
    transitions: u64,
    validated: u64,
    max_depth: usize,
    distinct_iterations: u64,
    cap_hit: bool,
}

fn explore(cfg: &Cfg, g: &[u16], bases: &[Base], depth: usize, state_cap: usize, acc: &mut Acc) -> Explored {
    // distinct base values
    struct St {
        sched: Schedule,
        model: Cells,
        comments: BTreeSet<String>,
        init: Option<usize>,
        steps: Vec<Step>,
    }
    let built: Vec<(Schedule, Cells)> = bases.iter().map(|b| (b.build(), b.model(g))).collect();
    let mut seen: HashMap<String, ()> = HashMap::new();
    let mut frontier: Vec<St> = Vec::new();
    let mut ex = Explored { states: 0, transitions: 0, validated: 0, max_depth: 0, distinct_iterations: 0, cap_hit: false };
    let mut iter_shapes: BTreeSet<String> = BTreeSet::new();
    // initial states: empty + every base
    let mut inits: Vec<St> = vec![St { sched: Schedule::new(), model: vec![None; g.len() - 1], comments: BTreeSet::new(), init: None, steps: vec![] }];
    for (i, b) in bases.iter().enumerate() {
        inits.push(St { sched: built[i].0.clone(), model: built[i].1.clone(), comments: b.comments.iter().cloned().collect(), init: Some(i), steps: vec![] });
    }
    for st in inits {
        let key = format!("{:?}|{:?}", st.sched, st.model);
        if seen.insert(key, ()).is_none() {
            let case = hist_json(bases, st.init, &st.steps);
            ex.validated += check_state(&st.sched, &st.model, &st.comments, g, &case, acc);
            ex.states += 1;
            frontier.push(st);
        }
    }
    let _ = cfg;
    for d in 1..=depth {
        let mut next: Vec<St> = Vec::new();
        for st in &frontier {
            for (bi, b) in bases.iter().enumerate() {
                for flipped in [false, true] {
                    ex.transitions += 1;
                    let (l, r) = if flipped { (built[bi].0.clone(), st.sched.clone()) } else { (st.sched.clone(), built[bi].0.clone()) };
                    let model = if flipped { model_add(&built[bi].1, &st.model) } else { model_add(&st.model, &built[bi].1) };
                    let mut steps = st.steps.clone();
                    steps.push(Step { base: bi, flipped });
                    match catch(|| l.addition(r)) {
                        Err(p) => {
                            acc.violate(Violation::new("addition_panic", vec![], hist_json(bases, st.init, &steps), format!("panic {} at {}", p.msg, p.loc)));
                        }
                        Ok(sched) => {
                            let key = format!("{:?}|{:?}", sched, model);
                            if seen.contains_key(&key) {
                                // already checked this exact (value, model) pair
                                ex.validated += 1;
                                continue;
                            }
                            let mut comments = st.comments.clone();
                            comments.extend(b.comments.iter().cloned());
                            let case = hist_json(bases, st.init, &steps);
                            let before = acc.total_violations();
                            ex.validated += check_state(&sched, &model, &comments, g, &case, acc);
                            if acc.total_violations() == before {
                                iter_shapes.insert(format!("{:?}", model));
                            }
                            seen.insert(key, ());
                            ex.states += 1;
                            ex.max_depth = d;
                            if seen.len() < state_cap {
                                next.push(St { sched, model, comments, init: st.init, steps });
                            } else {
                                ex.cap_hit = true;
                            }
                        }
                    }
                }
            }
        }
        frontier = next;
        if frontier.is_empty() {
            break;
        }
    }
    ex.distinct_iterations = iter_shapes.len() as u64;
    ex
}

fn check_from_ranges(g: &[u16], acc: &mut Acc) -> (Vec<Base>, u64) {
    // every ordered sequence of ≤ 3 ranges × kinds × comments against the union model
    let seqs = sequences(g, 3);
    let kinds = [RuleKind::Open, RuleKind::Unknown, RuleKind::Closed];
    let comment_sets: Vec<Vec<String>> = vec![vec![], vec!["a".into()], vec!["b".into()]];
    let mut distinct: HashMap<String, Base> = HashMap::new();
    let mut order: Vec<String> = Vec::new();
    let mut n = 0u64;
    for rs in &seqs {
        for k in kinds {
            for cs in &comment_sets {
                n += 1;
                let b = Base { ranges: rs.clone(), kind: k, comments: cs.clone() };
                let case = json!({"init": b.json(), "steps": []});
                match catch(|| b.build()) {
                    Err(p) => acc.violate(Violation::new("from_ranges_panic", vec![], case, format!("panic {} at {}", p.msg, p.loc))),
                    Ok(s) => {
                        let model = b.model(g);
                        let allowed: BTreeSet<String> = cs.iter().cloned().collect();
                        let before = acc.total_violations();
                        let okn = check_state(&s, &model, &allowed, g, &case, acc);
                        acc.add("traces_validated_against_impl", okn);
                        if acc.total_violations() == before {
                            let key = format!("{s:?}");
                            if !distinct.contains_key(&key) {
                                order.push(key.clone());
                                distinct.insert(key, b);
                            }
                        }
                    }
                }
            }
        }
    }
    acc.add("from_ranges_calls", n);
    acc.add("evaluations", n);
    (order.into_iter().map(|k| distinct.remove(&k).unwrap()).collect(), n)
}

fn check_macro(g: &[u16], acc: &mut Acc) {
    // the schedule! macro builds the same states as explicit calls, on every chain t0<t1<t2 over the grid
    let kinds = [RuleKind::Open, RuleKind::Unknown, RuleKind::Closed];
    for i in 0..g.len() {
        for j in i + 1..g.len() {
            for k in j + 1..g.len() {
                for k1 in kinds {
                    for k2 in kinds {
                        let (a, b, c) = (g[i], g[j], g[k]);
                        let via_macro = catch(|| {
                            opening_hours::schedule! {
                                (a / 60) as u8,(a % 60) as u8 => k1, "x" => (b / 60) as u8,(b % 60) as u8 => k2 => (c / 60) as u8,(c % 60) as u8;
                            }
                        });
                        let cx: Comments = vec![Arc::<str>::from("x")].into();
                        let explicit = Schedule::from_ranges([et(a)..et(b)], k1, &cx).addition(Schedule::from_ranges([et(b)..et(c)], k2, &Default::default()));
                        acc.add("evaluations", 1);
                        match via_macro {
                            Ok(m) if m == explicit => acc.add("traces_validated_against_impl", 1),
                            Ok(m) => acc.violate(Violation::new("macro_differs", vec![], json!({"macro": [a, b, c], "kinds": [kind_name(k1), kind_name(k2)]}), format!("schedule! gives {m:?}, explicit calls give {explicit:?}"))),
                            Err(p) => acc.violate(Violation::new("macro_panic", vec![], json!({"macro": [a, b, c]}), format!("panic {} at {}", p.msg, p.loc))),
                        }
                    }
                }
            }
        }
    }
}

pub fn run(cfg: &Cfg) -> Outcome {
    let g = grid(cfg);
    let mut acc = Acc::new();
    let (bases, _) = check_from_ranges(&g, &mut acc);
    acc.add("distinct_base_schedules", bases.len() as u64);
    // quick: 5-point grid, depth 2. thorough: 7-point grid at depth 2 (≈ 10⁸ transitions) and the
    // 5-point grid at depth 3 (depth 3 on 7 points would be ≈ 7·10⁹ transitions)
    let depth = 2;
    let cap = if cfg.quick() { 400_000 } else { 6_000_000 };
    let mut ex1 = explore(cfg, &g, &bases, depth, cap, &mut acc);
    let mut caps = Vec::new();
    if ex1.cap_hit {
        caps.push(format!("state cap {cap} reached at depth {}: deeper frontier truncated", ex1.max_depth));
    }
    if !cfg.quick() {
        let quick_cfg = Cfg { tier: crate::Tier::Quick, ..cfg.clone() };
        let g5 = grid(&quick_cfg);
        let mut scratch = Acc::new();
        let (bases5, _) = check_from_ranges(&g5, &mut scratch);
        let ex3 = explore(cfg, &g5, &bases5, 3, cap, &mut acc);
        if ex3.cap_hit {
            caps.push(format!("5-point grid, depth 3: state cap {cap} reached"));
        }
        acc.add("states_5pt_grid_depth3", ex3.states);
        acc.add("transitions_5pt_grid_depth3", ex3.transitions);
        ex1.states += ex3.states;
        ex1.transitions += ex3.transitions;
        ex1.validated += ex3.validated;
        ex1.max_depth = ex1.max_depth.max(ex3.max_depth);
    }
    // determinism: the same exploration twice gives the same counts (thorough tier)
    if !cfg.quick() {
        let mut scratch = Acc::new();
        let small: Vec<Base> = bases.iter().take(60).cloned().collect();
        let a = explore(cfg, &g, &small, 2, cap, &mut scratch);
        let b = explore(cfg, &g, &small, 2, cap, &mut scratch);
        if (a.states, a.transitions) != (b.states, b.transitions) {
            eprintln!("nondeterministic exploration: {:?} vs {:?}", (a.states, a.transitions), (b.states, b.transitions));
            std::process::exit(2);
        }
    }
    check_macro(&g, &mut acc);
    acc.add("states", ex1.states);
    acc.add("transitions", ex1.transitions);
    acc.add("traces_validated_against_impl", ex1.validated);
    acc.add("evaluations", ex1.transitions);
    acc.add("distinct_nontrivial", ex1.states.saturating_sub(1));
    acc.sample(json!({"init": {"ranges": [[360, 840], [360, 570]], "kind": "open", "comments": []}, "steps": [], "note": "nested ranges with equal start"}));
    acc.sample(json!({"init": null, "steps": [{"base": {"ranges": [[570, 840]], "kind": "open", "comments": ["a"]}, "flipped": false}, {"base": {"ranges": [[360, 570]], "kind": "open", "comments": []}, "flipped": false}], "note": "adjacent same-kind ranges coalesce"}));
    let mut o = Outcome::new("model_checking", acc);
    o.exhaustive = caps.is_empty();
    o.caps_hit = caps;
    o.cov("grid_minutes", json!(g));
    o.cov("depth", json!(if cfg.quick() { "2 (5-point grid)" } else { "2 (7-point grid) and 3 (5-point grid)" }));
    o.cov("max_depth", json!(ex1.max_depth));
    o.cov("distinct_cell_models_reached", json!(ex1.distinct_iterations));
    o.cov("rule", json!("explicit-state BFS over the real Schedule: init = empty ∪ every distinct from_ranges result (every ordered sequence of ≤3 ranges over grid×grid — empty, inverted, nested, overlapping, adjacent, duplicate — × 3 kinds × comments ∅/{a}/{b}); transition = real addition with a base schedule on either side; dedup by Debug rendering (the whole value) paired with the model cells; every state checked against the per-cell overlay model (inner ranges disjoint/increasing/non-empty, covered set, is_empty, into_iter is a gap-free tiling with closed holes and alternating kinds equal to the model, comments sorted/unique/from inputs); schedule! macro vs explicit calls on every 3-point chain. non-trivial = every reached state but the empty one"));
    o.assume("the Debug rendering of Schedule shows the whole inner vector (used for dedup and for the structural invariant; if its format is not recognised the structural invariant is skipped, never failed)");
    o
}

pub fn replay(cfg: &Cfg, case: &Value) -> Vec<Violation> {
    let mut acc = Acc::new();
    let g = {
        // use the finer grid if the case mentions a point outside the quick grid
        let mut pts: BTreeSet<u16> = grid(&Cfg { tier: crate::Tier::Thorough, ..cfg.clone() }).into_iter().collect();
        pts.extend(grid(cfg));
        pts.into_iter().collect::<Vec<_>>()
    };
    if let Some(m) = case.get("macro") {
        let _ = m;
        check_macro(&g, &mut acc);
        return acc.groups.into_values().flat_map(|g| g.examples).collect();
    }
    let mut comments: BTreeSet<String> = BTreeSet::new();
    let (mut sched, mut model) = match case.get("init").and_then(Base::from_json) {
        Some(b) => {
            comments.extend(b.comments.iter().cloned());
            match catch(|| b.build()) {
                Ok(s) => (s, b.model(&g)),
                Err(p) => return vec![Violation::new("from_ranges_panic", vec![], case.clone(), format!("panic {} at {}", p.msg, p.loc))],
            }
        }
        None => (Schedule::new(), vec![None; g.len() - 1]),
    };
    check_state(&sched, &model, &comments, &g, case, &mut acc);
    if let Some(steps) = case.get("steps").and_then(|v| v.as_array()) {
        for st in steps {
            let Some(b) = st.get("base").and_then(Base::from_json) else { continue };
            let flipped = st.get("flipped").and_then(|v| v.as_bool()).unwrap_or(false);
            comments.extend(b.comments.iter().cloned());
            let other = b.build();
            let om = b.model(&g);
            let (l, r) = if flipped { (other, sched.clone()) } else { (sched.clone(), other) };
            model = if flipped { model_add(&om, &model) } else { model_add(&model, &om) };
            match catch(|| l.addition(r)) {
                Ok(s) => sched = s,
                Err(p) => return vec![Violation::new("addition_panic", vec![], case.clone(), format!("panic {} at {}", p.msg, p.loc))],
            }
            check_state(&sched, &model, &comments, &g, case, &mut acc);
        }
    }
    acc.groups.into_values().flat_map(|g| g.examples).collect()
}
