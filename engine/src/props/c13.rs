//! C13 — Normalization is idempotent and deterministic.
//!
//! For every expression e of N ∪ E2 ∪ E1 ∪ S: n = normalize(e); normalize(n) == n (AST equality);
//! normalizing twice / from a clone / from a differently spelled but equal expression gives the
//! same n; n prints and reparses to an equivalent expression (C06's criterion).

use crate::ctx;
use crate::features;
use crate::gen::print::{print_expr, Style};
use crate::props::{c06, c07};
use crate::report::{Acc, Outcome, Violation};
use crate::util::catch;
use crate::windows;
use crate::Cfg;
use opening_hours::OpeningHours;
use rayon::prelude::*;
use serde_json::{json, Value};

pub fn check_text(text: &str, deep: bool, acc: &mut Acc) {
    let Ok(Ok(e)) = catch(|| opening_hours_syntax::parse(text)) else {
        acc.add("rejected_by_parser", 1);
        return;
    };
    let feats = features::of_expr(&e);
    let n = match catch(|| e.clone().normalize()) {
        Ok(n) => n,
        Err(p) => {
            acc.violate(Violation::new("normalize_panic", feats, json!({"expr": text}), format!("normalize(`{text}`) panicked: {} at {}", p.msg, p.loc)));
            return;
        }
    };
    acc.add("states", 1);
    acc.add("evaluations", 1);
    // determinism: again, from a clone, from a reparse of the same text, from another spelling
    let again = e.clone().normalize();
    let reparsed = opening_hours_syntax::parse(text).map(|x| x.normalize());
    acc.add("transitions", 2);
    if again != n || reparsed.as_ref().ok() != Some(&n) {
        acc.violate(Violation::new("normalize_not_deterministic", feats.clone(), json!({"expr": text}), format!("two normalizations of `{text}` differ: `{n}` vs `{again}`")));
        return;
    }
    for st in [Style { pad: false, closed_word: 1, tight_rule_sep: true, equal_as_range: true, ..Style::CANON }, Style { explicit_open: true, dash_space: true, week_style: 2, hol_sep: 1, ..Style::CANON }] {
        if let Some(alt) = print_expr(&e, &st) {
            if let Ok(e_alt) = opening_hours_syntax::parse(&alt) {
                if e_alt == e {
                    acc.add("transitions", 1);
                    if e_alt.normalize() != n {
                        acc.violate(Violation::new("equal_expressions_normalize_differently", feats.clone(), json!({"expr": text, "alt": alt}), format!("`{text}` and `{alt}` are equal expressions but normalize differently")));
                        return;
                    }
                }
            }
        }
    }
    // idempotence
    acc.add("transitions", 1);
    let nn = match catch(|| n.clone().normalize()) {
        Ok(x) => x,
        Err(p) => {
            acc.violate(Violation::new("normalize_panic", feats, json!({"expr": text, "second_pass": true}), format!("second normalization of `{text}` panicked: {} at {}", p.msg, p.loc)));
            return;
        }
    };
    if nn != n {
        acc.violate(Violation::new("normalize_not_idempotent", feats.clone(), json!({"expr": text}), format!("normalize(`{text}`) = `{n}` but normalizing that again gives `{nn}`")));
        return;
    }
    // the normal form prints and reparses (C06 criterion); evaluated only where ASTs differ
    if deep {
        let Ok(oh) = OpeningHours::parse(text) else { return };
        let on = oh.normalize();
        let ctxs = vec![ctx::empty(), ctx::synthetic()];
        let before = acc.total_violations();
        let mut sub = Acc::new();
        let (ok, _) = c06::check_roundtrip(&n, &on, &format!("normalize({text})"), &ctxs, &windows::w_small_blocks(), &mut sub);
        for (_, g) in sub.groups {
            for ex in g.examples {
                acc.violate(Violation::new(&format!("normal_form_{}", ex.kind), ex.features, ex.case, ex.detail));
            }
        }
        if !ok || acc.total_violations() != before {
            return;
        }
    }
    acc.add("traces_validated_against_impl", 1);
    if n != e {
        acc.add("distinct_nontrivial", 1);
    }
}

pub fn run(cfg: &Cfg) -> Outcome {
    let fam = c07::texts(cfg);
    let accs: Vec<Acc> = fam
        .par_chunks(64)
        .map(|chunk| {
            let mut acc = Acc::new();
            for t in chunk {
                check_text(t, true, &mut acc);
            }
            acc
        })
        .collect();
    let mut acc = Acc::new();
    for a in accs {
        acc.merge(a);
    }
    for i in [0usize, 100, fam.len() / 2, fam.len() - 1] {
        let n = opening_hours_syntax::parse(&fam[i]).map(|o| o.normalize().to_string()).unwrap_or_default();
        acc.sample(json!({"expr": fam[i], "normal_form": n}));
    }
    let mut o = Outcome::new("model_checking", acc);
    o.exhaustive = true;
    o.cov("family_size", json!(fam.len()));
    o.cov("rule", json!("bounded exhaustive over N ∪ E2 ∪ E1 ∪ S: n = normalize(e); normalize(n) == n; normalize repeated / on a clone / on a reparse / on two other spellings that parse to an equal AST gives == n; n.to_string() reparses to an expression equal to n modulo joined comments, or else evaluating identically on the window (C06 criterion). states = expressions, transitions = normalize calls compared; non-trivial = normal form differs from the input"));
    o
}

pub fn replay(_cfg: &Cfg, case: &Value) -> Vec<Violation> {
    let mut acc = Acc::new();
    let Some(text) = case.get("expr").and_then(|v| v.as_str()).or_else(|| case.get("origin").and_then(|v| v.as_str())) else { return vec![] };
    let inner = text.strip_prefix("normalize(").and_then(|s| s.strip_suffix(')')).unwrap_or(text);
    check_text(inner, true, &mut acc);
    acc.groups.into_values().flat_map(|g| g.examples).collect()
}
