//! C19 — ExtendedTime is a faithful 00:00..48:00 minute counter.
//!
//! Complete enumeration of the (finite) quantifier: all (u8,u8) pairs for `new`, all u16 for
//! `from_mins_from_midnight`, every valid time × every i16 for `add_minutes`, × every i8 for
//! `add_hours`, all ordered pairs for the ordering, every valid time for Display/Debug/TryInto,
//! every clock minute (with seconds 0, 59 and a leap second) for `From<NaiveTime>`.
//! Oracle: integer arithmetic on minutes.

use crate::report::{par_shards, Acc, Outcome, Violation};
use crate::util::catch;
use crate::Cfg;
use chrono::{NaiveTime, Timelike};
use opening_hours_syntax::ExtendedTime;
use serde_json::{json, Value};
use std::convert::TryInto;

const MAXM: i64 = 2880;

fn model_valid(h: u8, m: u8) -> bool {
    m < 60 && 60 * (h as i64) + (m as i64) <= MAXM
}

fn viol(op: &str, case: Value, detail: String) -> Violation {
    let mut c = case;
    c["op"] = json!(op);
    Violation::new(op, vec![], c, detail)
}

/// Check one operation instance; pushes violations to acc. Shared by run and replay.
fn check_new(h: u8, m: u8, acc: &mut Acc) {
    acc.add("evaluations", 1);
    match catch(|| ExtendedTime::new(h, m)) {
        Err(p) => acc.violate(viol("new_panic", json!({"h":h,"m":m}), format!("panic {} at {}", p.msg, p.loc))),
        Ok(r) => {
            let exp = model_valid(h, m);
            if r.is_some() != exp {
                acc.violate(viol("new", json!({"h":h,"m":m}), format!("new({h},{m}) is_some={} expected {}", r.is_some(), exp)));
            } else if let Some(t) = r {
                acc.add("traces_validated_against_impl", 1);
                if t.hour() != h || t.minute() != m || t.mins_from_midnight() as i64 != 60 * h as i64 + m as i64 {
                    acc.violate(viol("new", json!({"h":h,"m":m}), format!("accessors of new({h},{m}) = {}:{} mins {}", t.hour(), t.minute(), t.mins_from_midnight())));
                }
            } else {
                acc.add("traces_validated_against_impl", 1);
            }
        }
    }
}

fn check_from_mins(n: u16, acc: &mut Acc) {
    acc.add("evaluations", 1);
    match catch(|| ExtendedTime::from_mins_from_midnight(n)) {
        Err(p) => acc.violate(viol("from_mins_panic", json!({"n":n}), format!("panic {} at {}", p.msg, p.loc))),
        Ok(r) => {
            let exp = (n as i64) <= MAXM;
            match r {
                Some(t) if exp => {
                    if t.mins_from_midnight() != n || t.hour() as u16 != n / 60 || t.minute() as u16 != n % 60 {
                        acc.violate(viol("from_mins", json!({"n":n}), format!("from_mins({n}) = {t} with mins {}", t.mins_from_midnight())));
                    } else {
                        acc.add("traces_validated_against_impl", 1);
                    }
                }
                None if !exp => acc.add("traces_validated_against_impl", 1),
                other => acc.violate(viol("from_mins", json!({"n":n}), format!("from_mins({n}) = {:?}, expected is_some={exp}", other))),
            }
        }
    }
}

fn check_add_minutes(t0: u16, k: i16, acc: &mut Acc) -> u64 {
    let t = ExtendedTime::from_mins_from_midnight(t0).expect("valid base");
    match catch(|| t.add_minutes(k)) {
        Err(p) => {
            acc.violate(viol("add_minutes_panic", json!({"t":t0,"k":k}), format!("panic {} at {}", p.msg, p.loc)));
            0
        }
        Ok(r) => {
            let x = t0 as i64 + k as i64;
            let exp = if (0..=MAXM).contains(&x) { Some(x as u16) } else { None };
            if r.map(|v| v.mins_from_midnight()) != exp {
                acc.violate(viol("add_minutes", json!({"t":t0,"k":k}), format!("{t}.add_minutes({k}) = {:?}, expected minutes {:?}", r, exp)));
                0
            } else {
                1
            }
        }
    }
}

fn check_add_hours(t0: u16, k: i8, acc: &mut Acc) -> u64 {
    let t = ExtendedTime::from_mins_from_midnight(t0).expect("valid base");
    match catch(|| t.add_hours(k)) {
        Err(p) => {
            acc.violate(viol("add_hours_panic", json!({"t":t0,"k":k}), format!("panic {} at {}", p.msg, p.loc)));
            0
        }
        Ok(r) => {
            let x = t0 as i64 + 60 * k as i64;
            let exp = if (0..=MAXM).contains(&x) { Some(x as u16) } else { None };
            if r.map(|v| v.mins_from_midnight()) != exp {
                acc.violate(viol("add_hours", json!({"t":t0,"k":k}), format!("{t}.add_hours({k}) = {:?}, expected minutes {:?}", r, exp)));
                0
            } else {
                1
            }
        }
    }
}

fn check_cmp(a: u16, b: u16, acc: &mut Acc) -> u64 {
    let ta = ExtendedTime::from_mins_from_midnight(a).unwrap();
    let tb = ExtendedTime::from_mins_from_midnight(b).unwrap();
    let ok = ta.cmp(&tb) == a.cmp(&b)
        && ta.partial_cmp(&tb) == Some(a.cmp(&b))
        && (ta == tb) == (a == b)
        && (ta < tb) == (a < b)
        && (ta <= tb) == (a <= b);
    if !ok {
        acc.violate(viol("ordering", json!({"a":a,"b":b}), format!("{ta} vs {tb}: cmp={:?} expected {:?}", ta.cmp(&tb), a.cmp(&b))));
        0
    } else {
        1
    }
}

fn check_text_and_clock(t0: u16, acc: &mut Acc) {
    acc.add("evaluations", 3);
    let t = ExtendedTime::from_mins_from_midnight(t0).unwrap();
    let exp = format!("{:02}:{:02}", t0 / 60, t0 % 60);
    let shown = format!("{t}");
    let dbg = format!("{t:?}");
    if shown != exp || dbg != exp {
        acc.violate(viol("display", json!({"t":t0}), format!("Display={shown} Debug={dbg} expected {exp}")));
    } else {
        acc.add("traces_validated_against_impl", 1);
    }
    // width/padding flags must not break the text either
    match catch(|| {
        let r: Result<NaiveTime, ()> = t.try_into();
        r
    }) {
        Err(p) => acc.violate(viol("to_clock_panic", json!({"t":t0}), format!("panic {} at {}", p.msg, p.loc))),
        Ok(r) => {
            let exp_ok = t0 < 1440;
            match r {
                Ok(nt) if exp_ok => {
                    if nt.hour() as u16 != t0 / 60 || nt.minute() as u16 != t0 % 60 || nt.second() != 0 || nt.nanosecond() != 0 {
                        acc.violate(viol("to_clock", json!({"t":t0}), format!("{t} -> {nt}")));
                    } else {
                        acc.add("traces_validated_against_impl", 1);
                    }
                }
                Err(()) if !exp_ok => acc.add("traces_validated_against_impl", 1),
                other => acc.violate(viol("to_clock", json!({"t":t0}), format!("{t}.try_into() = {:?}, expected ok={exp_ok}", other))),
            }
        }
    }
}

fn check_from_clock(min: u32, sec: u32, nano: u32, acc: &mut Acc) {
    acc.add("evaluations", 1);
    let Some(nt) = NaiveTime::from_hms_nano_opt(min / 60, min % 60, sec, nano) else { return };
    match catch(|| ExtendedTime::from(nt)) {
        Err(p) => acc.violate(viol("from_clock_panic", json!({"min":min,"sec":sec,"nano":nano}), format!("panic {} at {}", p.msg, p.loc))),
        Ok(t) => {
            if t.mins_from_midnight() as u32 != min {
                acc.violate(viol("from_clock", json!({"min":min,"sec":sec,"nano":nano}), format!("From({nt}) = {t}")));
            } else {
                acc.add("traces_validated_against_impl", 1);
            }
        }
    }
}

pub fn run(_cfg: &Cfg) -> Outcome {
    let mut acc = Acc::new();
    // constants
    if ExtendedTime::MIDNIGHT_00.mins_from_midnight() != 0
        || ExtendedTime::MIDNIGHT_24.mins_from_midnight() != 1440
        || ExtendedTime::MIDNIGHT_48.mins_from_midnight() != 2880
    {
        acc.violate(viol("constants", json!({}), "MIDNIGHT_* constants wrong".into()));
    }
    // new: all u8 x u8
    let hs: Vec<u16> = (0..=255u16).collect();
    acc.merge(par_shards(&hs, 16, |_, h, acc| {
        for m in 0..=255u16 {
            check_new(*h as u8, m as u8, acc);
        }
    }));
    // from_mins: all u16
    let ns: Vec<u32> = (0..=65535u32).collect();
    acc.merge(par_shards(&ns, 4096, |_, n, acc| check_from_mins(*n as u16, acc)));
    // valid times
    let valid: Vec<u16> = (0..=2880u16).collect();
    acc.add("states", valid.len() as u64);
    // add_minutes: every valid × every i16 ; add_hours: every valid × every i8
    acc.merge(par_shards(&valid, 16, |_, t0, acc| {
        let mut ok = 0u64;
        for k in i16::MIN..=i16::MAX {
            ok += check_add_minutes(*t0, k, acc);
        }
        for k in i8::MIN..=i8::MAX {
            ok += check_add_hours(*t0, k, acc);
        }
        acc.add("transitions", 65536 + 256);
        acc.add("evaluations", 65536 + 256);
        for b in 0..=2880u16 {
            ok += check_cmp(*t0, b, acc);
        }
        acc.add("evaluations", 2881);
        acc.add("traces_validated_against_impl", ok);
        check_text_and_clock(*t0, acc);
    }));
    // From<NaiveTime>
    let mins: Vec<u32> = (0..1440).collect();
    acc.merge(par_shards(&mins, 128, |_, m, acc| {
        check_from_clock(*m, 0, 0, acc);
        check_from_clock(*m, 59, 0, acc);
        check_from_clock(*m, 59, 1_999_999_999, acc); // leap second representation
        check_from_clock(*m, 30, 500_000_000, acc);
    }));
    acc.add("distinct_nontrivial", 2881);
    acc.sample(json!({"op":"new","h":48,"m":0,"expected":"Some(48:00)"}));
    acc.sample(json!({"op":"new","h":48,"m":1,"expected":"None"}));
    acc.sample(json!({"op":"add_minutes","t":1440,"k":-1441,"expected":"None"}));
    acc.sample(json!({"op":"add_hours","t":1455,"k":24,"expected":"None (48:15 is out of range)"}));
    let mut o = Outcome::new("model_checking", acc);
    o.exhaustive = true;
    o.cov("rule", json!("complete enumeration: new on u8×u8; from_mins on u16; add_minutes on valid×i16; add_hours on valid×i8; ordering on valid²; Display/Debug/TryInto<NaiveTime> on valid; From<NaiveTime> on 1440 minutes × 4 second/nanosecond variants. states = valid times, transitions = add_* calls, non-trivial = each valid time (distinct by minutes)"));
    o.assume("chrono::NaiveTime accessors");
    o
}

pub fn replay(_cfg: &Cfg, case: &Value) -> Vec<Violation> {
    let mut acc = Acc::new();
    let g = |k: &str| case.get(k).and_then(|v| v.as_i64()).unwrap_or(0);
    match case.get("op").and_then(|v| v.as_str()).unwrap_or("") {
        "new" | "new_panic" => check_new(g("h") as u8, g("m") as u8, &mut acc),
        "from_mins" | "from_mins_panic" => check_from_mins(g("n") as u16, &mut acc),
        "add_minutes" | "add_minutes_panic" => {
            check_add_minutes(g("t") as u16, g("k") as i16, &mut acc);
        }
        "add_hours" | "add_hours_panic" => {
            check_add_hours(g("t") as u16, g("k") as i8, &mut acc);
        }
        "ordering" => {
            check_cmp(g("a") as u16, g("b") as u16, &mut acc);
        }
        "display" | "to_clock" | "to_clock_panic" => check_text_and_clock(g("t") as u16, &mut acc),
        "from_clock" | "from_clock_panic" => check_from_clock(g("min") as u32, g("sec") as u32, g("nano") as u32, &mut acc),
        _ => {}
    }
    acc.groups.into_values().flat_map(|g| g.examples).collect()
}
