//! C07 — Normalization does not change the meaning of an expression.
//!
//! Differential oracle on the real code: for every expression of the normalisation family N
//! (canonical and non-canonical rules mixed, all operators and kinds) ∪ E2 ∪ S, the real
//! `schedule_at` of `e` and of `e.normalize()` must give the same kinds on every day of the
//! window in every context.

use crate::ctx::{self, Ctx};
use crate::evalx::first_difference;
use crate::features;
use crate::gen::alphabet as al;
use crate::gen::print::canon;
use crate::props::normfam;
use crate::report::{Acc, Outcome, Violation};
use crate::util::catch;
use crate::windows;
use crate::Cfg;
use chrono::NaiveDate;
use opening_hours::OpeningHours;
use rayon::prelude::*;
use serde_json::{json, Value};

pub fn texts(cfg: &Cfg) -> Vec<String> {
    let mut out = Vec::new();
    let mut seen = std::collections::HashSet::new();
    let mut push = |t: String, out: &mut Vec<String>| {
        if seen.insert(t.clone()) {
            out.push(t);
        }
    };
    for e in normfam::family(cfg.quick()) {
        if let Some(t) = canon(&e) {
            push(t, &mut out);
        }
    }
    let r2 = al::r2();
    let n2 = al::e2_count();
    let stride = if cfg.quick() { 29 } else { 1 };
    let mut i = 0;
    while i < n2 {
        if let Some(t) = canon(&al::e2_at(&r2, i)) {
            push(t, &mut out);
        }
        i += stride;
    }
    for e in al::e1(1) {
        if let Some(t) = canon(&e) {
            push(t, &mut out);
        }
    }
    if !cfg.quick() {
        let r3 = al::r3();
        let n3 = al::e3_count();
        let mut i = 0;
        while i < n3 {
            if let Some(t) = canon(&al::e3_at(&r3, i)) {
                push(t, &mut out);
            }
            i += 3;
        }
    }
    for s in al::corpus(&cfg.repo) {
        push(s, &mut out);
    }
    out
}

pub fn check_text(text: &str, ctxs: &[Ctx], blocks: &[(NaiveDate, NaiveDate)], acc: &mut Acc) {
    let Ok(Ok(oh)) = catch(|| OpeningHours::parse(text)) else {
        acc.add("rejected_by_parser", 1);
        return;
    };
    let feats = features::of_str(text);
    let norm = match catch(|| oh.normalize()) {
        Ok(n) => n,
        Err(p) => {
            acc.violate(Violation::new("normalize_panic", feats, json!({"expr": text}), format!("normalize(`{text}`) panicked: {} at {}", p.msg, p.loc)));
            return;
        }
    };
    acc.add("states", 1);
    let changed = norm.to_string() != oh.to_string();
    if changed {
        acc.add("normal_form_differs_from_input", 1);
    }
    let mut all_ok = true;
    let mut varied = false;
    for c in ctxs {
        let a = oh.clone().with_context(c.real.clone());
        let b = norm.clone().with_context(c.real.clone());
        match catch(|| first_difference(&a, &b, blocks, false)) {
            Err(_) => {
                acc.add("evaluation_panics_left_to_C04", 1);
                all_ok = false;
                break;
            }
            Ok((n, None, v)) => {
                acc.add("evaluations", n);
                acc.add("transitions", n);
                varied |= v;
            }
            Ok((_, Some((d, x, y)), _)) => {
                acc.violate(Violation::new(
                    "normal_form_evaluates_differently",
                    feats.clone(),
                    json!({"expr": text, "ctx": c.name, "date": d.to_string()}),
                    format!("`{text}` normalizes to `{norm}`; on {d} ({}) [{}] the original gives [{x}], the normal form [{y}]", d.format("%a"), c.name),
                ));
                all_ok = false;
                break;
            }
        }
    }
    if all_ok {
        acc.add("traces_validated_against_impl", 1);
    }
    if varied && changed {
        acc.add("distinct_nontrivial", 1);
    }
}

pub fn run(cfg: &Cfg) -> Outcome {
    let fam = texts(cfg);
    let ctxs: Vec<Ctx> = vec![ctx::empty(), ctx::synthetic()];
    let blocks = if cfg.quick() { windows::w_small_blocks() } else { windows::w_core_blocks() };
    let accs: Vec<Acc> = fam
        .par_chunks(32)
        .map(|chunk| {
            let mut acc = Acc::new();
            for t in chunk {
                check_text(t, &ctxs, &blocks, &mut acc);
            }
            acc
        })
        .collect();
    let mut acc = Acc::new();
    for a in accs {
        acc.merge(a);
    }
    for i in [0usize, 100, fam.len() / 2, fam.len() - 1] {
        let n = OpeningHours::parse(&fam[i]).map(|o| o.normalize().to_string()).unwrap_or_default();
        acc.sample(json!({"expr": fam[i], "normal_form": n}));
    }
    let mut o = Outcome::new("model_checking", acc);
    o.exhaustive = true;
    o.cov("family_size", json!(fam.len()));
    o.cov("window_days", json!(windows::days(&blocks)));
    o.cov("rule", json!("bounded exhaustive, differential: every expression of N (canonical × non-canonical rules, 3 kinds + comments, 3 separators; 1–2 rules quick, 1–3 thorough) ∪ E2 ∪ E1 ∪ S is normalised by the real normalize() and both forms are evaluated by the real schedule_at on every day of the window in the empty and the synthetic calendar context; kinds must be identical. states = expressions, transitions = days compared, validated = expressions whose two forms agreed on every day; non-trivial = the normal form differs textually from the input and the schedule varies"));
    o.assume("comparison bounded by the window (W_small quick, W_core thorough)");
    o
}

pub fn replay(cfg: &Cfg, case: &Value) -> Vec<Violation> {
    let mut acc = Acc::new();
    let Some(text) = case.get("expr").and_then(|v| v.as_str()) else { return vec![] };
    let ctxs = vec![ctx::empty(), ctx::synthetic()];
    let _ = cfg;
    check_text(text, &ctxs, &windows::w_core_blocks(), &mut acc);
    acc.groups.into_values().flat_map(|g| g.examples).collect()
}
