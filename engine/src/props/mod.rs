//! One module per property. `run` explores, `replay` re-executes one recorded case.

use crate::report::{Outcome, Violation};
use crate::Cfg;
use serde_json::Value;

pub mod c01;
pub mod c02;
pub mod c03;
pub mod c04;
pub mod c05;
pub mod c06;
pub mod c07;
pub mod c08;
pub mod c09;
pub mod c10;
pub mod c11;
pub mod c12;
pub mod c13;
pub mod c14;
pub mod c15;
pub mod c16;
pub mod c17;
pub mod c18;
pub mod c19;
pub mod normfam;
pub mod tzshape;
pub mod c20;

pub fn run(prop: &str, cfg: &Cfg) -> Outcome {
    match prop {
        "C01" => c01::run(cfg),
        "C02" => c02::run(cfg),
        "C03" => c03::run(cfg),
        "C04" => c04::run(cfg),
        "C05" => c05::run(cfg),
        "C06" => c06::run(cfg),
        "C07" => c07::run(cfg),
        "C08" => c08::run(cfg),
        "C09" => c09::run(cfg),
        "C10" => c10::run(cfg),
        "C11" => c11::run(cfg),
        "C12" => c12::run(cfg),
        "C13" => c13::run(cfg),
        "C14" => c14::run(cfg),
        "C15" => c15::run(cfg),
        "C16" => c16::run(cfg),
        "C17" => c17::run(cfg),
        "C18" => c18::run(cfg),
        "C19" => c19::run(cfg),
        "C20" => c20::run(cfg),
        _ => {
            eprintln!("unknown property {prop}");
            std::process::exit(2)
        }
    }
}

pub fn replay(prop: &str, cfg: &Cfg, case: &Value) -> Vec<Violation> {
    match prop {
        "C01" => c01::replay(cfg, case),
        "C02" => c02::replay(cfg, case),
        "C03" => c03::replay(cfg, case),
        "C04" => c04::replay(cfg, case),
        "C05" => c05::replay(cfg, case),
        "C06" => c06::replay(cfg, case),
        "C07" => c07::replay(cfg, case),
        "C08" => c08::replay(cfg, case),
        "C09" => c09::replay(cfg, case),
        "C10" => c10::replay(cfg, case),
        "C11" => c11::replay(cfg, case),
        "C12" => c12::replay(cfg, case),
        "C13" => c13::replay(cfg, case),
        "C14" => c14::replay(cfg, case),
        "C15" => c15::replay(cfg, case),
        "C16" => c16::replay(cfg, case),
        "C17" => c17::replay(cfg, case),
        "C18" => c18::replay(cfg, case),
        "C19" => c19::replay(cfg, case),
        "C20" => c20::replay(cfg, case),
        _ => {
            eprintln!("unknown property {prop}");
            std::process::exit(2)
        }
    }
}
