//! One module per property. `run` explores, `replay` re-executes one recorded case.

use crate::report::{Outcome, Violation};
use crate::Cfg;
use serde_json::Value;

pub mod c19;
pub mod c20;

pub fn run(prop: &str, cfg: &Cfg) -> Outcome {
    match prop {
        "C19" => c19::run(cfg),
        "C20" => c20::run(cfg),
        _ => {
            eprintln!("unknown property {prop}");
            std::process::exit(2)
        }
    }
}

pub fn replay(prop: &str, cfg: &Cfg, case: &Value) -> Vec<Violation> {
    match prop {
        "C19" => c19::replay(cfg, case),
        "C20" => c20::replay(cfg, case),
        _ => {
            eprintln!("unknown property {prop}");
            std::process::exit(2)
        }
    }
}
