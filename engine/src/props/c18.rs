//! C18 — Evaluation is pure: same answer across calls, clones and threads.
//!
//! (A) operation histories, sequential, on the real code: every sequence of length ≤ 3 (quick) /
//! ≤ 4 (thorough) over an alphabet of 16 operations chosen to collide on the same lazily built
//! tables and shared `Arc`s is executed in one process; every observation must equal the
//! reference observation of that operation executed **alone in a fresh process**. Because a lazy
//! table can be first-used only once per process, every permutation of the 6 first-use operations
//! (720; quick: every 3rd) runs in its own subprocess, followed by all 16 operations.
//! (B) thread interleavings of first use under loom (hook H2, engine-loom crate run by drivers/c18.py):
//! every thread's observation in every explored execution equals the sequential reference.

use crate::report::{Acc, Outcome, Violation};
use crate::util::{catch, dt, ymd};
use crate::Cfg;
use chrono::{Duration, TimeZone};
use opening_hours::localization::{Coordinates, Country, TzLocation};
use opening_hours::{Context, OpeningHours};
use rayon::prelude::*;
use serde_json::{json, Value};
use std::collections::{BTreeMap, BTreeSet};
use std::process::Command;

pub const N_OPS: usize = 16;
pub const FIRST_USE: [usize; 6] = [0, 3, 5, 6, 7, 8];

/// Every evaluating operation starts and ends with the same calls at 2024-07-14 12:00, so that a
/// one-entry memo / cursor keyed on too little (the date alone, the expression alone, the holidays
/// alone) is forced to collide between consecutive operations.
fn common_instant() -> chrono::NaiveDateTime {
    dt(2024, 7, 14, 12, 0)
}

fn day_sig<L: opening_hours::localization::Localize>(oh: &OpeningHours<L>) -> String {
    format!("{:?}", oh.schedule_at(common_instant().date()).into_iter().map(|r| (r.range.start.mins_from_midnight(), r.range.end.mins_from_midnight(), r.kind, r.comments.to_vec())).collect::<Vec<_>>())
}

fn render_naive(oh: &OpeningHours, ts: &[chrono::NaiveDateTime]) -> String {
    let mut s = format!("first={:?}/{};", oh.state(common_instant()), day_sig(oh));
    for t in ts {
        s.push_str(&format!("state({t})={:?};next={:?};", oh.state(*t), oh.next_change(*t)));
        s.push_str(&format!("sched={:?};", oh.schedule_at(t.date()).into_iter().map(|r| (r.range.start.mins_from_midnight(), r.range.end.mins_from_midnight(), r.kind, r.comments.to_vec())).collect::<Vec<_>>()));
        s.push_str(&format!("iv={:?};", oh.iter_from(*t).take(5).map(|r| (r.range.start, r.range.end, r.kind)).collect::<Vec<_>>()));
    }
    s.push_str(&format!("last={}/{:?};", day_sig(oh), oh.state(common_instant())));
    s
}

fn render_tz(oh: &OpeningHours<TzLocation<chrono_tz::Tz>>, tz: chrono_tz::Tz, ts: &[chrono::DateTime<chrono_tz::Tz>]) -> String {
    let t0 = tz.with_ymd_and_hms(2024, 7, 14, 12, 0, 0).unwrap();
    let mut s = format!("first={:?}/{};", oh.state(t0), day_sig(oh));
    for t in ts {
        s.push_str(&format!("state={:?};next={:?};iv={:?};", oh.state(*t), oh.next_change(*t), oh.iter_range(*t, *t + Duration::days(2)).take(5).map(|r| (r.range.start, r.range.end, r.kind)).collect::<Vec<_>>()));
    }
    s.push_str(&format!("last={}/{:?};", day_sig(oh), oh.state(t0)));
    s
}

fn paris() -> Coordinates {
    Coordinates::new(48.8535, 2.34839).unwrap()
}

fn nyc() -> Coordinates {
    Coordinates::new(40.71, -74.0).unwrap()
}

/// A parsed expression shared (by `Arc`) between operations of one process: clones of it are
/// re-contextualised by operations 11..14.
fn shared() -> &'static OpeningHours {
    static SHARED: std::sync::OnceLock<OpeningHours> = std::sync::OnceLock::new();
    SHARED.get_or_init(|| OpeningHours::parse("sunrise-sunset ; PH off ; SH unknown").unwrap())
}

/// Execute operation `i`, returning its observation rendered to a string.
pub fn op(i: usize) -> String {
    let t1 = [dt(2024, 7, 14, 12, 0), dt(2024, 7, 15, 12, 0), dt(2024, 12, 25, 9, 0)];
    let oh1_text = "Mo-Fr 10:00-18:00; PH off";
    match i {
        0 => {
            let oh = OpeningHours::parse(oh1_text).unwrap().with_context(Context::default().with_holidays(Country::FR.holidays()));
            render_naive(&oh, &t1)
        }
        1 => {
            let oh = OpeningHours::parse(oh1_text).unwrap().with_context(Context::default().with_holidays(Country::FR.holidays()));
            let c = oh.clone();
            drop(oh);
            render_naive(&c, &t1)
        }
        2 => {
            let a = OpeningHours::parse(oh1_text).unwrap();
            let b: OpeningHours = a.to_string().parse().unwrap();
            render_naive(&b.with_context(Context::default().with_holidays(Country::FR.holidays())), &t1)
        }
        3 => {
            let ctx = Context::default().with_holidays(Country::US.holidays()).with_locale(TzLocation::from_coords(paris()));
            let oh = OpeningHours::parse("SH unknown || sunrise-sunset").unwrap().with_context(ctx);
            let tz = chrono_tz::Europe::Paris;
            render_tz(&oh, tz, &[tz.with_ymd_and_hms(2024, 7, 4, 12, 0, 0).unwrap(), tz.with_ymd_and_hms(2024, 12, 23, 8, 0, 0).unwrap()])
        }
        4 | 5 => {
            let c = if i == 4 { Country::FR } else { Country::US };
            let h = c.holidays();
            format!(
                "public={} first={:?} last={:?} school={} first={:?}; 2024-07-14:{} 2024-07-04:{}",
                h.get_public().count(),
                h.get_public().iter().next(),
                h.get_public().iter().last(),
                h.get_school().count(),
                h.get_school().iter().next(),
                h.get_public().contains(ymd(2024, 7, 14)),
                h.get_public().contains(ymd(2024, 7, 4))
            )
        }
        6 => format!("{:?} {:?} {:?}", Country::try_from_coords(paris()), Country::try_from_coords(nyc()), Country::try_from_coords(Coordinates::new(0.0, 0.0).unwrap())),
        7 => format!("{:?} {:?}", TzLocation::from_coords(nyc()).get_timezone(), TzLocation::from_coords(Coordinates::new(-13.83, -171.77).unwrap()).get_timezone()),
        8 => {
            let oh = OpeningHours::parse("easter -1 day").unwrap();
            render_naive(&oh, &[dt(2024, 3, 30, 12, 0), dt(2025, 4, 19, 23, 59)])
        }
        9 => {
            let oh = OpeningHours::parse(oh1_text).unwrap().with_context(Context::default().with_holidays(Country::FR.holidays()));
            let n = oh.normalize();
            format!("{n}|{}", render_naive(&n, &t1))
        }
        10 => {
            let oh = OpeningHours::parse(oh1_text).unwrap().with_context(Context::default().with_holidays(Country::FR.holidays()));
            let mut it = oh.iter_range(dt(2024, 7, 12, 0, 0), dt(2024, 7, 20, 0, 0));
            let first: Vec<_> = (&mut it).take(3).map(|r| (r.range.start, r.range.end, r.kind)).collect();
            drop(it);
            format!("{first:?}|{}", render_naive(&oh, &t1[..1]))
        }
        // clones of the shared expression under different contexts
        11 => {
            let oh = shared().clone().with_context(Context::default().with_locale(TzLocation::new(chrono_tz::Europe::Paris).with_coords(paris())));
            let tz = chrono_tz::Europe::Paris;
            render_tz(&oh, tz, &[tz.with_ymd_and_hms(2024, 6, 21, 6, 30, 0).unwrap()])
        }
        12 => {
            let oh = shared().clone().with_context(Context::default().with_locale(TzLocation::new(chrono_tz::America::New_York).with_coords(nyc())));
            let tz = chrono_tz::America::New_York;
            render_tz(&oh, tz, &[tz.with_ymd_and_hms(2024, 6, 21, 6, 30, 0).unwrap()])
        }
        13 => render_naive(&shared().clone().with_context(Context::default().with_holidays(Country::FR.holidays())), &t1[..2]),
        14 => render_naive(&shared().clone().with_context(Context::default().with_holidays(Country::US.holidays())), &t1[..2]),
        // an Easter with an explicit year, at the instants of operation 8 (year-less Easter): a memo
        // of Easter dates keyed on too little is forced to collide (a seeded change needed this)
        _ => {
            let oh = OpeningHours::parse("2025 easter -1 day-2025 easter +1 day").unwrap();
            render_naive(&oh, &[dt(2024, 3, 30, 12, 0), dt(2025, 4, 19, 23, 59)])
        }
    }
}

/// Child mode: `ohmc _C18 <i> <j> …` executes the operations in order and prints one JSON line per
/// operation: {"op": i, "obs": "..."}.
/// `Country::try_from_coords` on a 3-degree grid (every cell of the embedded 6-degree boundary raster is
/// hit at its centre and on its edges) and a few interior points of large territories: the answer must be
/// a function of the coordinates — the same on every call, in every thread and in a fresh process.
pub fn country_grid() -> Vec<(f64, f64, String)> {
    let mut out = Vec::new();
    let mut lat = -87.0;
    while lat <= 87.0 {
        let mut lon = -177.0;
        while lon <= 177.0 {
            if let Some(c) = Coordinates::new(lat, lon) {
                out.push((lat, lon, format!("{:?}", Country::try_from_coords(c))));
            }
            lon += 3.0;
        }
        lat += 3.0;
    }
    for (lat, lon) in [(72.5796, -38.4592), (75.0, -42.0), (64.2, -51.7), (78.2, 15.6), (22.3, 114.2), (18.2, -66.5), (60.2, 20.0), (62.0, -6.8), (-21.1, 55.5), (46.2, 6.1)] {
        if let Some(c) = Coordinates::new(lat, lon) {
            out.push((lat, lon, format!("{:?}", Country::try_from_coords(c))));
        }
    }
    out
}

pub const OP_GRID: usize = 1000;

pub fn child(args: &[String]) {
    if args.first().map(|a| a == "1000").unwrap_or(false) {
        let obs = match catch(|| country_grid().iter().map(|(_, _, c)| c.clone()).collect::<Vec<_>>().join(",")) {
            Ok(s) => s,
            Err(p) => format!("PANIC {} at {}", p.msg, p.loc),
        };
        println!("{}", json!({"op": OP_GRID, "obs": obs}));
        return;
    }
    for a in args {
        let Ok(i) = a.parse::<usize>() else { continue };
        let obs = match catch(|| op(i)) {
            Ok(s) => s,
            Err(p) => format!("PANIC {} at {}", p.msg, p.loc),
        };
        println!("{}", json!({"op": i, "obs": obs}));
    }
}

fn run_child(ops: &[usize]) -> Result<Vec<(usize, String)>, String> {
    let exe = std::env::current_exe().map_err(|e| e.to_string())?;
    let out = Command::new(exe).arg("_C18").args(ops.iter().map(|o| o.to_string())).output().map_err(|e| e.to_string())?;
    if !out.status.success() {
        return Err(format!("child exited with {:?}: {}", out.status.code(), String::from_utf8_lossy(&out.stderr).chars().take(300).collect::<String>()));
    }
    let mut v = Vec::new();
    for line in String::from_utf8_lossy(&out.stdout).lines() {
        if let Ok(j) = serde_json::from_str::<Value>(line) {
            v.push((j["op"].as_u64().unwrap_or(99) as usize, j["obs"].as_str().unwrap_or("").to_string()));
        }
    }
    Ok(v)
}

fn permutations(items: &[usize]) -> Vec<Vec<usize>> {
    if items.len() <= 1 {
        return vec![items.to_vec()];
    }
    let mut out = Vec::new();
    for i in 0..items.len() {
        let mut rest = items.to_vec();
        let x = rest.remove(i);
        for mut p in permutations(&rest) {
            p.insert(0, x);
            out.push(p);
        }
    }
    out
}

pub fn run(cfg: &Cfg) -> Outcome {
    let mut acc = Acc::new();
    // reference table: each operation alone in a fresh process
    let mut reference: Vec<String> = Vec::new();
    for i in 0..N_OPS {
        match run_child(&[i]) {
            Ok(v) if v.len() == 1 => reference.push(v[0].1.clone()),
            other => {
                eprintln!("cannot obtain the reference observation of op {i}: {other:?}");
                std::process::exit(2);
            }
        }
    }
    for (i, r) in reference.iter().enumerate() {
        if r.starts_with("PANIC") {
            acc.violate(Violation::new("operation_panics_alone", vec![], json!({"ops": [i]}), format!("op {i} alone: {r}")));
        }
    }
    // country lookup on the whole grid: fresh process vs. repeated calls here vs. four threads
    match run_child(&[OP_GRID]) {
        Ok(v) if v.len() == 1 && !v[0].1.starts_with("PANIC") => {
            let reference_grid: Vec<String> = v[0].1.split(',').map(|s| s.to_string()).collect();
            let mut runs: Vec<Vec<(f64, f64, String)>> = (0..3).map(|_| country_grid()).collect();
            let threads: Vec<_> = (0..4).map(|_| std::thread::spawn(country_grid)).collect();
            for t in threads {
                if let Ok(g) = t.join() {
                    runs.push(g);
                }
            }
            for (ri, g) in runs.iter().enumerate() {
                acc.add("country_grid_lookups", g.len() as u64);
                acc.add("evaluations", g.len() as u64);
                let bad = g.iter().zip(&reference_grid).find(|((_, _, c), r)| c != *r);
                match bad {
                    None if g.len() == reference_grid.len() => acc.add("traces_validated_against_impl", 1),
                    None => acc.violate(Violation::new("country_grid_length_differs", vec![], json!({"ops": [OP_GRID]}), format!("{} grid points here, {} in a fresh process", g.len(), reference_grid.len()))),
                    Some(((lat, lon, c), r)) => acc.violate(Violation::new("country_lookup_not_a_function_of_the_coordinates", vec![], json!({"ops": [OP_GRID]}), format!("Country::try_from_coords({lat}, {lon}) = {c} in {} #{ri}, {r} in a fresh process", if ri < 3 { "sequential sweep" } else { "thread" }))),
                }
            }
        }
        other => {
            eprintln!("cannot obtain the reference country grid: {other:?}");
            std::process::exit(2);
        }
    }
    let mut outcomes: Vec<BTreeSet<String>> = (0..N_OPS).map(|i| [reference[i].clone()].into_iter().collect()).collect();
    // (A1) first-use permutations, each in its own process, followed by all operations
    let perms = permutations(&FIRST_USE);
    let step = if cfg.quick() { 3 } else { 1 };
    let chosen: Vec<Vec<usize>> = perms.into_iter().step_by(step).collect();
    let results: Vec<(Vec<usize>, Result<Vec<(usize, String)>, String>)> = chosen
        .par_iter()
        .map(|p| {
            let mut seq = p.clone();
            seq.extend(0..N_OPS);
            (seq.clone(), run_child(&seq))
        })
        .collect();
    for (seq, res) in results {
        acc.add("states", 1);
        acc.add("first_use_permutations", 1);
        match res {
            Err(e) => {
                eprintln!("child failed: {e}");
                std::process::exit(2);
            }
            Ok(v) => {
                acc.add("transitions", v.len() as u64);
                let mut ok = true;
                for (k, (opi, obs)) in v.iter().enumerate() {
                    outcomes[*opi].insert(obs.clone());
                    if *obs != reference[*opi] {
                        acc.violate(Violation::new("observation_depends_on_first_use_order", vec![], json!({"ops": seq, "position": k}), format!("after the first-use order {:?}, op {opi} at position {k} observes {:.200}… instead of {:.200}…", &seq[..6], obs, reference[*opi])));
                        ok = false;
                        break;
                    }
                }
                if ok {
                    acc.add("traces_validated_against_impl", 1);
                }
            }
        }
    }
    // (A2) every history up to the depth bound, in this process
    let depth = if cfg.quick() { 3 } else { 4 };
    let mut hist: Vec<usize> = Vec::new();
    fn rec(hist: &mut Vec<usize>, depth: usize, reference: &[String], outcomes: &mut Vec<BTreeSet<String>>, acc: &mut Acc) {
        if hist.len() == depth {
            return;
        }
        for i in 0..N_OPS {
            hist.push(i);
            // replay the whole history on fresh values (state = the history that reaches it); the
            // process-wide tables persist, which is the point
            let mut ok = true;
            for (k, o) in hist.iter().enumerate() {
                let obs = match catch(|| op(*o)) {
                    Ok(s) => s,
                    Err(p) => format!("PANIC {} at {}", p.msg, p.loc),
                };
                if k + 1 == hist.len() {
                    acc.add("transitions", 1);
                    outcomes[*o].insert(obs.clone());
                    if obs != reference[*o] {
                        acc.violate(Violation::new("observation_depends_on_history", vec![], json!({"ops": hist.clone()}), format!("after history {:?}, op {o} observes {:.200}… instead of {:.200}…", &hist[..hist.len() - 1], obs, reference[*o])));
                        ok = false;
                    }
                }
            }
            acc.add("states", 1);
            acc.add("histories", 1);
            if ok {
                acc.add("traces_validated_against_impl", 1);
            }
            rec(hist, depth, reference, outcomes, acc);
            hist.pop();
        }
    }
    rec(&mut hist, depth, &reference, &mut outcomes, &mut acc);
    // (A3) the same operations from 8 OS threads at once, free-running (a smoke pass, not an
    // exploration: reported separately and never counted as schedule coverage)
    let handles: Vec<_> = (0..8)
        .map(|t| {
            let reference = reference.clone();
            std::thread::spawn(move || {
                let mut bad = Vec::new();
                for r in 0..40 {
                    let i = (t * 7 + r * 3) % N_OPS;
                    let obs = catch(|| op(i)).unwrap_or_else(|p| format!("PANIC {}", p.msg));
                    if obs != reference[i] {
                        bad.push((i, obs));
                    }
                }
                bad
            })
        })
        .collect();
    let mut free_running_bad = 0;
    for h in handles {
        if let Ok(bad) = h.join() {
            for (i, obs) in bad {
                free_running_bad += 1;
                acc.violate(Violation::new("observation_differs_under_os_threads", vec![], json!({"ops": [i]}), format!("op {i} on a free-running OS thread observes {:.200}…", obs)));
            }
        }
    }
    acc.add("free_running_thread_mismatches", free_running_bad);
    // (B) loom exploration of concurrent first use (run by drivers/c18.py before the engine)
    let mut loom_cov = Value::Null;
    match std::env::var("OHMC_C18_LOOM").ok().and_then(|p| std::fs::read_to_string(p).ok()).and_then(|t| serde_json::from_str::<Value>(&t).ok()) {
        Some(doc) => {
            let n = doc["executions"].as_u64().unwrap_or(0);
            acc.add("loom_executions", n);
            acc.add("states", n);
            acc.add("transitions", n);
            let bad = doc["violations"].as_array().cloned().unwrap_or_default();
            acc.add("traces_validated_against_impl", if bad.is_empty() { n } else { 0 });
            for v in bad {
                acc.violate(Violation::new("observation_differs_under_concurrent_first_use", vec![], json!({"loom": v}), format!("loom harness {}: thread {} op {} observed {:.200}… instead of {:.200}…", v["harness"], v["thread"], v["op"], v["observed"].as_str().unwrap_or(""), v["expected"].as_str().unwrap_or(""))));
            }
            loom_cov = json!({"preemption_bound": doc["preemption_bound"], "harnesses": doc["harnesses"]});
        }
        None => {
            eprintln!("C18 needs the loom result written by drivers/c18.py (env OHMC_C18_LOOM)");
            std::process::exit(2);
        }
    }
    let distinct: BTreeMap<String, usize> = outcomes.iter().enumerate().map(|(i, s)| (format!("op{i}"), s.len())).collect();
    let ev = acc.get("transitions");
    acc.add("evaluations", ev);
    acc.add("distinct_nontrivial", N_OPS as u64);
    acc.sample(json!({"history": [0, 3, 0], "meaning": "FR evaluation, US+Paris evaluation, FR evaluation again"}));
    acc.sample(json!({"first_use_order": [8, 7, 6, 5, 3, 0], "then": "all 11 operations"}));
    acc.sample(json!({"reference_op4": reference[4]}));
    let mut o = Outcome::new("model_checking", acc);
    o.exhaustive = true;
    o.cov("operation_alphabet", json!(["eval oh1(FR)", "eval clone of oh1", "eval reparsed oh1", "eval oh2(US, Paris coords, tz)", "FR.holidays()", "US.holidays()", "Country::try_from_coords", "TzLocation::from_coords", "parse+eval easter", "normalize+eval", "half-consumed iterator dropped, then eval", "shared expr clone @Paris coords", "shared expr clone @NYC coords", "shared expr clone + FR holidays", "shared expr clone + US holidays"]));
    o.cov("history_depth", json!(depth));
    o.cov("loom", loom_cov);
    o.cov("distinct_observed_outcomes_per_operation", json!(distinct));
    o.cov("rule", json!("explicit enumeration of operation histories on the real code: every sequence of length ≤ depth over the 16-operation alphabet executed in one process (process-wide lazy tables persist across histories), every permutation of the 6 first-use operations (quick: every 3rd of 720) in its own subprocess followed by all 16 operations; oracle: the observation (state, next_change, schedule, first 5 intervals / table summaries rendered to text) of each operation executed alone in a fresh process. (B) loom: 2–4 threads each running 1–3 operations that first-use the holiday / boundary / zone tables through the cfg-switched LazyLock facade, all interleavings up to the preemption bound (3 quick, 5 thorough), loom's Lazy also letting racing threads both run the initialiser. states = histories + permutations + loom executions, transitions = operations compared. The expected result is exactly one distinct outcome per operation (collisions are forced by the construction of the alphabet, not inferred from the count)"));
    o.assume("thread-level interleavings of first use are explored by the loom harness (engine-loom, merged into this evidence by drivers/c18.py); plain memory accesses outside the LazyLock seam are outside any controlled scheduler here — the free-running 8-thread pass is a smoke test, not coverage");
    o
}

pub fn replay(_cfg: &Cfg, case: &Value) -> Vec<Violation> {
    let ops: Vec<usize> = case.get("ops").and_then(|v| v.as_array()).map(|a| a.iter().filter_map(|x| x.as_u64()).map(|x| x as usize).collect()).unwrap_or_default();
    let mut out = Vec::new();
    let (Ok(got), true) = (run_child(&ops), !ops.is_empty()) else { return out };
    for (opi, obs) in got {
        if let Ok(r) = run_child(&[opi]) {
            if r.first().map(|x| &x.1) != Some(&obs) {
                out.push(Violation::new("observation_depends_on_history", vec![], case.clone(), format!("op {opi} in {ops:?} observes something else than alone")));
                break;
            }
        }
    }
    out
}
