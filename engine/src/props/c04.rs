//! C04 — Totality: no input makes the library panic or run unboundedly.
//!
//! Strings: (i) every string of ≤ 4 (quick) / ≤ 5 (thorough) tokens over a 47-token alphabet made
//! of the terminals of grammar.pest plus hostile tokens; (ii) every expression of E1 ∪ S with every
//! single-token deletion, duplication and replacement by each alphabet token; (iii) numeric
//! fields pushed to their limits. `parse` must return. Every distinct expression that parsed is
//! then run through the evaluation battery (print, normalize, schedule_at, state, next_change,
//! iterators at extreme instants, in naive / holiday / time-zone / coordinate contexts with and
//! without an interval-size bound). Oracle: no panic, and — with hook H1 — a bounded number of
//! `schedule_at` calls per call (one per day of the supported range plus slack).

use crate::gen::alphabet as al;
use crate::gen::print::canon;
use crate::report::{Acc, Outcome, Violation};
use crate::util::{catch, fmt_dt, ymd};
use crate::Cfg;
use chrono::{DateTime, Duration, NaiveDate, NaiveDateTime, TimeZone, Utc};
use chrono_tz::Tz;
use compact_calendar::CompactCalendar;
use opening_hours::localization::{Coordinates, Localize, TzLocation};
use opening_hours::{Context, ContextHolidays, OpeningHours};
use rayon::prelude::*;
use serde_json::{json, Value};
use std::collections::HashSet;
use std::sync::Arc;

pub const TOKENS: [&str; 47] = [
    "Mo", "Jan", "10:00", "24:00", "48:00", "25:61", "-", ",", ";", " ", "||", "[", "]", "1", "0", "31", "53", "+", "/", ":", "week", "easter", "PH", "SH", "sunrise", "(", ")", "\"", "off", "open",
    "unknown", "24/7", "2020", "1899", "day", "days", "999999999999999999999", "é", "\u{301}", "\0", "🕐", "=", "Mo[1]", "/30", "dusk", "Su", "[3-1]",
];

const DAYS_IN_RANGE: u64 = 2_958_466;

// ------------------------------------------------------------------ hang watchdog
//
// A library call that never returns cannot be interrupted from inside its thread. Every worker
// publishes (start time, expression, call) in a slot before each call; a watchdog thread scans
// the slots and, when one call has been running for more than HANG_SECS (legitimate calls take
// at most a few seconds: 2.96 M schedules), prints `ENGINE-HANG {json}` and exits with code 3,
// which the check driver turns into a VIOLATION with a replay file.

const HANG_SECS: u64 = 240;
const SLOTS: usize = 256;

/// `OHMC_HANG_SECS` overrides the threshold (used to try the watchdog out on a seeded hang).
fn hang_secs() -> u64 {
    std::env::var("OHMC_HANG_SECS").ok().and_then(|s| s.parse().ok()).unwrap_or(HANG_SECS)
}

struct Slot {
    start_ms: std::sync::atomic::AtomicU64,
    text: std::sync::Mutex<String>,
    call: std::sync::Mutex<String>,
}

fn slots() -> &'static Vec<Slot> {
    static S: std::sync::OnceLock<Vec<Slot>> = std::sync::OnceLock::new();
    S.get_or_init(|| (0..SLOTS).map(|_| Slot { start_ms: 0.into(), text: Default::default(), call: Default::default() }).collect())
}

fn now_ms() -> u64 {
    static T0: std::sync::OnceLock<std::time::Instant> = std::sync::OnceLock::new();
    T0.get_or_init(std::time::Instant::now).elapsed().as_millis() as u64 + 1
}

fn my_slot() -> &'static Slot {
    static NEXT: std::sync::atomic::AtomicUsize = std::sync::atomic::AtomicUsize::new(0);
    thread_local! { static IDX: usize = NEXT.fetch_add(1, std::sync::atomic::Ordering::SeqCst) % SLOTS; }
    &slots()[IDX.with(|i| *i)]
}

/// Mark the beginning of the evaluation of `text` on this thread.
fn watch_expr(text: &str) {
    *my_slot().text.lock().unwrap() = text.to_string();
}

fn watch_call(call: &str) {
    let s = my_slot();
    if let Ok(mut c) = s.call.try_lock() {
        c.clear();
        c.push_str(call);
    }
    s.start_ms.store(now_ms(), std::sync::atomic::Ordering::SeqCst);
}

fn watch_done() {
    my_slot().start_ms.store(0, std::sync::atomic::Ordering::SeqCst);
}

pub fn start_watchdog() {
    static STARTED: std::sync::Once = std::sync::Once::new();
    STARTED.call_once(|| {
        let _ = now_ms();
        std::thread::spawn(|| loop {
            std::thread::sleep(std::time::Duration::from_secs(2));
            let now = now_ms();
            for s in slots() {
                let st = s.start_ms.load(std::sync::atomic::Ordering::SeqCst);
                if st != 0 && now.saturating_sub(st) > hang_secs() * 1000 {
                    let text = s.text.lock().map(|t| t.clone()).unwrap_or_default();
                    let call = s.call.lock().map(|t| t.clone()).unwrap_or_default();
                    println!("ENGINE-HANG {}", json!({"kind": "call_does_not_return", "case": {"expr": text, "call": call}, "detail": format!("`{text}`: {call} has been running for more than {} s (a legitimate call needs at most one schedule per day of the supported range, a few seconds)", hang_secs())}));
                    std::process::exit(3);
                }
            }
        });
    });
}

fn parse_guard(s: &str, acc: &mut Acc) -> Option<opening_hours_syntax::rules::OpeningHoursExpression> {
    let slot = my_slot();
    if slot.start_ms.load(std::sync::atomic::Ordering::Relaxed) == 0 {
        // (cheap: the string is only copied when a hang is being reported, see `parse_watch`)
    }
    parse_watch(s);
    let r = parse_guard_inner(s, acc);
    watch_done();
    r
}

/// Publishing every one of 2·10⁸ strings would cost more than parsing them: publish one string in
/// 64 (a parse that hangs hangs the worker, whose last published string is at most 63 strings
/// behind — the report then names a string of the same shard, and the replay of the shard finds it).
fn parse_watch(s: &str) {
    thread_local! { static N: std::cell::Cell<u32> = const { std::cell::Cell::new(0) }; }
    let n = N.with(|n| {
        n.set(n.get().wrapping_add(1));
        n.get()
    });
    if n % 64 == 0 {
        watch_expr(s);
        watch_call("parse (this or one of the next 63 strings of the enumeration)");
    } else {
        my_slot().start_ms.store(now_ms(), std::sync::atomic::Ordering::Relaxed);
    }
}

fn parse_guard_inner(s: &str, acc: &mut Acc) -> Option<opening_hours_syntax::rules::OpeningHoursExpression> {
    match catch(|| opening_hours_syntax::parse(s)) {
        Ok(Ok(e)) => Some(e),
        Ok(Err(_)) => None,
        Err(p) => {
            acc.violate(Violation::new("parse_panic", vec![format!("at:{}", p.loc)], json!({"str": s}), format!("parse({s:?}) panicked: {} at {}", p.msg, p.loc)));
            None
        }
    }
}

/// Tokenise an expression on the boundaries the grammar cares about.
fn tokenize(s: &str) -> Vec<String> {
    let mut out: Vec<String> = Vec::new();
    let mut cur = String::new();
    let class = |c: char| -> u8 {
        if c.is_ascii_digit() {
            1
        } else if c.is_alphabetic() {
            2
        } else {
            3
        }
    };
    let mut last = 0u8;
    for c in s.chars() {
        let k = class(c);
        if k == 3 || k != last {
            if !cur.is_empty() {
                out.push(std::mem::take(&mut cur));
            }
        }
        cur.push(c);
        last = k;
        if k == 3 {
            out.push(std::mem::take(&mut cur));
            last = 0;
        }
    }
    if !cur.is_empty() {
        out.push(cur);
    }
    out
}

fn numeric_limit_strings() -> Vec<String> {
    let nums = ["1", "2", "255", "256", "65535", "65536", "999999999", "2147483648", "9223372036854775807", "9223372036854775808", "18446744073709551615", "18446744073709551616", "1000000000000000000000000000000", "0000000001", "00"];
    let mut out = Vec::new();
    for n in nums {
        for t in [
            "Mo[1] +{} days", "Mo[1] -{} days", "Su[-1] +{} day", "PH +{} days", "PH -{} days", "Jan 1 +{} days", "Jan 1 -{} days", "easter +{} days", "easter -{} days", "Jan 1+Su +{} days",
            "Dec 25 -{} days-Jan 5 +{} days", "2020-2030/{}", "1900-9999/{}", "week 1-53/{}", "week 2-52/{}", "10:00-12:00/{}", "2020 Jan 1 +{} days-Feb 1 -{} days", "Mo[1] +{} days 22:00-26:00", "PH -{} days 04:00-48:00",
        ] {
            out.push(t.replace("{}", n));
        }
    }
    for t in [
        "(dusk+24:00)-(dawn+01:00)", "(dusk+24:00)-26:00", "(dawn-24:00)-(dusk+24:00)", "(sunset+23:59)-(sunrise-23:59)", "(dusk+05:00)-(dusk+04:00)", "(dawn-07:00)-10:00", "00:00-48:00", "24:00-48:00", "24:00-24:00",
        "23:59-48:00", "00:00-00:00", "sunrise-sunrise", "dusk-dusk+", "(dusk+24:00)+", "10:00-12:00/24:00", "10:00-12:00/00", "10:00-12:00/59", "9999 Dec 31 22:00-48:00", "1900 Jan 1 -1 day", "9999 Dec 31 +1 day",
        "9999 Dec 31 +Su", "1900 Jan 1 -Mo", "Feb 30", "Feb 31-Feb 30", "Jan 31-Feb 31", "Feb 29-Feb 29", "9999 Feb 29", "Dec 31+", "9999 Dec 31+", "easter +400 days", "9999 easter +1 day-9999 easter +400 days",
        "week 53", "week 53-53/2", "week 52-01/7", "9999-1900", "9999-1900/3", "9999+", "1900+", "Mo[5]", "Mo[-5]", "Mo[1-5,-1,-5]", "Mo-Su,PH,SH", "PH,SH,PH,SH", "SH Mo", "Mo SH",
        // inverted and degenerate ranges at every range position of the grammar (an nth list made of
        // inverted ranges only selects nothing — a value no AST alphabet can hold)
        "Mo[3-1]", "Mo[5-1]", "Mo[3-1,2]", "Mo[3-1] +1 day", "Mo[3-1],Tu[2]", "Tu[2],We[5-2] off", "Mo[1-1]", "Mo[5-5]", "Mo[3-1,-1]", "Jan Sa[4-2] +1 day 08:00-12:00; PH off", "We-Mo", "Su-Su", "Mo-Mo",
        "week 10-05", "week 10-05/2", "week 53-01", "week 1-1", "Mar-Jan", "2020 Mar-Jan", "Jan-Jan", "Jan 5-1", "Jan 31-1", "Dec 31-Jan 1", "2021 Jan 1-2020 Dec 31", "18:00-10:00", "24:00-01:00", "10:00-10:00",
        "2030-2020/3", "2020-2020", "easter +5 days-easter -5 days", "sunset-sunrise", "(sunset+01:00)-(sunset-01:00)", "dusk-dawn", "Jan 1-easter", "easter-Jan 1", "Dec 31-easter -300 days",
    ] {
        out.push(t.to_string());
    }
    out
}

// ------------------------------------------------------------------ evaluation battery

fn naive_instants() -> Vec<NaiveDateTime> {
    let hms = |d: NaiveDate, h, m, s| d.and_hms_opt(h, m, s).unwrap();
    vec![
        NaiveDateTime::MIN,
        hms(ymd(-100000, 1, 1), 0, 0, 0),
        hms(ymd(0, 1, 1), 0, 0, 0),
        hms(ymd(1899, 12, 31), 23, 59, 59),
        hms(ymd(1900, 1, 1), 0, 0, 0),
        hms(ymd(1900, 1, 2), 0, 0, 0),
        hms(ymd(2020, 2, 29), 12, 0, 0),
        hms(ymd(2021, 1, 3), 23, 59, 59),
        hms(ymd(9999, 12, 31), 23, 59, 0),
        hms(ymd(10000, 1, 1), 0, 0, 0),
        NaiveDateTime::MAX,
    ]
}

fn special_dates() -> Vec<NaiveDate> {
    vec![NaiveDate::MIN, ymd(-262143, 1, 1), ymd(0, 1, 1), ymd(1899, 12, 31), ymd(1900, 1, 1), ymd(1900, 1, 2), ymd(2020, 2, 29), ymd(2021, 1, 3), ymd(9999, 12, 31), ymd(10000, 1, 1), NaiveDate::MAX]
}

struct Call<'a> {
    text: &'a str,
    ctx: &'a str,
    acc: &'a mut Acc,
    calls: u64,
    /// run the calls that may walk to the end of the supported range (next_change, iter_from)
    long: bool,
    /// schedule_at calls still allowed for such long calls in an unbounded context (deterministic
    /// budget, H1 counter): a correct answer may legitimately cost 2.9 M schedules per call
    long_budget: &'a mut i64,
    bounded: bool,
}

impl Call<'_> {
    /// Run one API call under catch_unwind and the H1 work bound. `n_next` = number of `next()`
    /// calls the closure makes at most.
    fn run<T>(&mut self, what: &str, arg: String, n_next: u64, f: impl FnOnce() -> T) -> Option<T> {
        self.calls += 1;
        let c0 = opening_hours::verif_schedule_count();
        watch_call(what);
        let r = catch(f);
        watch_done();
        let used = opening_hours::verif_schedule_count() - c0;
        if !self.bounded {
            *self.long_budget -= used as i64;
        }
        match r {
            Err(p) => {
                self.acc.violate(Violation::new(
                    "panic",
                    vec![format!("at:{}", p.loc), format!("call:{what}")],
                    json!({"expr": self.text, "ctx": self.ctx, "call": what, "arg": arg, "at": p.loc}),
                    format!("`{}` [{}] {what}({arg}) panicked: {} at {}", self.text, self.ctx, p.msg, p.loc),
                ));
                None
            }
            Ok(v) => {
                if used > DAYS_IN_RANGE + 2 * n_next.max(1) + 2 {
                    self.acc.violate(Violation::new(
                        "unbounded_work",
                        vec![format!("call:{what}")],
                        json!({"expr": self.text, "ctx": self.ctx, "call": what, "arg": arg}),
                        format!("`{}` [{}] {what}({arg}) generated {used} daily schedules, more than one per day of the supported range", self.text, self.ctx),
                    ));
                }
                Some(v)
            }
        }
    }
}

fn battery<L: Localize>(oh: &OpeningHours<L>, instants: &[(String, L::DateTime)], call: &mut Call)
where
    L::DateTime: Clone,
{
    for d in special_dates() {
        call.run("schedule_at", d.to_string(), 1, || oh.schedule_at(d).into_iter().count());
    }
    for (i, (name, t)) in instants.iter().enumerate() {
        call.run("state", name.clone(), 1, || oh.state(t.clone()));
        call.run("is_open", name.clone(), 1, || (oh.is_open(t.clone()), oh.is_closed(t.clone()), oh.is_unknown(t.clone())));
        if call.long && (call.bounded || *call.long_budget > 0) {
            call.run("next_change", name.clone(), 1, || oh.next_change(t.clone()));
            if call.bounded || *call.long_budget > 0 {
                call.run("iter_from.take(20)", name.clone(), 20, || oh.iter_from(t.clone()).take(20).count());
            }
        } else if call.long {
            call.acc.add("long_calls_skipped_after_budget", 2);
        }
        // windows: to the next instant, to the last one, and an inverted one
        let nexts = [instants.get(i + 1), instants.last(), instants.first()];
        for (n2, t2) in nexts.into_iter().flatten() {
            if call.bounded || *call.long_budget > 0 {
                call.run("iter_range.take(20)", format!("{name}, {n2}"), 20, || oh.iter_range(t.clone(), t2.clone()).take(20).count());
            }
        }
    }
}

fn extreme_calendar() -> ContextHolidays {
    static CAL: std::sync::OnceLock<ContextHolidays> = std::sync::OnceLock::new();
    CAL.get_or_init(|| {
        let cal: CompactCalendar = [NaiveDate::MIN, NaiveDate::MAX, ymd(2020, 2, 29), ymd(1900, 1, 1), ymd(9999, 12, 31)].into_iter().collect();
        let cal = Arc::new(cal);
        ContextHolidays::new(cal.clone(), cal)
    })
    .clone()
}

fn synthetic_holidays() -> ContextHolidays {
    static CAL: std::sync::OnceLock<ContextHolidays> = std::sync::OnceLock::new();
    CAL.get_or_init(|| crate::ctx::synthetic().real.holidays.clone()).clone()
}

fn tz_instants(tz: Tz) -> Vec<(String, DateTime<Tz>)> {
    let mut v: Vec<(String, DateTime<Tz>)> = Vec::new();
    for (name, u) in [
        ("MIN_UTC", DateTime::<Utc>::MIN_UTC),
        ("MAX_UTC", DateTime::<Utc>::MAX_UTC),
        ("1899-12-31T23:30Z", Utc.with_ymd_and_hms(1899, 12, 31, 23, 30, 0).unwrap()),
        ("1900-01-01T00:00Z", Utc.with_ymd_and_hms(1900, 1, 1, 0, 0, 0).unwrap()),
        ("2024-03-31T01:30Z", Utc.with_ymd_and_hms(2024, 3, 31, 1, 30, 0).unwrap()),
        ("2024-10-27T00:30Z", Utc.with_ymd_and_hms(2024, 10, 27, 0, 30, 0).unwrap()),
        ("9999-12-31T23:30Z", Utc.with_ymd_and_hms(9999, 12, 31, 23, 30, 0).unwrap()),
        ("10000-01-01T12:00Z", Utc.from_utc_datetime(&ymd(10000, 1, 1).and_hms_opt(12, 0, 0).unwrap())),
    ] {
        v.push((name.to_string(), u.with_timezone(&tz)));
    }
    // around the largest UTC-offset change of the zone (for Pacific/Apia the skipped 2011-12-30: a whole
    // local day that does not exist, so that every expression has results falling inside the gap)
    if let Some(t) = largest_transition(tz) {
        for (name, m) in [("T-26h", -26 * 60), ("T-13h", -13 * 60), ("T-1h", -60), ("T-1min", -1), ("T", 0), ("T+1min", 1), ("T+13h", 13 * 60)] {
            v.push((format!("largest-transition {name}"), Utc.from_utc_datetime(&(t + Duration::minutes(m))).with_timezone(&tz)));
        }
    }
    v
}

fn largest_transition(tz: Tz) -> Option<NaiveDateTime> {
    static CACHE: std::sync::OnceLock<std::sync::Mutex<std::collections::HashMap<&'static str, Option<NaiveDateTime>>>> = std::sync::OnceLock::new();
    let m = CACHE.get_or_init(Default::default);
    if let Some(v) = m.lock().unwrap().get(tz.name()) {
        return *v;
    }
    let best = crate::props::c09::transitions(tz, 1900, 2040).into_iter().max_by_key(|t| ((t.after - t.before).abs(), t.t)).map(|t| t.t);
    m.lock().unwrap().insert(tz.name(), best);
    best
}

/// Run the whole battery on one expression text. `level`: 0 = naive contexts only,
/// 1 = + time zones and coordinates (bounded), 2 = + unbounded calls in time-zone contexts.
pub fn evaluate(text: &str, level: u8, base_budget: i64, sweep_step: i64, acc: &mut Acc) -> u64 {
    // base_budget == 0: no unbounded long-horizon call at all for this expression (7 expressions out of 8 in the
    // quick tier, 3 out of 4 in the thorough tier): one such call can cost 2.9 M schedules whatever the budget
    watch_expr(text);
    let Ok(Ok(oh)) = catch(|| OpeningHours::parse(text)) else { return 0 };
    let mut calls = 0u64;
    let mut budget: i64 = if level >= 2 { base_budget * 8 } else { base_budget };
    let holiday = text.contains("PH") || text.contains("SH");
    // printing / normalising
    {
        let mut c = Call { text, ctx: "default", acc, calls: 0, long: true, long_budget: &mut budget, bounded: true };
        c.run("to_string", String::new(), 1, || oh.to_string());
        let n = c.run("normalize", String::new(), 1, || oh.normalize());
        if let Some(n) = n {
            c.run("normalize().to_string", String::new(), 1, || n.to_string());
            c.run("normalize().normalize", String::new(), 1, || n.normalize().to_string());
        }
        calls += c.calls;
    }
    // date sweep: selector arithmetic can panic on particular days only (leap days, Easter
    // positions, year ends): schedule_at on a lattice of days of 1900..2110 (every `sweep_step`-th)
    // and, coarser, of the whole supported range — one catch_unwind around the whole sweep
    {
        let cur = std::cell::Cell::new(ymd(1900, 1, 1));
        let n = std::cell::Cell::new(0u64);
        watch_call("schedule_at sweep");
        let r = catch(|| {
            let mut d = ymd(1900, 1, 1);
            while d <= ymd(2110, 12, 31) {
                cur.set(d);
                n.set(n.get() + 1);
                std::hint::black_box(oh.schedule_at(d));
                d = d + Duration::days(sweep_step);
            }
            let mut d = ymd(2111, 1, 1);
            while d <= ymd(9999, 12, 31) {
                cur.set(d);
                n.set(n.get() + 1);
                std::hint::black_box(oh.schedule_at(d));
                d = d + Duration::days(sweep_step * 53);
            }
        });
        watch_done();
        calls += n.get();
        if let Err(p) = r {
            acc.violate(Violation::new(
                "panic",
                vec![format!("at:{}", p.loc), "call:schedule_at".to_string()],
                json!({"expr": text, "ctx": "default", "call": "schedule_at", "arg": cur.get().to_string(), "at": p.loc}),
                format!("`{text}` [default] schedule_at({}) panicked: {} at {}", cur.get(), p.msg, p.loc),
            ));
        }
    }
    let naive: Vec<(String, NaiveDateTime)> = naive_instants().into_iter().map(|t| (fmt_dt(t), t)).collect();
    let syn_holidays = synthetic_holidays();
    // naive contexts: (name, holidays, bound)
    let mut plans: Vec<(&str, ContextHolidays, Option<Duration>)> = vec![
        ("default", ContextHolidays::default(), Some(Duration::days(1))),
        ("default", ContextHolidays::default(), Some(Duration::days(366))),
        ("default", ContextHolidays::default(), None),
        // bounds at the limits of the type (the early-exit arithmetic adds a day to the bound)
        ("default", ContextHolidays::default(), Some(Duration::MAX)),
        ("default", ContextHolidays::default(), Some(Duration::zero())),
        ("default", ContextHolidays::default(), Some(Duration::MIN)),
    ];
    if holiday {
        plans.push(("synthetic", syn_holidays.clone(), Some(Duration::days(366))));
        plans.push(("synthetic", syn_holidays.clone(), None));
        // a calendar holding NaiveDate::MIN and MAX (524 k years wide): every hint scans it, so
        // only the one-day bound is affordable
        plans.push(("extreme-calendar", extreme_calendar(), Some(Duration::days(1))));
    }
    for (cname, hol, b) in plans {
        let mut ctx = Context::default().with_holidays(hol);
        if let Some(b) = b {
            ctx = ctx.approx_bound_interval_size(b);
        }
        let name = format!("{cname}{}", b.map(|x| format!("+bound{}d", x.num_days())).unwrap_or_default());
        let inst: Vec<(String, NaiveDateTime)> = if cname == "extreme-calendar" { naive.iter().step_by(3).cloned().collect() } else { naive.clone() };
        let mut c = Call { text, ctx: &name, acc, calls: 0, long: true, long_budget: &mut budget, bounded: b.map(|x| x <= Duration::days(400)).unwrap_or(false) };
        battery(&oh.clone().with_context(ctx), &inst, &mut c);
        calls += c.calls;
    }
    if level >= 1 {
        for tz in [chrono_tz::UTC, chrono_tz::Europe::Paris, chrono_tz::Pacific::Apia, chrono_tz::America::St_Johns] {
            for b in [Some(Duration::days(366)), None] {
                if b.is_none() && level < 2 {
                    continue;
                }
                let mut ctx = Context::default().with_holidays(syn_holidays.clone()).with_locale(TzLocation::new(tz));
                if let Some(b) = b {
                    ctx = ctx.approx_bound_interval_size(b);
                }
                let name = format!("tz:{}{}", tz.name(), if b.is_some() { "+bound366d" } else { "" });
                let mut c = Call { text, ctx: &name, acc, calls: 0, long: true, long_budget: &mut budget, bounded: b.is_some() };
                battery(&oh.clone().with_context(ctx), &tz_instants(tz), &mut c);
                calls += c.calls;
            }
        }
        for (lat, lon) in [(0.0, 0.0), (90.0, 0.0), (-90.0, 0.0), (0.0, 180.0), (0.0, -180.0), (89.9, 179.9), (48.85, 2.35), (78.0, 15.0), (-54.8, -68.3)] {
            let Some(coords) = Coordinates::new(lat, lon) else { continue };
            let name = format!("coords:({lat},{lon})+bound366d");
            let built = catch(|| Context::from_coords(coords));
            let ctx = match built {
                Ok(c) => c.approx_bound_interval_size(Duration::days(366)),
                Err(p) => {
                    acc.violate(Violation::new("panic", vec![format!("at:{}", p.loc), "call:Context::from_coords".into()], json!({"expr": text, "ctx": name, "call": "Context::from_coords", "at": p.loc}), format!("Context::from_coords({lat}, {lon}) panicked: {} at {}", p.msg, p.loc)));
                    continue;
                }
            };
            let tz = *ctx.locale.get_timezone();
            let mut c = Call { text, ctx: &name, acc, calls: 0, long: true, long_budget: &mut budget, bounded: true };
            battery(&oh.clone().with_context(ctx), &tz_instants(tz), &mut c);
            calls += c.calls;
        }
    }
    calls
}

fn fnv(s: &str) -> u64 {
    let mut h: u64 = 0xcbf29ce484222325;
    for b in s.bytes() {
        h ^= b as u64;
        h = h.wrapping_mul(0x100000001b3);
    }
    h
}

fn has_event(text: &str) -> bool {
    ["sunrise", "sunset", "dawn", "dusk"].iter().any(|e| text.contains(e))
}

pub fn run(cfg: &Cfg) -> Outcome {
    start_watchdog();
    let t_start = std::time::Instant::now();
    let max_tokens = if cfg.quick() { 4 } else { 5 };
    let n = TOKENS.len();
    // (i) token strings, sharded by the first two tokens
    let shards: Vec<(usize, usize)> = (0..n).flat_map(|a| (0..n).map(move |b| (a, b))).collect();
    let results: Vec<(Acc, Vec<String>)> = shards
        .par_iter()
        .map(|(a, b)| {
            let mut acc = Acc::new();
            let mut parsed: Vec<String> = Vec::new();
            let mut seen: HashSet<String> = HashSet::new();
            let mut try_str = |s: &str, acc: &mut Acc, keep: bool| {
                acc.add("strings_parsed", 1);
                if let Some(e) = parse_guard(s, acc) {
                    acc.add("strings_accepted", 1);
                    if keep && seen.insert(format!("{e:?}")) {
                        parsed.push(s.to_string());
                    }
                }
            };
            let base = format!("{}{}", TOKENS[*a], TOKENS[*b]);
            if *b == 0 {
                try_str(TOKENS[*a], &mut acc, true);
            }
            try_str(&base, &mut acc, true);
            if max_tokens >= 3 {
                for c in 0..n {
                    let s3 = format!("{base}{}", TOKENS[c]);
                    try_str(&s3, &mut acc, true);
                    if max_tokens >= 4 {
                        for d in 0..n {
                            let s4 = format!("{s3}{}", TOKENS[d]);
                            // battery on 4-token expressions only in the thorough tier
                            try_str(&s4, &mut acc, max_tokens >= 5);
                            if max_tokens >= 5 {
                                for e in 0..n {
                                    let s5 = format!("{s4}{}", TOKENS[e]);
                                    try_str(&s5, &mut acc, false);
                                }
                            }
                        }
                    }
                }
            }
            (acc, parsed)
        })
        .collect();
    let mut acc = Acc::new();
    let mut to_eval: Vec<String> = vec![String::new()];
    for (a, p) in results {
        acc.merge(a);
        to_eval.extend(p);
    }
    eprintln!("C04: token strings done at {:.1}s", t_start.elapsed().as_secs_f64());
    // (ii) near-valid strings
    let mut bases: Vec<String> = Vec::new();
    for (i, e) in al::e1(1).iter().enumerate() {
        if cfg.quick() && i % 6 != 0 {
            continue;
        }
        if let Some(t) = canon(e) {
            bases.push(t);
        }
    }
    bases.extend(al::corpus(&cfg.repo));
    let near: Vec<(Acc, Vec<String>)> = bases
        .par_chunks(16)
        .map(|chunk| {
            let mut acc = Acc::new();
            let mut parsed = Vec::new();
            for b in chunk {
                let toks = tokenize(b);
                let mut variants: Vec<String> = Vec::new();
                for i in 0..toks.len() {
                    let join = |v: &[String]| v.concat();
                    let mut del = toks.clone();
                    del.remove(i);
                    variants.push(join(&del));
                    let mut dup = toks.clone();
                    dup.insert(i, toks[i].clone());
                    variants.push(join(&dup));
                    for t in TOKENS {
                        let mut rep = toks.clone();
                        rep[i] = t.to_string();
                        variants.push(join(&rep));
                    }
                }
                for v in variants.iter() {
                    acc.add("strings_parsed", 1);
                    acc.add("near_valid_strings", 1);
                    if let Some(e) = parse_guard(v, &mut acc) {
                        acc.add("strings_accepted", 1);
                        // a seventh of the accepted variants goes through the battery, chosen by a
                        // hash of the parsed value (an index stride aliased with the number of
                        // tokens: 2 + 47 variants per position is a multiple of 7)
                        if fnv(&format!("{e:?}")) % 7 == 0 {
                            parsed.push(v.clone());
                        }
                    }
                }
                parsed.push(b.clone());
            }
            (acc, parsed)
        })
        .collect();
    for (a, p) in near {
        acc.merge(a);
        to_eval.extend(p);
    }
    eprintln!("C04: near-valid strings done at {:.1}s", t_start.elapsed().as_secs_f64());
    // (iii) numeric limits
    for s in numeric_limit_strings() {
        acc.add("strings_parsed", 1);
        if parse_guard(&s, &mut acc).is_some() {
            acc.add("strings_accepted", 1);
            to_eval.push(s);
        }
    }
    // dedup by AST
    let mut seen: HashSet<String> = HashSet::new();
    let mut uniq: Vec<String> = Vec::new();
    for s in to_eval {
        if let Ok(e) = opening_hours_syntax::parse(&s) {
            if seen.insert(format!("{e:?}")) {
                uniq.push(s);
            }
        }
    }
    acc.add("distinct_expressions_evaluated", uniq.len() as u64);
    eprintln!("C04: {} strings parsed, {} distinct expressions to evaluate", acc.get("strings_parsed"), uniq.len());
    let limit_strings: HashSet<String> = numeric_limit_strings().into_iter().collect();
    let evals: Vec<Acc> = uniq
        .par_iter()
        .enumerate()
        .with_max_len(4)
        .map(|(i, s)| {
            let mut acc = Acc::new();
            // level: limit strings and event expressions always get time zones and coordinates;
            // the rest every 5th (quick) / every one (thorough)
            let level = if limit_strings.contains(s) {
                2
            } else if (has_event(s) && (!cfg.quick() || i % 4 == 0)) || i % (if cfg.quick() { 25 } else { 3 }) == 0 {
                1
            } else {
                0
            };
            let budget = if level >= 2 || i % (if cfg.quick() { 8 } else { 4 }) == 0 { if cfg.quick() { 800_000 } else { 6_000_000 } } else { 0 };
            let calls = evaluate(s, level, budget, if cfg.quick() { 29 } else { 1 }, &mut acc);
            acc.add("api_calls", calls);
            acc
        })
        .collect();
    for a in evals {
        acc.merge(a);
    }
    eprintln!("C04: battery done at {:.1}s", t_start.elapsed().as_secs_f64());
    let sp = acc.get("strings_parsed");
    let ac = acc.get("api_calls");
    acc.add("evaluations", sp + ac);
    acc.add("distinct_nontrivial", uniq.len() as u64);
    acc.sample(json!({"string": "Mo[1]é"}));
    acc.sample(json!({"string": format!("{}{}{}", TOKENS[20], TOKENS[9], TOKENS[16]), "note": "week 53"}));
    acc.sample(json!({"limit": "PH -9223372036854775807 days 04:00-48:00"}));
    acc.sample(json!({"battery_on": uniq.iter().skip(uniq.len() / 2).take(3).collect::<Vec<_>>()}));
    let mut o = Outcome::new("exploration", acc);
    o.exhaustive = false;
    o.cov("token_alphabet", json!(TOKENS.to_vec()));
    o.cov("max_tokens", json!(max_tokens));
    o.cov("rule", json!("exhaustive over a stated finite space (the property quantifies over all strings, so no finite enumeration is complete): every string of ≤ max_tokens tokens over the 47-token alphabet; every single-token deletion/duplication/replacement of E1 ∪ S; numeric fields at their limits; parse under catch_unwind. Every distinct parsed expression (by AST; 4-token strings only in the thorough tier) goes through the battery: to_string, normalize (twice), schedule_at on 11 dates and on every 29th (quick) / every (thorough) day of 1900..2110 plus a 53× coarser lattice to 9999, state/is_*/next_change/iter_from/iter_range at 11 naive instants (MIN, MAX, both range ends…) in default/synthetic/extreme-calendar contexts × {no bound, 1 d, 366 d}, and (for event/limit expressions and a fixed fifth of the rest in quick, all in thorough) 4 time zones and 9 coordinate contexts incl. poles and antimeridian at 8 aware instants. Oracle: no panic; ≤ one schedule_at per day of the supported range per call (H1 counter). distinct_nontrivial = distinct parsed expressions evaluated"));
    o.assume("catch_unwind catches every panic (panic=unwind build); aborts (stack overflow, allocation failure) would kill the engine and surface as a machinery failure, not a pass");
    o
}

pub fn replay(_cfg: &Cfg, case: &Value) -> Vec<Violation> {
    start_watchdog();
    let mut acc = Acc::new();
    if let Some(s) = case.get("str").and_then(|v| v.as_str()) {
        parse_guard(s, &mut acc);
    }
    if let Some(text) = case.get("expr").and_then(|v| v.as_str()) {
        evaluate(text, 2, 12_000_000, 1, &mut acc);
    }
    let want_call = case.get("call").and_then(|v| v.as_str()).map(|s| format!("call:{s}"));
    let want_at = case.get("at").and_then(|v| v.as_str()).map(|s| format!("at:{s}"));
    acc.groups
        .into_values()
        .flat_map(|g| g.examples)
        .filter(|v| want_call.as_ref().map(|w| v.features.contains(w)).unwrap_or(true))
        .filter(|v| want_at.as_ref().map(|w| v.features.contains(w)).unwrap_or(true))
        .collect()
}
