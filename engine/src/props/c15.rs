//! C15 — CompactCalendar is a faithful set of dates, also across serialization.
//!
//! Explicit-state exploration of the real `CompactCalendar`: every insertion history (duplicates
//! allowed) over a collision-forcing date alphabet up to a depth bound is executed on the real
//! structure next to a `BTreeSet`; in every reached state the whole query battery is compared with
//! the set, the calendar is compared (==, Hash, Ord) with the calendar built from the same set in
//! sorted order (so states merged by "same set" are shown to be observably equal), and it is
//! serialised / deserialised alone, with trailing junk, and concatenated with its parent state.
//! CompactMonth / CompactYear: all subsets of ≤ 3 of the 31 days × all queries.

use crate::report::{par_shards, Acc, Outcome, Violation};
use crate::util::{catch, ymd};
use crate::Cfg;
use chrono::{Datelike, NaiveDate};
use compact_calendar::{CompactCalendar, CompactMonth, CompactYear};
use serde_json::{json, Value};
use std::collections::hash_map::DefaultHasher;
use std::collections::{BTreeSet, HashSet};
use std::hash::{Hash, Hasher};
use std::io::Read;
use std::ops::Bound::{Excluded, Unbounded};

fn alphabet(cfg: &Cfg) -> Vec<NaiveDate> {
    let mut d = vec![
        ymd(2000, 1, 1),
        ymd(2000, 1, 31),
        ymd(2000, 2, 29),
        ymd(2000, 12, 31),
        ymd(2001, 1, 1),
        ymd(2003, 6, 15),
        ymd(1998, 12, 31),
        ymd(0, 3, 1),
        ymd(-1, 12, 31),
    ];
    if !cfg.quick() {
        d.push(ymd(1970, 1, 30));
        d.push(ymd(2000, 1, 30));
    }
    d
}

fn queries(alpha: &[NaiveDate], extremes: bool) -> Vec<NaiveDate> {
    let mut q = BTreeSet::new();
    for d in alpha {
        for x in [d.pred_opt(), Some(*d), d.succ_opt()].into_iter().flatten() {
            q.insert(x);
        }
        for dy in [-1, 0, 1] {
            if let Some(a) = NaiveDate::from_ymd_opt(d.year() + dy, 1, 1) {
                q.insert(a);
            }
            if let Some(a) = NaiveDate::from_ymd_opt(d.year() + dy, 12, 31) {
                q.insert(a);
            }
        }
    }
    if extremes {
        q.insert(NaiveDate::MIN);
        q.insert(NaiveDate::MAX);
    }
    q.into_iter().collect()
}

fn hash_of<T: Hash>(t: &T) -> u64 {
    let mut h = DefaultHasher::new();
    t.hash(&mut h);
    h.finish()
}

fn hist_json(h: &[NaiveDate]) -> Value {
    json!(h.iter().map(|d| d.to_string()).collect::<Vec<_>>())
}

fn viol(kind: &str, hist: &[NaiveDate], extra: Value, detail: String) -> Violation {
    Violation::new(kind, vec![], json!({"history": hist_json(hist), "extra": extra}), detail)
}

/// Compare one reached state with the reference set. Returns number of agreeing observations.
fn check_state(cal: &CompactCalendar, set: &BTreeSet<NaiveDate>, hist: &[NaiveDate], qs: &[NaiveDate], acc: &mut Acc) -> u64 {
    let mut ok = 0u64;
    // queries
    for q in qs {
        let c = cal.contains(*q);
        if c != set.contains(q) {
            acc.violate(viol("contains", hist, json!({"q": q.to_string()}), format!("contains({q}) = {c} after {:?}", hist)));
        } else {
            ok += 1;
        }
        let fa = cal.first_after(*q);
        let exp = set.range((Excluded(*q), Unbounded)).next().copied();
        if fa != exp {
            acc.violate(viol("first_after", hist, json!({"q": q.to_string()}), format!("first_after({q}) = {fa:?}, expected {exp:?} after {:?}", hist)));
        } else {
            ok += 1;
        }
        // year_for must expose the year of any member, and agree with contains
        if let Some(y) = cal.year_for(*q) {
            if y.contains(q.month(), q.day()) != set.contains(q) {
                acc.violate(viol("year_for", hist, json!({"q": q.to_string()}), format!("year_for({q}).contains disagrees with the set after {:?}", hist)));
            }
        } else if set.iter().any(|d| d.year() == q.year()) {
            acc.violate(viol("year_for", hist, json!({"q": q.to_string()}), format!("year_for({q}) is None although the year holds a member after {:?}", hist)));
        }
    }
    // count, iter
    let items: Vec<NaiveDate> = cal.iter().collect();
    let exp: Vec<NaiveDate> = set.iter().copied().collect();
    if items != exp {
        acc.violate(viol("iter", hist, json!({}), format!("iter() = {items:?}, expected {exp:?}")));
    } else {
        ok += 1;
    }
    if cal.count() as usize != set.len() {
        acc.violate(viol("count", hist, json!({}), format!("count() = {}, expected {}", cal.count(), set.len())));
    } else {
        ok += 1;
    }
    // equality with the calendar built in sorted order and via FromIterator in history order
    let mut sorted = CompactCalendar::default();
    for d in set {
        sorted.insert(*d);
    }
    let mut rev = CompactCalendar::default();
    for d in set.iter().rev() {
        rev.insert(*d);
    }
    let from_iter: CompactCalendar = hist.iter().copied().collect();
    for (name, other) in [("sorted", &sorted), ("reverse-sorted", &rev), ("from_iter", &from_iter)] {
        if cal != other || other != cal {
            acc.violate(viol("eq_is_not_set_eq", hist, json!({"other": name}), format!("calendar built by {:?} != calendar built from the same set in {name} order", hist)));
        } else if hash_of(cal) != hash_of(other) {
            acc.violate(viol("hash_not_consistent_with_eq", hist, json!({"other": name}), format!("equal calendars hash differently ({name})")));
        } else if cal.cmp(other) != std::cmp::Ordering::Equal {
            acc.violate(viol("ord_not_consistent_with_eq", hist, json!({"other": name}), format!("equal calendars compare {:?} ({name})", cal.cmp(other))));
        } else {
            ok += 1;
        }
    }
    // Debug must not panic (used in error messages)
    if let Err(p) = catch(|| format!("{cal:?}")) {
        acc.violate(viol("debug_panic", hist, json!({}), format!("panic {} at {}", p.msg, p.loc)));
    }
    // serialisation round trip with trailing junk
    let mut bytes = Vec::new();
    if cal.serialize(&mut bytes).is_err() {
        acc.violate(viol("serialize_err", hist, json!({}), "serialize to Vec failed".into()));
        return ok;
    }
    // the same through writers that accept only a few bytes per `write` call (allowed by the io::Write
    // contract: pipes, sockets, nearly full buffers): exactly the same bytes must arrive
    for chunk in [1usize, 3, 16, 47] {
        struct Short(Vec<u8>, usize);
        impl std::io::Write for Short {
            fn write(&mut self, buf: &[u8]) -> std::io::Result<usize> {
                let n = buf.len().min(self.1);
                self.0.extend_from_slice(&buf[..n]);
                Ok(n)
            }
            fn flush(&mut self) -> std::io::Result<()> {
                Ok(())
            }
        }
        let mut w = Short(Vec::new(), chunk);
        let r = cal.serialize(&mut w);
        if r.is_err() || w.0 != bytes {
            acc.violate(viol("serialize_through_short_writer_differs", hist, json!({"chunk": chunk}), format!("serialize into a writer accepting {chunk} bytes per call: {} bytes arrived ({:?}), {} through a Vec", w.0.len(), r.err().map(|e| e.to_string()), bytes.len())));
            return ok;
        }
    }
    let junk = [0xAAu8, 0x55, 0x01];
    let mut stream = bytes.clone();
    stream.extend_from_slice(&junk);
    let mut rd: &[u8] = &stream;
    match catch(|| CompactCalendar::deserialize(&mut rd)) {
        Err(p) => acc.violate(viol("deserialize_panic", hist, json!({}), format!("panic {} at {}", p.msg, p.loc))),
        Ok(Err(e)) => acc.violate(viol("deserialize_err", hist, json!({}), format!("deserialize failed: {e}"))),
        Ok(Ok(back)) => {
            if back != *cal || back.iter().collect::<Vec<_>>() != exp {
                acc.violate(viol("roundtrip_differs", hist, json!({}), format!("deserialize(serialize(c)) != c after {:?}", hist)));
            } else if rd != junk {
                acc.violate(viol("roundtrip_consumed_wrong_length", hist, json!({}), format!("deserialize left {} bytes unread, expected the 3 junk bytes", rd.len())));
            } else {
                ok += 1;
            }
        }
    }
    ok
}

struct Walk<'a> {
    alpha: &'a [NaiveDate],
    qs: &'a [NaiveDate],
    depth: usize,
    states: HashSet<Vec<NaiveDate>>,
    histories: u64,
    transitions: u64,
    validated: u64,
    max_depth: usize,
}

impl Walk<'_> {
    fn go(&mut self, cal: &CompactCalendar, set: &BTreeSet<NaiveDate>, hist: &mut Vec<NaiveDate>, acc: &mut Acc) {
        if hist.len() >= self.depth {
            return;
        }
        for d in self.alpha {
            let mut c2 = cal.clone();
            let mut s2 = set.clone();
            let exp_new = s2.insert(*d);
            hist.push(*d);
            let got = catch(|| {
                let r = c2.insert(*d);
                (r, c2)
            });
            self.transitions += 1;
            match got {
                Err(p) => {
                    acc.violate(viol("insert_panic", hist, json!({}), format!("panic {} at {}", p.msg, p.loc)));
                }
                Ok((r, c2)) => {
                    if r != exp_new {
                        acc.violate(viol("insert_return", hist, json!({}), format!("insert({d}) returned {r}, expected {exp_new}")));
                    }
                    // duplicate insert keeps the calendar equal to its parent; a new date makes it differ
                    if exp_new == (c2 == *cal) {
                        acc.violate(viol("eq_vs_parent", hist, json!({}), format!("after insert({d}) (new={exp_new}) calendar == parent is {}", c2 == *cal)));
                    }
                    self.histories += 1;
                    self.max_depth = self.max_depth.max(hist.len());
                    self.states.insert(s2.iter().copied().collect());
                    match catch(|| {
                        let mut sub = Acc::new();
                        let n = check_state(&c2, &s2, hist, self.qs, &mut sub);
                        (n, sub)
                    }) {
                        Ok((n, sub)) => {
                            self.validated += n;
                            acc.merge(sub);
                        }
                        Err(p) => acc.violate(viol("query_panic", hist, json!({}), format!("a query panicked after {:?}: {} at {}", hist, p.msg, p.loc))),
                    }
                    // two calendars in one stream: parent then child
                    let mut stream = Vec::new();
                    let _ = cal.serialize(&mut stream);
                    let _ = c2.serialize(&mut stream);
                    let mut rd: &[u8] = &stream;
                    let a = CompactCalendar::deserialize(&mut rd);
                    let b = CompactCalendar::deserialize(&mut rd);
                    let mut rest = Vec::new();
                    let _ = rd.read_to_end(&mut rest);
                    match (a, b) {
                        (Ok(a), Ok(b)) if a == *cal && b == c2 && rest.is_empty() => self.validated += 1,
                        _ => acc.violate(viol("concatenated_stream", hist, json!({}), "parent+child serialised in one stream do not come back as the same two calendars".into())),
                    }
                    self.go(&c2, &s2, hist, acc);
                }
            }
            hist.pop();
        }
    }
}

fn explore(alpha: &[NaiveDate], qs: &[NaiveDate], prefix: &[NaiveDate], depth: usize, acc: &mut Acc) -> (u64, u64, u64, usize, HashSet<Vec<NaiveDate>>) {
    let mut cal = CompactCalendar::default();
    let mut set = BTreeSet::new();
    for d in prefix {
        cal.insert(*d);
        set.insert(*d);
    }
    let mut w = Walk { alpha, qs, depth, states: HashSet::new(), histories: 0, transitions: 0, validated: 0, max_depth: 0 };
    let mut hist = prefix.to_vec();
    w.go(&cal, &set, &mut hist, acc);
    (w.histories, w.transitions, w.validated, w.max_depth, w.states)
}

fn check_month_year(acc: &mut Acc) {
    // CompactMonth: all subsets of ≤ 3 days
    let mut subsets: Vec<Vec<u32>> = vec![vec![]];
    for a in 1..=31u32 {
        subsets.push(vec![a]);
        for b in a + 1..=31 {
            subsets.push(vec![a, b]);
            for c in b + 1..=31 {
                subsets.push(vec![a, b, c]);
            }
        }
    }
    for days in &subsets {
        let mut m = CompactMonth::default();
        let mut set = BTreeSet::new();
        // insert in reverse order, with one duplicate
        for d in days.iter().rev().chain(days.first()) {
            let r = m.insert(*d);
            if r != set.insert(*d) {
                acc.violate(Violation::new("month_insert", vec![], json!({"days": days, "d": d}), format!("CompactMonth::insert({d}) returned {r}")));
            }
        }
        let ok_basic = m.iter().collect::<Vec<_>>() == set.iter().copied().collect::<Vec<_>>()
            && m.count() as usize == set.len()
            && m.first() == set.iter().next().copied();
        if !ok_basic {
            acc.violate(Violation::new("month_iter", vec![], json!({"days": days}), format!("CompactMonth {days:?}: iter {:?} count {} first {:?}", m.iter().collect::<Vec<_>>(), m.count(), m.first())));
        }
        for q in 1..=31u32 {
            let fa = m.first_after(q);
            let exp = set.range((Excluded(q), Unbounded)).next().copied();
            if fa != exp || m.contains(q) != set.contains(&q) {
                acc.violate(Violation::new("month_query", vec![], json!({"days": days, "q": q}), format!("CompactMonth {days:?}: first_after({q}) = {fa:?} expected {exp:?}; contains = {}", m.contains(q))));
            } else {
                acc.add("traces_validated_against_impl", 1);
            }
        }
        acc.add("evaluations", 31);
        let mut bytes = Vec::new();
        let _ = m.serialize(&mut bytes);
        let back = CompactMonth::deserialize(&bytes[..]);
        if bytes.len() != 4 || back.ok() != Some(m) {
            acc.violate(Violation::new("month_roundtrip", vec![], json!({"days": days}), "CompactMonth serialize/deserialize".into()));
        }
    }
    acc.add("month_states", subsets.len() as u64);
    // CompactYear: subsets of ≤ 3 over a (month, day) alphabet × all 372 queries
    let md: [(u32, u32); 7] = [(1, 1), (1, 31), (2, 29), (6, 15), (6, 16), (12, 1), (12, 31)];
    let mut ysubs: Vec<Vec<(u32, u32)>> = vec![vec![]];
    for i in 0..md.len() {
        ysubs.push(vec![md[i]]);
        for j in i + 1..md.len() {
            ysubs.push(vec![md[i], md[j]]);
            for k in j + 1..md.len() {
                ysubs.push(vec![md[i], md[j], md[k]]);
            }
        }
    }
    for items in &ysubs {
        let mut y = CompactYear::default();
        let mut set = BTreeSet::new();
        for (m, d) in items.iter().rev() {
            let r = y.insert(*m, *d);
            if r != set.insert((*m, *d)) {
                acc.violate(Violation::new("year_insert", vec![], json!({"items": items}), "CompactYear::insert return".into()));
            }
        }
        if y.iter().collect::<Vec<_>>() != set.iter().copied().collect::<Vec<_>>() || y.count() as usize != set.len() || y.first() != set.iter().next().copied() {
            acc.violate(Violation::new("year_iter", vec![], json!({"items": items}), format!("CompactYear {items:?}: iter {:?}", y.iter().collect::<Vec<_>>())));
        }
        for m in 1..=12u32 {
            for d in 1..=31u32 {
                let fa = y.first_after(m, d);
                let exp = set.range((Excluded((m, d)), Unbounded)).next().copied();
                if fa != exp || y.contains(m, d) != set.contains(&(m, d)) {
                    acc.violate(Violation::new("year_query", vec![], json!({"items": items, "m": m, "d": d}), format!("CompactYear {items:?}: first_after({m},{d}) = {fa:?}, expected {exp:?}")));
                } else {
                    acc.add("traces_validated_against_impl", 1);
                }
            }
        }
        acc.add("evaluations", 372);
        let mut bytes = Vec::new();
        let _ = y.serialize(&mut bytes);
        if bytes.len() != 48 || CompactYear::deserialize(&bytes[..]).ok() != Some(y) {
            acc.violate(Violation::new("year_roundtrip", vec![], json!({"items": items}), "CompactYear serialize/deserialize".into()));
        }
    }
    acc.add("year_states", ysubs.len() as u64);
}

pub fn run(cfg: &Cfg) -> Outcome {
    let alpha = alphabet(cfg);
    let depth = if cfg.quick() { 5 } else { 6 };
    let qs = queries(&alpha, false);
    // shard by the first two insertions
    let mut prefixes: Vec<Vec<NaiveDate>> = Vec::new();
    for a in &alpha {
        for b in &alpha {
            prefixes.push(vec![*a, *b]);
        }
    }
    let mut acc = Acc::new();
    // depth 0, 1, 2 states themselves (the walk from a prefix only checks states *below* it)
    let mut all_states: HashSet<Vec<NaiveDate>> = HashSet::new();
    {
        let (h, t, v, _, st) = explore(&alpha, &qs, &[], 2, &mut acc);
        acc.add("histories", h);
        acc.add("transitions", t);
        acc.add("traces_validated_against_impl", v);
        all_states.extend(st);
    }
    let results: Vec<(Acc, u64, u64, u64, usize, HashSet<Vec<NaiveDate>>)> = {
        use rayon::prelude::*;
        prefixes
            .par_iter()
            .map(|p| {
                let mut a = Acc::new();
                let (h, t, v, md, st) = explore(&alpha, &qs, p, depth, &mut a);
                (a, h, t, v, md, st)
            })
            .collect()
    };
    let mut max_depth = 2;
    for (a, h, t, v, md, st) in results {
        acc.merge(a);
        acc.add("histories", h);
        acc.add("transitions", t);
        acc.add("traces_validated_against_impl", v);
        max_depth = max_depth.max(md);
        all_states.extend(st);
    }
    // extremes: NaiveDate::MIN / MAX, depth ≤ 2 (a 524k-year window is 25 MB)
    {
        let ext = vec![NaiveDate::MIN, NaiveDate::MAX, ymd(2000, 2, 29), ymd(-1, 12, 31)];
        let qx = queries(&ext, true);
        let d = if cfg.quick() { 2 } else { 3 };
        let (h, t, v, _, st) = explore(&ext, &qx, &[], d, &mut acc);
        acc.add("histories", h);
        acc.add("transitions", t);
        acc.add("traces_validated_against_impl", v);
        acc.add("extreme_histories", h);
        all_states.extend(st);
    }
    check_month_year(&mut acc);
    let n_states = all_states.len() as u64 + 1;
    acc.add("states", n_states);
    let hist = acc.get("histories");
    acc.add("evaluations", hist * (2 * qs.len() as u64 + 8));
    acc.add("distinct_nontrivial", n_states - 1);
    acc.sample(json!({"history": ["2000-02-29", "1998-12-31", "2000-02-29"], "queries": qs.len(), "note": "front growth then duplicate"}));
    acc.sample(json!({"history": ["2003-06-15", "-0001-12-31"], "note": "window of 2005 years grown at the front"}));
    acc.sample(json!({"history": [NaiveDate::MIN.to_string(), NaiveDate::MAX.to_string()], "note": "524k-year window"}));
    let mut o = Outcome::new("model_checking", acc);
    o.exhaustive = true;
    o.cov("depth", json!(depth));
    o.cov("max_depth", json!(max_depth));
    o.cov("alphabet", json!(alpha.iter().map(|d| d.to_string()).collect::<Vec<_>>()));
    o.cov("query_dates", json!(qs.len()));
    o.cov("rule", json!("explicit-state: every insertion history (duplicates allowed) over the date alphabet up to the depth bound is executed on the real CompactCalendar; states = distinct date sets reached (canonical form; merging justified by checking ==/Hash/Ord equality with sorted-order, reverse-order and FromIterator builds in every history), transitions = insert calls; every history runs the full query battery (contains/first_after/year_for over the query dates, iter, count, serialize→deserialize with junk, parent+child concatenated). non-trivial = every non-empty state"));
    o.assume("std BTreeSet as the reference; chrono NaiveDate ordering");
    o
}

pub fn replay(cfg: &Cfg, case: &Value) -> Vec<Violation> {
    let mut acc = Acc::new();
    let hist: Vec<NaiveDate> = case
        .get("history")
        .and_then(|v| v.as_array())
        .map(|a| a.iter().filter_map(|x| x.as_str()).filter_map(crate::util::parse_date).collect())
        .unwrap_or_default();
    if hist.is_empty() {
        check_month_year(&mut acc);
    } else {
        let mut all = alphabet(cfg);
        all.extend(hist.iter().copied());
        let qs = queries(&all, hist.iter().any(|d| *d == NaiveDate::MIN || *d == NaiveDate::MAX));
        // replay the history step by step through the same walker (depth = len, alphabet = the step)
        let mut cal = CompactCalendar::default();
        let mut set = BTreeSet::new();
        for i in 0..hist.len() {
            let step = [hist[i]];
            let mut w = Walk { alpha: &step, qs: &qs, depth: i + 1, states: HashSet::new(), histories: 0, transitions: 0, validated: 0, max_depth: 0 };
            let mut h = hist[..i].to_vec();
            w.go(&cal, &set, &mut h, &mut acc);
            cal.insert(hist[i]);
            set.insert(hist[i]);
        }
    }
    acc.groups.into_values().flat_map(|g| g.examples).collect()
}
