//! C17 — Comments are well-formed and come from the rule in effect.
//!
//! Comment family K: pairs and triples of rules (all separators) with comments assigned from
//! {none, "a", "b"} on every subset of rules (duplicates across rules included, plus rules with
//! two comments) × every day of the window × start instants. Oracle: the reference model M with
//! provenance (which rule wrote each minute, which minutes each rule covers on its own).

use crate::ctx::{self, Ctx};
use crate::features;
use crate::gen::alphabet as al;
use crate::gen::ast::*;
use crate::gen::print::canon;
use crate::model::{kind_code, Evaluator, Events, ModelCtx};
use crate::report::{Acc, Outcome, Violation};
use crate::util::{catch, fmt_dt, parse_date, ymd};
use crate::windows;
use crate::Cfg;
use chrono::{Duration, NaiveDate, NaiveDateTime};
use opening_hours::OpeningHours;
use rayon::prelude::*;
use serde_json::{json, Value};
use std::collections::BTreeSet;

fn base_rules() -> Vec<RuleSequence> {
    use chrono::Weekday::*;
    let ts = al::times();
    let m = al::modifiers();
    let d = |w: Vec<WeekDayRange>| DaySelector { weekday: w, ..Default::default() };
    let none = DaySelector::default();
    vec![
        al::mk_rule(&none, &[], &m[0]),
        al::mk_rule(&none, &ts[1], &m[0]),
        al::mk_rule(&none, &ts[1], &m[2]),
        al::mk_rule(&none, &ts[2], &m[0]),
        al::mk_rule(&none, &ts[3], &m[0]),
        al::mk_rule(&none, &ts[14], &m[0]),
        al::mk_rule(&none, &ts[16], &m[1]),
        al::mk_rule(&none, &ts[7], &m[2]),
        al::mk_rule(&d(vec![wd(Mon, Fri)]), &ts[1], &m[0]),
        al::mk_rule(&d(vec![wd(Mon, Fri)]), &ts[15], &m[0]),
        al::mk_rule(&d(vec![wd(Mon, Mon)]), &ts[3], &m[2]),
        al::mk_rule(&d(vec![wd(Sat, Sun)]), &[], &m[1]),
        al::mk_rule(&d(vec![wd(Sat, Sun)]), &ts[2], &m[0]),
        al::mk_rule(&d(vec![hol(HolidayKind::Public, 0)]), &[], &m[1]),
        al::mk_rule(&d(vec![hol(HolidayKind::Public, 0)]), &ts[16], &m[0]),
        al::mk_rule(&DaySelector { monthday: vec![md_month(1, 1, None)], ..Default::default() }, &ts[1], &m[0]),
        al::mk_rule(&DaySelector { monthday: vec![md_single(fixed(None, 7, 22), off0())], ..Default::default() }, &ts[6], &m[0]),
        al::mk_rule(&DaySelector { year: vec![yr(2020, 2022, 1)], ..Default::default() }, &ts[16], &m[2]),
        al::mk_rule(&d(vec![wd_nth(Mon, &[1], 0)]), &ts[1], &m[0]),
        al::mk_rule(&none, &ts[10], &m[0]),
    ]
}

fn with_comments(r: &RuleSequence, cs: &[&str]) -> RuleSequence {
    let mut r = r.clone();
    r.comments = comments(cs);
    r
}

const ASSIGN: [&[&str]; 3] = [&[], &["a"], &["b"]];

pub fn family(cfg: &Cfg) -> Vec<OpeningHoursExpression> {
    let base = base_rules();
    let mut out = Vec::new();
    let stride = if cfg.quick() { 2 } else { 1 };
    let mut k = 0usize;
    for a in &base {
        for b in &base {
            for op in al::OPERATORS {
                for ca in ASSIGN {
                    for cb in ASSIGN {
                        k += 1;
                        if k % stride != 0 {
                            continue;
                        }
                        out.push(expr(vec![with_comments(a, ca), with_op(with_comments(b, cb), op)]));
                    }
                }
            }
        }
    }
    // two comments on one rule (only expressible on rules without wide-range selectors)
    for a in base.iter().filter(|r| r.day_selector.year.is_empty() && r.day_selector.monthday.is_empty() && r.day_selector.week.is_empty() && !(r.day_selector.is_empty() && r.time_selector == TimeSelector::default())) {
        out.push(expr(vec![with_comments(a, &["x", "y"])]));
        for b in base.iter().step_by(3) {
            for op in al::OPERATORS {
                out.push(expr(vec![with_comments(a, &["x", "y"]), with_op(with_comments(b, &["x"]), op)]));
            }
        }
    }
    // triples
    let small: Vec<&RuleSequence> = base.iter().step_by(if cfg.quick() { 4 } else { 2 }).collect();
    let stride3 = if cfg.quick() { 23 } else { 2 };
    let mut k = 0usize;
    for a in &small {
        for b in &small {
            for c in &small {
                for op1 in al::OPERATORS {
                    for op2 in al::OPERATORS {
                        for ca in ASSIGN {
                            for cb in ASSIGN {
                                for cc in ASSIGN {
                                    k += 1;
                                    if k % stride3 != 0 {
                                        continue;
                                    }
                                    out.push(expr(vec![with_comments(a, ca), with_op(with_comments(b, cb), op1), with_op(with_comments(c, cc), op2)]));
                                }
                            }
                        }
                    }
                }
            }
        }
    }
    out
}

fn sorted_unique(cs: &[String]) -> bool {
    cs.windows(2).all(|w| w[0] < w[1])
}

pub fn check_expr(text: &str, e: &OpeningHoursExpression, c: &Ctx, blocks: &[(NaiveDate, NaiveDate)], only: Option<NaiveDate>, acc: &mut Acc) -> bool {
    let Ok(Ok(oh)) = catch(|| OpeningHours::parse(text)) else {
        acc.add("rejected_by_parser", 1);
        return false;
    };
    let oh = oh.with_context(c.real.clone());
    let feats = features::of_expr(e);
    let all_comments: BTreeSet<String> = e.rules.iter().flat_map(|r| r.comments.iter().map(|c| c.to_string())).collect();
    let mctx = ModelCtx { public: &c.public, school: &c.school, events: Events::Fixed };
    let mut ev = Evaluator::new(e, &mctx);
    let viol = |kind: &str, d: NaiveDate, detail: String| Violation::new(kind, feats.clone(), json!({"expr": text, "ctx": c.name, "date": d.to_string()}), format!("`{text}` [{}] on {d}: {detail}", c.name));
    let mut exact_checks = 0u64;
    let mut good = true;
    for (b0, b1) in blocks {
        let mut d = *b0;
        loop {
            if only.map(|x| x == d).unwrap_or(true) {
                acc.add("states", 1);
                let ranges = match catch(|| oh.schedule_at(d).into_iter().collect::<Vec<_>>()) {
                    Ok(r) => r,
                    Err(_) => {
                        acc.add("schedule_at_panics_left_to_C04", 1);
                        return false;
                    }
                };
                let model = ev.day(d);
                for tr in &ranges {
                    let cs: Vec<String> = tr.comments.iter().map(|c| c.to_string()).collect();
                    let (a, b) = (tr.range.start.mins_from_midnight(), tr.range.end.mins_from_midnight());
                    if !sorted_unique(&cs) {
                        acc.violate(viol("comments_not_sorted_unique", d, format!("range {}-{} carries {cs:?}", tr.range.start, tr.range.end)));
                        good = false;
                    } else if let Some(x) = cs.iter().find(|x| !all_comments.contains(*x)) {
                        acc.violate(viol("comment_not_from_any_rule", d, format!("range {}-{} carries {x:?}, the rules only have {all_comments:?}", tr.range.start, tr.range.end)));
                        good = false;
                    }
                    if d < ymd(1900, 1, 1) || d > ymd(9999, 12, 31) {
                        if !cs.is_empty() {
                            acc.violate(viol("comments_outside_supported_range", d, format!("range carries {cs:?}")));
                            good = false;
                        }
                        continue;
                    }
                    let Some(m) = &model else {
                        acc.add("unspecified_skipped", 1);
                        continue;
                    };
                    if m.cover.iter().all(|c| c.is_none()) && !cs.is_empty() {
                        acc.violate(viol("comments_on_day_without_contributing_rule", d, format!("no rule contributes to this day but range {}-{} carries {cs:?}", tr.range.start, tr.range.end)));
                        good = false;
                        continue;
                    }
                    let k = kind_code(tr.kind);
                    if k == 0 || a >= b {
                        continue;
                    }
                    // exactly one writer over the whole range?
                    let w0 = m.writer[a as usize];
                    if w0 < 0 || !(a..b.min(1440)).all(|mi| m.writer[mi as usize] == w0) {
                        continue;
                    }
                    // maximal: neighbours have a different writer or kind (IntoIter merges same kinds)
                    // isolated: no other rule's own cover touches or overlaps [a, b]
                    let r = w0 as usize;
                    let touched = m.cover.iter().enumerate().any(|(i, cv)| i != r && cv.as_ref().map(|v| v.iter().any(|(s, e)| *s <= b && *e >= a && s < e)).unwrap_or(false));
                    if touched {
                        continue;
                    }
                    exact_checks += 1;
                    let exp: Vec<String> = e.rules[r].comments.iter().map(|c| c.to_string()).collect();
                    if cs != exp {
                        acc.violate(viol("isolated_period_has_wrong_comments", d, format!("range {}-{} {:?} is written by rule #{r} alone (comments {exp:?}) and touches no other rule's period, but carries {cs:?}", tr.range.start, tr.range.end, tr.kind)));
                        good = false;
                    }
                }
                // first interval of an iteration started inside this day
                for hm in [(0u32, 0u32), (10, 30), (23, 59)] {
                    let from: NaiveDateTime = d.and_hms_opt(hm.0, hm.1, 0).unwrap();
                    if from < ymd(1900, 1, 1).and_hms_opt(0, 0, 0).unwrap() || d > ymd(9999, 12, 30) {
                        continue;
                    }
                    acc.add("transitions", 1);
                    let first = match catch(|| oh.iter_range(from, from + Duration::days(2)).next()) {
                        Ok(f) => f,
                        Err(_) => {
                            acc.add("iterator_panics_left_to_C04", 1);
                            continue;
                        }
                    };
                    let t = (hm.0 * 60 + hm.1) as u16;
                    let exp = ranges.iter().find(|tr| tr.range.start.mins_from_midnight() <= t && t < tr.range.end.mins_from_midnight());
                    match (first, exp) {
                        (Some(f), Some(x)) => {
                            let fc: Vec<String> = f.comments.iter().map(|c| c.to_string()).collect();
                            if f.comments != x.comments {
                                acc.violate(Violation::new("first_interval_comments_differ_from_schedule_period", feats.clone(), json!({"expr": text, "ctx": c.name, "date": d.to_string(), "from": fmt_dt(from)}), format!("`{text}` [{}] iter_range({}): first interval carries {fc:?}, the schedule period containing the start carries {:?}", c.name, fmt_dt(from), x.comments.iter().map(|c| c.to_string()).collect::<Vec<_>>())));
                                good = false;
                            }
                            if !sorted_unique(&fc) {
                                acc.violate(viol("comments_not_sorted_unique", d, format!("interval carries {fc:?}")));
                                good = false;
                            }
                        }
                        _ => {}
                    }
                }
            }
            if d >= *b1 {
                break;
            }
            d = d.succ_opt().unwrap();
        }
    }
    acc.add("exact_comment_checks", exact_checks);
    good
}

pub fn run(cfg: &Cfg) -> Outcome {
    let fam = family(cfg);
    let ctxs = vec![ctx::empty(), ctx::synthetic()];
    let blocks = if cfg.quick() { vec![(ymd(1899, 12, 30), ymd(1900, 2, 15)), (ymd(2020, 1, 1), ymd(2021, 1, 10)), (ymd(9999, 12, 1), ymd(10000, 1, 2))] } else { windows::w_small_blocks() };
    let accs: Vec<Acc> = fam
        .par_chunks(16)
        .map(|chunk| {
            let mut acc = Acc::new();
            for e in chunk {
                let Some(text) = canon(e) else {
                    acc.add("asts_not_expressible", 1);
                    continue;
                };
                // the model is fed the *parsed* expression (two comments are sorted by the parser)
                let Ok(parsed) = opening_hours_syntax::parse(&text) else { continue };
                let mut ok = true;
                for c in &ctxs {
                    if c.name != "empty" && !features::of_expr(&parsed).iter().any(|f| f == "holiday") {
                        continue;
                    }
                    ok &= check_expr(&text, &parsed, c, &blocks, None, &mut acc);
                }
                acc.add("evaluations", 1);
                if ok {
                    acc.add("traces_validated_against_impl", 1);
                }
                if parsed.rules.iter().any(|r| !r.comments.is_empty()) {
                    acc.add("distinct_nontrivial", 1);
                }
            }
            acc
        })
        .collect();
    let mut acc = Acc::new();
    for a in accs {
        acc.merge(a);
    }
    for i in [1usize, fam.len() / 3, fam.len() / 2, fam.len() - 1] {
        acc.sample(json!({"expr": canon(&fam[i])}));
    }
    let mut o = Outcome::new("model_checking", acc);
    o.exhaustive = true;
    o.cov("family_size", json!(fam.len()));
    o.cov("window_blocks", json!(blocks.iter().map(|(a, b)| format!("{a}..{b}")).collect::<Vec<_>>()));
    o.cov("rule", json!("bounded exhaustive: pairs (20×20 rules × 3 separators × 9 comment assignments) and triples of rules with comments none/a/b on every subset (duplicates across rules included), rules with two comments; every day of the window: every range of schedule_at has sorted, duplicate-free comments taken from the rules; none outside 1900..9999 nor on days to which the model says no rule contributes; an open/unknown range written by exactly one rule whose minutes touch no other rule's own period carries exactly that rule's comments (exact_comment_checks counts these); the first interval of iter_range from 00:00 / 10:30 / 23:59 of every day carries the comments of the schedule period containing the start. states = (expr, ctx, day), transitions = iterations started"));
    o.assume("provenance comes from the reference model M (DESIGN §2.3); merging of comments on overlap/coalescing is deliberately left free, as in the statement");
    o
}

pub fn replay(cfg: &Cfg, case: &Value) -> Vec<Violation> {
    let mut acc = Acc::new();
    let Some(text) = case.get("expr").and_then(|v| v.as_str()) else { return vec![] };
    let c = ctx::by_name(&cfg.repo, case.get("ctx").and_then(|v| v.as_str()).unwrap_or("empty"));
    let Ok(parsed) = opening_hours_syntax::parse(text) else { return vec![] };
    let date = case.get("date").and_then(|v| v.as_str()).and_then(parse_date);
    let blocks = match date {
        Some(d) => vec![(d, d)],
        None => windows::w_small_blocks(),
    };
    check_expr(text, &parsed, &c, &blocks, None, &mut acc);
    acc.groups.into_values().flat_map(|g| g.examples).collect()
}
