//! C16 — The interval-size bound is a sound approximation.
//!
//! Expressions A ∪ E1 (one kind) × bounds B ∈ {1 d, 25 h, 2 d, 7 d, 30 d, 366 d, 3 660 d,
//! 36 600 d} × instants derived from every boundary x of the pointwise oracle P in the window:
//! t ∈ {x − B ± {0, 1 min}, x − (B − 24 h) ± {0, 1 min}, x − 1 min, x, run start, run start +
//! 1 min, the midnights around those}. Oracle: P over the full range gives exact(t).

use crate::ctx::{self, Ctx};
use crate::evalx::{from_min, to_min, Pointwise};
use crate::features;
use crate::gen::alphabet as al;
use crate::gen::print::canon;
use crate::model::kind_code;
use crate::props::c02::Item;
use crate::report::{Acc, Outcome, Violation};
use crate::stream::date_start;
use crate::util::{catch, fmt_dt, parse_dt, ymd};
use crate::windows;
use crate::Cfg;
use chrono::{Duration, NaiveDateTime, TimeDelta};
use opening_hours::{OpeningHours, DATE_END};
use rayon::prelude::*;
use serde_json::{json, Value};
use std::collections::BTreeSet;

pub fn bounds() -> Vec<TimeDelta> {
    vec![
        Duration::days(1),
        Duration::hours(25),
        Duration::hours(30),
        Duration::hours(36),
        Duration::hours(47),
        Duration::days(2),
        Duration::minutes(3 * 1440 + 1),
        Duration::days(7),
        Duration::days(30),
        Duration::days(366),
        Duration::days(3660),
        Duration::days(36600),
    ]
}

fn floor_min(t: NaiveDateTime) -> i64 {
    let m = to_min(t);
    if from_min(m) > t {
        m - 1
    } else {
        m
    }
}

fn viol(kind: &str, it: &Item, c: &Ctx, b: TimeDelta, t: NaiveDateTime, detail: String) -> Violation {
    Violation::new(kind, it.feats.clone(), json!({"expr": it.text, "ctx": c.name, "bound_minutes": b.num_minutes(), "t": fmt_dt(t)}), format!("`{}` [{}] bound {} h at {}: {detail}", it.text, c.name, b.num_hours(), fmt_dt(t)))
}

fn instants_for(p: &Pointwise, b: TimeDelta, quick: bool) -> Vec<NaiveDateTime> {
    let core = windows::w_core_blocks();
    let mut bs: Vec<NaiveDateTime> = Vec::new();
    for s in p.starts.iter().skip(1) {
        let x = from_min(*s);
        if core.iter().any(|(a, e)| *a <= x.date() && x.date() <= *e) {
            bs.push(x);
        }
    }
    let (ce, cl) = if quick { (10, 6) } else { (120, 60) };
    if bs.len() > ce + cl {
        let tail: Vec<_> = bs[bs.len() - cl..].to_vec();
        bs.truncate(ce);
        bs.extend(tail);
    }
    let mut set: BTreeSet<NaiveDateTime> = BTreeSet::new();
    let day = Duration::days(1);
    let min = Duration::minutes(1);
    for x in bs {
        let m = floor_min(x - min);
        let run_start = from_min(p.run_start(m.max(p.lo)));
        let cands = [x - b, x - b - min, x - b + min, x - (b - day), x - (b - day) - min, x - (b - day) + min, x - min, x, run_start, run_start + min];
        for t in cands {
            set.insert(t);
            let midnight = t.date().and_hms_opt(0, 0, 0).unwrap();
            set.insert(midnight);
            set.insert(midnight + day);
            // late in the day: the early-exit arithmetic works on whole days from the start of
            // the schedule period containing t
            set.insert(midnight + Duration::minutes(12 * 60 + 30));
            set.insert(midnight + Duration::hours(18));
            set.insert(midnight + Duration::minutes(23 * 60 + 30));
        }
    }
    set.into_iter().filter(|t| *t >= date_start() && *t < DATE_END).collect()
}

pub fn check_one(oh_plain: &OpeningHours, it: &Item, c: &Ctx, p: &Pointwise, b: TimeDelta, t: NaiveDateTime, acc: &mut Acc) -> bool {
    let oh = oh_plain.clone().with_context(c.real.clone().approx_bound_interval_size(b));
    let m = floor_min(t);
    let ek = p.kind_at(m);
    let e = p.run_end(m);
    let exact: Option<NaiveDateTime> = if e >= p.hi { None } else { Some(from_min(e)).filter(|x| *x < DATE_END) };
    let got = match catch(|| (oh.state(t), oh.next_change(t))) {
        Ok(x) => x,
        Err(pi) => {
            acc.violate(viol("panic_with_bound", it, c, b, t, format!("panicked: {} at {}", pi.msg, pi.loc)));
            return false;
        }
    };
    if kind_code(got.0) != ek {
        acc.violate(viol("state_changed_by_bound", it, c, b, t, format!("state = {:?} with the bound, the daily schedule says kind {}", got.0, ek)));
        return false;
    }
    let nc = got.1;
    // the context reached the other way round — bound first, locale attached afterwards — is the
    // same context: both builders return "this context with one component replaced"
    let other_way = oh_plain.clone().with_context(c.real.clone().approx_bound_interval_size(b).with_locale(opening_hours::localization::NoLocation));
    match catch(|| other_way.next_change(t)) {
        Ok(x) if x == nc => {}
        Ok(x) => {
            acc.violate(viol("bound_lost_by_builder_order", it, c, b, t, format!("context.approx_bound_interval_size(B).with_locale(l): next_change = {:?}; context.with_locale(l).approx_bound_interval_size(B): {:?} (exact answer {:?})", x.map(fmt_dt), nc.map(fmt_dt), exact.map(fmt_dt))));
            return false;
        }
        Err(pi) => {
            acc.violate(viol("panic_with_bound", it, c, b, t, format!("panicked: {} at {}", pi.msg, pi.loc)));
            return false;
        }
    }
    match (nc, exact) {
        (Some(x), Some(ex)) if x == ex => {
            // exact answer: allowed in every case except when it lies more than B ahead
            if ex - t > b {
                acc.violate(viol("bound_not_applied_beyond_B", it, c, b, t, format!("next_change = {} lies {} h after t, more than the bound: expected none", fmt_dt(x), (ex - t).num_hours())));
                return false;
            }
            true
        }
        (Some(x), ex) => {
            let kind = match ex {
                Some(e) if x < e => "bounded_next_change_reports_nonexistent_change",
                Some(_) => "bounded_next_change_later_than_exact",
                None => "bounded_next_change_reports_nonexistent_change",
            };
            acc.violate(viol(kind, it, c, b, t, format!("next_change = {}, exact answer is {:?}", fmt_dt(x), ex.map(fmt_dt))));
            false
        }
        (None, Some(ex)) => {
            if ex - t <= b - Duration::hours(24) {
                acc.violate(viol("bounded_next_change_none_within_B_minus_24h", it, c, b, t, format!("next_change = none although the exact change {} is only {} min after t (bound − 24 h = {} min)", fmt_dt(ex), (ex - t).num_minutes(), (b - Duration::hours(24)).num_minutes())));
                return false;
            }
            true
        }
        (None, None) => true,
    }
}

pub fn check_item(it: &Item, c: &Ctx, quick: bool, acc: &mut Acc) {
    let oh = match catch(|| OpeningHours::parse(&it.text)) {
        Ok(Ok(oh)) => oh,
        _ => {
            acc.add("rejected_by_parser", 1);
            return;
        }
    };
    let ohc = oh.clone().with_context(c.real.clone());
    // P over the whole range when the expression is on the full list, else over 1899..2150
    // (the longest bound is 100 years after the last window instant in 2043)
    let (d0, d1) = if it.full { (ymd(1899, 12, 30), ymd(10000, 1, 2)) } else { (ymd(1899, 12, 30), ymd(2150, 1, 1)) };
    let Ok(p) = catch(|| Pointwise::build(&ohc, d0, d1)) else {
        acc.add("schedule_at_panics_left_to_C04", 1);
        return;
    };
    if p.n_runs() > 1 {
        acc.add("nontrivial_ctx_exprs", 1);
    }
    for b in bounds() {
        let ts = instants_for(&p, b, quick);
        let mut ok = 0u64;
        let mut n = 0u64;
        for t in ts {
            // partial P: only instants whose whole bound horizon lies inside P
            if !it.full && t + b + Duration::days(2) >= from_min(p.hi) {
                continue;
            }
            n += 1;
            if check_one(&oh, it, c, &p, b, t, acc) {
                ok += 1;
            }
        }
        acc.add("states", n);
        acc.add("transitions", n);
        acc.add("evaluations", n);
        acc.add("traces_validated_against_impl", ok);
    }
}

pub fn family(cfg: &Cfg) -> Vec<Item> {
    let mut items = Vec::new();
    let a = [
        "2024-2030Jun", "2020,8000-9000 10:00-22:00", "Mo-Fr 10:00-18:00", "Jan 1", "week 53", "Feb 29", "PH", "24/7", "2030", "2020-2030/3",
        "Su[-1] 22:00-26:00", "easter", "Jul 22 04:00-48:00", "Mo-Fr 10:00-18:00 || unknown", "2020Dec", "2021 Mar 28-Apr 16 off ; Mo-Su 08:00-20:00", "Mo 00:00-24:00 ; Tu-Su 00:00-24:00",
        "Sa[1] 10:00-12:00", "week 01-53/2 Mo", "SH", "Dec 31 22:00-26:00", "2030-2010",
    ];
    for s in a {
        if let Ok(e) = opening_hours_syntax::parse(s) {
            items.push(Item { text: s.to_string(), feats: features::of_expr(&e), full: true, deep: true });
        }
    }
    let mut seen = std::collections::HashSet::new();
    let stride = if cfg.quick() { 13 } else { 1 };
    for (i, e) in al::e1(1).iter().enumerate() {
        if !e.rules[0].comments.is_empty() || i % stride != 0 {
            continue;
        }
        if let Some(text) = canon(e) {
            if seen.insert(text.clone()) {
                items.push(Item { text, feats: features::of_expr(e), full: false, deep: true });
            }
        }
    }
    if !cfg.quick() {
        for s in al::corpus(&cfg.repo) {
            if let Ok(e) = opening_hours_syntax::parse(&s) {
                items.push(Item { text: s, feats: features::of_expr(&e), full: false, deep: true });
            }
        }
    }
    items
}

pub fn run(cfg: &Cfg) -> Outcome {
    let mut items = family(cfg);
    if let Ok(n) = std::env::var("OHMC_LIMIT") {
        items.truncate(n.parse().unwrap_or(usize::MAX));
    }
    let ctxs = vec![ctx::empty(), ctx::country(&cfg.repo, opening_hours::localization::Country::FR, "FR")];
    let work: Vec<(usize, usize)> = (0..items.len()).flat_map(|i| (0..ctxs.len()).map(move |c| (i, c))).collect();
    let accs: Vec<Acc> = work
        .par_iter()
        .with_max_len(1)
        .map(|(i, c)| {
            let mut acc = Acc::new();
            if *c > 0 && !items[*i].feats.iter().any(|f| f == "holiday") {
                return acc;
            }
            check_item(&items[*i], &ctxs[*c], cfg.quick(), &mut acc);
            acc.add("expression_contexts", 1);
            acc
        })
        .collect();
    let mut acc = Acc::new();
    for a in accs {
        acc.merge(a);
    }
    let nt = acc.get("nontrivial_ctx_exprs");
    acc.add("distinct_nontrivial", nt);
    for i in [0usize, 5, items.len() / 2, items.len() - 1] {
        acc.sample(json!({"expr": items[i].text, "bounds_hours": bounds().iter().map(|b| b.num_hours()).collect::<Vec<_>>()}));
    }
    check_tz_bounded(None, &mut acc);
    let mut o = Outcome::new("model_checking", acc);
    o.exhaustive = true;
    o.cov("family_size", json!(items.len()));
    o.cov("bounds_hours", json!(bounds().iter().map(|b| b.num_hours()).collect::<Vec<_>>()));
    o.cov("rule", json!("for every expression × context × bound B: instants derived from every P boundary x of the window (x−B, x−(B−24h), each ±1 min; x−1min; x; run start (+1min); the midnights around them): state with the bound == state without (P); next_change_B ∈ {exact, none}, == exact when exact − t ≤ B − 24 h, == none when exact − t > B or exact is none; never an earlier, later or invented instant. exact(t) comes from P (all 2 958 466 days for the named list A, 1899..2150 for the rest, where only instants whose horizon t+B lies inside P are used). states = (expr, ctx, B, t)"));
    o.assume("P uses the real schedule_at");
    o
}

/// The same clauses in time-zone contexts, around UTC-offset transitions: the bounded answer is compared
/// with the unbounded answer *of the same context* (so the open time-zone findings of C03 cancel out).
/// "At most B − 24 h after" / "more than B after" are only decided when they hold both in absolute time
/// and in wall-clock time (the two differ by the offset change across a transition).
pub fn check_tz_bounded(only: Option<(&str, &str)>, acc: &mut Acc) {
    use chrono::{Offset, TimeZone};
    use chrono_tz::Tz;
    use opening_hours::localization::TzLocation;
    use opening_hours::Context;
    let zones: [Tz; 4] = [chrono_tz::Europe::Paris, chrono_tz::America::New_York, chrono_tz::Australia::Lord_Howe, chrono_tz::Pacific::Apia];
    let exprs = ["Mo-Fr 10:00-18:00", "02:15-02:45", "Su 01:00-03:00 unknown", "Jan 01", "24/7", "week 10 Mo 22:00-26:00", "00:00-24:00; 02:20-02:21 off"];
    let bounds = [Duration::days(1), Duration::hours(25), Duration::hours(36), Duration::days(2), Duration::days(7), Duration::days(366)];
    let wall = |tz: Tz, u: NaiveDateTime| u + Duration::seconds(tz.offset_from_utc_datetime(&u).fix().local_minus_utc() as i64);
    for tz in zones {
        let mut trs = crate::props::c09::transitions(tz, 2024, 2025);
        trs.extend(crate::props::c09::transitions(tz, 2011, 2012).into_iter().filter(|t| (t.after - t.before).abs() > 7200));
        for e in exprs {
            if only.map(|(oe, oz)| oe != e || oz != tz.name()).unwrap_or(false) {
                continue;
            }
            let Ok(oh) = OpeningHours::parse(e) else { continue };
            let plain = oh.clone().with_context(Context::default().with_locale(TzLocation::new(tz)));
            for b in bounds {
                let bounded = oh.clone().with_context(Context::default().with_locale(TzLocation::new(tz)).approx_bound_interval_size(b));
                for tr in &trs {
                    for k in -96i64..=96 {
                        let u = tr.t + Duration::minutes(30 * k);
                        let t = tz.from_utc_datetime(&u);
                        acc.add("tz_bounded_points", 1);
                        acc.add("evaluations", 1);
                        let case = json!({"tz_bounded": true, "expr": e, "tz": tz.name(), "bound_minutes": b.num_minutes(), "utc": fmt_dt(u)});
                        let feats = vec!["tz_context".to_string()];
                        let head = format!("[{}] `{e}` bound {} h at {}Z", tz.name(), b.num_hours(), fmt_dt(u));
                        let r = catch(|| (plain.state(t), bounded.state(t), plain.next_change(t).map(|x| x.naive_utc()), bounded.next_change(t).map(|x| x.naive_utc())));
                        let (s0, s1, n0, n1) = match r {
                            Ok(x) => x,
                            Err(p) => {
                                acc.violate(Violation::new("panic_in_tz_context", feats, case, format!("{head}: panicked: {} at {}", p.msg, p.loc)));
                                continue;
                            }
                        };
                        let mut ok = true;
                        if s0 != s1 {
                            acc.violate(Violation::new("state_changed_by_bound", feats.clone(), case.clone(), format!("{head}: state {s1:?} with the bound, {s0:?} without")));
                            ok = false;
                        }
                        match (n0, n1) {
                            (_, None) => {
                                if let Some(x) = n0 {
                                    let (da, dw) = (x - u, wall(tz, x) - wall(tz, u));
                                    if da <= b - Duration::hours(24) && dw <= b - Duration::hours(24) {
                                        acc.violate(Violation::new("bounded_next_change_none_within_B_minus_24h", feats.clone(), case.clone(), format!("{head}: next_change = none although the exact change {}Z lies {} min after the query", fmt_dt(x), da.num_minutes())));
                                        ok = false;
                                    }
                                }
                            }
                            (Some(x), Some(y)) if x == y => {
                                let (da, dw) = (x - u, wall(tz, x) - wall(tz, u));
                                if da > b && dw > b {
                                    acc.violate(Violation::new("bound_not_applied_beyond_B", feats.clone(), case.clone(), format!("{head}: next_change = {}Z lies {} min after the query, more than the bound: none was expected", fmt_dt(y), da.num_minutes())));
                                    ok = false;
                                }
                            }
                            (exact, Some(y)) => {
                                acc.violate(Violation::new("bounded_next_change_neither_exact_nor_none", feats.clone(), case.clone(), format!("{head}: next_change = {}Z with the bound, {:?}Z without", fmt_dt(y), exact.map(fmt_dt))));
                                ok = false;
                            }
                        }
                        if ok {
                            acc.add("traces_validated_against_impl", 1);
                        }
                    }
                }
            }
        }
    }
}

pub fn replay(cfg: &Cfg, case: &Value) -> Vec<Violation> {
    if case.get("tz_bounded").is_some() {
        let mut acc = Acc::new();
        check_tz_bounded(Some((case.get("expr").and_then(|v| v.as_str()).unwrap_or(""), case.get("tz").and_then(|v| v.as_str()).unwrap_or(""))), &mut acc);
        return acc.groups.into_values().flat_map(|g| g.examples).collect();
    }
    let mut acc = Acc::new();
    let Some(text) = case.get("expr").and_then(|v| v.as_str()) else { return vec![] };
    let c = ctx::by_name(&cfg.repo, case.get("ctx").and_then(|v| v.as_str()).unwrap_or("empty"));
    let it = Item { text: text.to_string(), feats: features::of_str(text), full: true, deep: true };
    let (Some(t), Some(bm)) = (case.get("t").and_then(|v| v.as_str()).and_then(parse_dt), case.get("bound_minutes").and_then(|v| v.as_i64())) else {
        check_item(&it, &c, true, &mut acc);
        return acc.groups.into_values().flat_map(|g| g.examples).collect();
    };
    let Ok(Ok(oh)) = catch(|| OpeningHours::parse(text)) else { return vec![] };
    let ohc = oh.clone().with_context(c.real.clone());
    let Ok(p) = catch(|| Pointwise::build(&ohc, ymd(1899, 12, 30), ymd(10000, 1, 2))) else { return vec![] };
    check_one(&oh, &it, &c, &p, Duration::minutes(bm), t, &mut acc);
    acc.groups.into_values().flat_map(|g| g.examples).collect()
}
