//! C05 — Parser accepts the supported grammar and builds the denoted expression.
//!
//! Sentences of the grammar up to a bound: every AST of the bounded family, printed by the
//! engine's own printer in every combination of the documented syntactic variants that is
//! relevant for that AST; the real parser must return exactly that AST (`==` on the public
//! fields). Negative family: single-field corruptions from the statement's list must be `Err`;
//! points in time and Easter followed by a bare day number must be `Err(Unsupported)`.

use crate::features;
use crate::gen::alphabet as al;
use crate::gen::ast::*;
use crate::gen::print::{print_expr, Style};
use crate::report::{par_shards, Acc, Outcome, Violation};
use crate::util::catch;
use crate::Cfg;
use opening_hours_syntax::Error as PErr;
use serde_json::{json, Value};
use std::collections::BTreeSet;

fn style_fields(st: &Style) -> [u8; 13] {
    [
        st.pad as u8,
        st.closed_word,
        st.explicit_open as u8,
        st.wide_sep,
        st.dash_space as u8,
        st.date_space as u8,
        st.week_style,
        st.hol_sep,
        st.comment_space as u8,
        st.tight_rule_sep as u8,
        st.equal_as_range as u8,
        st.explicit_full_day as u8,
        st.alt_forms as u8,
    ]
}

fn style_from(f: &[u8; 13]) -> Style {
    Style {
        pad: f[0] != 0,
        closed_word: f[1],
        explicit_open: f[2] != 0,
        wide_sep: f[3],
        dash_space: f[4] != 0,
        date_space: f[5] != 0,
        week_style: f[6],
        hol_sep: f[7],
        comment_space: f[8] != 0,
        tight_rule_sep: f[9] != 0,
        equal_as_range: f[10] != 0,
        explicit_full_day: f[11] != 0,
        alt_forms: f[12] != 0,
    }
}

const DOMAIN: [u8; 13] = [2, 2, 2, 3, 2, 2, 3, 2, 2, 2, 2, 2, 2];

/// All distinct renderings of `e` over the full product of style fields. Fields that change
/// nothing (tested from the canonical style and from its complement) are not enumerated.
pub fn variants(e: &OpeningHoursExpression) -> Vec<(String, Style)> {
    let canon = style_fields(&Style::CANON);
    let mut anti = canon;
    for i in 0..13 {
        anti[i] = (canon[i] + 1) % DOMAIN[i];
    }
    let mut relevant = Vec::new();
    for i in 0..13 {
        let mut rel = false;
        for base in [canon, anti] {
            let b = print_expr(e, &style_from(&base));
            for v in 0..DOMAIN[i] {
                let mut f = base;
                f[i] = v;
                if print_expr(e, &style_from(&f)) != b {
                    rel = true;
                }
            }
        }
        if rel {
            relevant.push(i);
        }
    }
    let mut out: Vec<(String, Style)> = Vec::new();
    let mut seen: BTreeSet<String> = BTreeSet::new();
    let mut idx = vec![0u8; relevant.len()];
    loop {
        let mut f = canon;
        for (k, fi) in relevant.iter().enumerate() {
            f[*fi] = (canon[*fi] + idx[k]) % DOMAIN[*fi];
        }
        let st = style_from(&f);
        if let Some(s) = print_expr(e, &st) {
            if seen.insert(s.clone()) {
                out.push((s, st));
            }
        }
        // next combination
        let mut k = 0;
        loop {
            if k == idx.len() {
                return out;
            }
            idx[k] += 1;
            if idx[k] < DOMAIN[relevant[k]] {
                break;
            }
            idx[k] = 0;
            k += 1;
        }
    }
}

pub fn check_positive(s: &str, expected: &OpeningHoursExpression, acc: &mut Acc) -> bool {
    match catch(|| opening_hours_syntax::parse(s)) {
        Err(p) => {
            acc.violate(Violation::new("parse_panic", features::of_expr(expected), json!({"str": s}), format!("parse({s:?}) panicked: {} at {}", p.msg, p.loc)));
            false
        }
        Ok(Err(err)) => {
            acc.violate(Violation::new("valid_sentence_rejected", features::of_expr(expected), json!({"str": s, "expected": format!("{expected:?}")}), format!("parse({s:?}) = Err({}), expected the expression {:?}", short_err(&err), crate::gen::print::canon(expected))));
            false
        }
        Ok(Ok(got)) => {
            if &got != expected {
                acc.violate(Violation::new("wrong_expression_built", features::of_expr(expected), json!({"str": s, "expected": format!("{expected:?}")}), format!("parse({s:?}) built {:?} (prints as {:?}), expected {:?}", diff_hint(&got, expected), got.to_string(), crate::gen::print::canon(expected))));
                false
            } else {
                true
            }
        }
    }
}

fn short_err(e: &PErr) -> String {
    match e {
        PErr::Parser(_) => "Parser(..)".into(),
        other => format!("{other:?}"),
    }
}

fn diff_hint(got: &OpeningHoursExpression, exp: &OpeningHoursExpression) -> String {
    if got.rules.len() != exp.rules.len() {
        return format!("{} rules instead of {}", got.rules.len(), exp.rules.len());
    }
    for (g, e) in got.rules.iter().zip(&exp.rules) {
        if g.day_selector != e.day_selector {
            return format!("day selector {:?} instead of {:?}", g.day_selector, e.day_selector);
        }
        if g.time_selector != e.time_selector {
            return format!("time selector {:?} instead of {:?}", g.time_selector, e.time_selector);
        }
        if g.kind != e.kind {
            return format!("kind {:?} instead of {:?}", g.kind, e.kind);
        }
        if g.operator != e.operator {
            return format!("operator {:?} instead of {:?}", g.operator, e.operator);
        }
        if g.comments != e.comments {
            return format!("comments {:?} instead of {:?}", g.comments, e.comments);
        }
    }
    "?".into()
}

/// Hand-written (sentence, denoted value) pairs for variants the Style table cannot produce.
fn special_positives() -> Vec<(String, OpeningHoursExpression)> {
    use chrono::Weekday::*;
    let o = off0();
    let open = RuleKind::Open;
    let r = |y, m, w, d, t| expr(vec![rule(y, m, w, d, t, open, &[])]);
    vec![
        ("12:00+".into(), r(vec![], vec![], vec![], vec![], vec![span_open_end(tfix(12, 0), tfix(24, 0))])),
        ("dusk-dusk+".into(), r(vec![], vec![], vec![], vec![], vec![span_open_end(tev(TimeEvent::Dusk, 0), tev(TimeEvent::Dusk, 0))])),
        ("May 15-15".into(), r(vec![], vec![md_single(fixed(None, 5, 15), o)], vec![], vec![], vec![])),
        ("May 15-16".into(), r(vec![], vec![md_range(fixed(None, 5, 15), o, fixed(None, 5, 16), o)], vec![], vec![], vec![])),
        ("May 15-14".into(), r(vec![], vec![md_range(fixed(None, 5, 15), o, fixed(None, 6, 14), o)], vec![], vec![], vec![])),
        ("May 15-01".into(), r(vec![], vec![md_range(fixed(None, 5, 15), o, fixed(None, 6, 1), o)], vec![], vec![], vec![])),
        ("Dec 15-01".into(), r(vec![], vec![md_range(fixed(None, 12, 15), o, fixed(None, 1, 1), o)], vec![], vec![], vec![])),
        ("2020 Dec 15-01".into(), r(vec![], vec![md_range(fixed(Some(2020), 12, 15), o, fixed(Some(2021), 1, 1), o)], vec![], vec![], vec![])),
        ("2021 Apr 10-16".into(), r(vec![], vec![md_range(fixed(Some(2021), 4, 10), o, fixed(Some(2021), 4, 16), o)], vec![], vec![], vec![])),
        ("Jan-Jan".into(), r(vec![], vec![md_month(1, 1, None)], vec![], vec![], vec![])),
        ("2020-2020".into(), r(vec![yr(2020, 2020, 1)], vec![], vec![], vec![], vec![])),
        ("Mo-Mo".into(), r(vec![], vec![], vec![], vec![wd(Mon, Mon)], vec![])),
        ("week 5-5".into(), r(vec![], vec![], vec![wk(5, 5, 1)], vec![], vec![])),
        ("week 05".into(), r(vec![], vec![], vec![wk(5, 5, 1)], vec![], vec![])),
        ("Jun 7+Tu".into(), r(vec![], vec![md_single(fixed(None, 6, 7), off_next(Tue))], vec![], vec![], vec![])),
        ("Jun24:00+".into(), r(vec![], vec![md_month(6, 6, None)], vec![], vec![], vec![span_open_end(tfix(24, 0), tfix(24, 0))])),
        ("Mo-Fr 10:00-18:00;Sa-Su 10:00-12:00".into(), expr(vec![
            rule(vec![], vec![], vec![], vec![wd(Mon, Fri)], vec![span(tfix(10, 0), tfix(18, 0))], open, &[]),
            rule(vec![], vec![], vec![], vec![wd(Sat, Sun)], vec![span(tfix(10, 0), tfix(12, 0))], open, &[]),
        ])),
        ("4:00 - 8:00".into(), r(vec![], vec![], vec![], vec![], vec![span(tfix(4, 0), tfix(8, 0))])),
        ("Mo[1,3]".into(), r(vec![], vec![], vec![], vec![wd_nth(Mon, &[1, 3], 0)], vec![])),
        ("Mo[1-2,4]".into(), r(vec![], vec![], vec![], vec![wd_nth(Mon, &[1, 2, 4], 0)], vec![])),
        ("Mo[-1,1]".into(), r(vec![], vec![], vec![], vec![wd_nth(Mon, &[1, -1], 0)], vec![])),
        ("\"only by appointment\"".into(), expr(vec![rule(vec![], vec![], vec![], vec![], vec![], open, &["only by appointment"])])),
        ("Mo-Fr open \"ring the bell\"".into(), expr(vec![rule(vec![], vec![], vec![], vec![wd(Mon, Fri)], vec![], open, &["ring the bell"])])),
        ("closed".into(), expr(vec![rule(vec![], vec![], vec![], vec![], vec![], RuleKind::Closed, &[])])),
        ("24/7 closed".into(), expr(vec![rule(vec![], vec![], vec![], vec![], vec![], RuleKind::Closed, &[])])),
        ("00:00-24:00".into(), expr(vec![rule(vec![], vec![], vec![], vec![], vec![], open, &[])])),
        ("easter".into(), r(vec![], vec![md_single(easter(None), o)], vec![], vec![], vec![])),
        ("easter -1 day".into(), r(vec![], vec![md_single(easter(None), off_days(-1))], vec![], vec![], vec![])),
        ("sunrise-sunset".into(), r(vec![], vec![], vec![], vec![], vec![span(tev(TimeEvent::Sunrise, 0), tev(TimeEvent::Sunset, 0))])),
        ("(sunrise+01:00)-(sunset-01:30)".into(), r(vec![], vec![], vec![], vec![], vec![span(tev(TimeEvent::Sunrise, 60), tev(TimeEvent::Sunset, -90))])),
        ("dawn-dusk".into(), r(vec![], vec![], vec![], vec![], vec![span(tev(TimeEvent::Dawn, 0), tev(TimeEvent::Dusk, 0))])),
        ("10:00-12:00/30".into(), r(vec![], vec![], vec![], vec![], vec![TimeSpan { range: tfix(10, 0)..tfix(12, 0), open_end: false, repeats: Some(chrono::Duration::minutes(30)) }])),
        ("10:00-16:00/01:30".into(), r(vec![], vec![], vec![], vec![], vec![TimeSpan { range: tfix(10, 0)..tfix(16, 0), open_end: false, repeats: Some(chrono::Duration::minutes(90)) }])),
    ]
}

/// Corrupted sentences that must be rejected (any error), from the statement's list.
fn negatives() -> Vec<String> {
    // single out-of-range fields: also embedded in otherwise valid sentences
    let fields = [
        // hours / minutes / extended time
        "25:00-26:00", "24:01-25:00", "24:30+", "10:60-12:00", "10:00-12:60", "10:00-48:01", "10:00-49:00", "10:00-100:00", "27:43-28:00",
        // day numbers
        "Jan 0", "Jan 00", "Jan 32", "Jan 1-32", "Jan 00-15", "Jan 15-00", "Jan 40",
        // weeks
        "week 0", "week 00", "week 54", "week 1-54", "week 60", "week 0-10",
        // nth
        "Mo[0]", "Mo[6]", "Mo[1-6]", "Mo[-6]", "Mo[-0]", "Mo[0-3]", "Mo[]",
        // years
        "1899", "10000", "1899-2000", "2000-10000", "1899 Jan 1", "1899Jan", "0999", "999",
        // zero steps
        "2020-2030/0", "week 1-10/0", "2020-2030/00", "week 1-10/00", "10:00-12:00/0", "10:00-12:00/00", "10:00-12:00/0:00", "10:00-12:00/00:00", "sunrise-sunset/00",
        // a year pushed outside 1900..9999 by the day-number form of a range end
        "9999 Dec 31-5", "9999 Dec 24-1",
    ];
    // whole-sentence garbage: judged alone
    let alone = [
        "\"", "Mo \"abc", "\"abc", "Mo-Fr 10:00-12:00 \"x", "Mo \"a\"b\"", "Mo open \"ring \"the bell\"\"",
        "this is not a valid expression", "10:00-12:00 tomorrow", "Mo-Fr 10:00-12:00 ;; Sa", "; Mo", "Mo ;", "Mo ||", "|| Mo", ", Mo", "Mo,", "24/24", "Xy", "Jan Foo",
    ];
    // empty input: nothing but blanks, of every length up to 6 (the guard of the grammar looked past one blank only)
    let mut out: Vec<String> = vec!["".into(), "\t".into(), "\n".into()];
    for n in 1..=6 {
        out.push(" ".repeat(n));
        out.push(format!("Mo 10:00-12:00;{}", " ".repeat(n)));
    }
    for f in fields {
        out.push(f.to_string());
        out.push(format!("{f} off"));
        out.push(format!("Mo 10:00-12:00 ; {f}"));
        out.push(format!("{f} ; Mo 10:00-12:00"));
        out.push(format!("24/7 || {f}"));
        out.push(format!("Sa 08:00-09:00, {f}"));
    }
    for f in alone {
        out.push(f.to_string());
    }
    out
}

/// Sentences the library reports as unsupported: must be Err(Unsupported).
fn unsupported() -> Vec<String> {
    let mut out = Vec::new();
    for f in ["10:00", "Mo 10:00", "sunrise", "Mo-Fr 08:00,12:00", "10:00-12:00,14:00", "easter-15", "easter -15", "easter - 15", "2024 easter-15", "easter-1"] {
        out.push(f.to_string());
        out.push(format!("Mo 10:00-12:00 ; {f}"));
        out.push(format!("{f} ; Mo 10:00-12:00"));
    }
    out
}

fn check_negative(s: &str, acc: &mut Acc) -> bool {
    match catch(|| opening_hours_syntax::parse(s)) {
        Err(p) => {
            acc.violate(Violation::new("parse_panic", vec![], json!({"str": s, "negative": true}), format!("parse({s:?}) panicked: {} at {}", p.msg, p.loc)));
            false
        }
        Ok(Ok(e)) => {
            acc.violate(Violation::new("invalid_sentence_accepted", vec![], json!({"str": s, "negative": true}), format!("parse({s:?}) = Ok, prints as {:?}; the statement requires an error", e.to_string())));
            false
        }
        Ok(Err(_)) => true,
    }
}

fn check_unsupported(s: &str, acc: &mut Acc) -> bool {
    match catch(|| opening_hours_syntax::parse(s)) {
        Err(p) => {
            acc.violate(Violation::new("parse_panic", vec![], json!({"str": s, "unsupported": true}), format!("parse({s:?}) panicked: {} at {}", p.msg, p.loc)));
            false
        }
        Ok(Err(PErr::Unsupported(_))) => {
            acc.add("reported_as_unsupported", 1);
            true
        }
        Ok(Err(_)) => {
            // rejected by the grammar itself: the statement only requires that it is not accepted
            acc.add("rejected_by_grammar", 1);
            true
        }
        Ok(Ok(e)) => {
            acc.violate(Violation::new("unsupported_construct_accepted", vec![], json!({"str": s, "unsupported": true}), format!("parse({s:?}) = Ok({:?}); the library documents this construct as unsupported", e.to_string())));
            false
        }
    }
}

pub fn family(cfg: &Cfg) -> Vec<OpeningHoursExpression> {
    let mut fam = al::e1(if cfg.quick() { 1 } else { 2 });
    if cfg.quick() {
        // E_syn: every adjacent pair of kinds with the plain modifier and two time values
        let ts = al::times();
        let m = &al::modifiers()[0];
        let m2 = &al::modifiers()[4];
        for ds in al::day_selectors(2) {
            let kinds = [!ds.year.is_empty(), !ds.monthday.is_empty(), !ds.week.is_empty(), !ds.weekday.is_empty()].iter().filter(|x| **x).count();
            if kinds == 2 {
                fam.push(expr(vec![al::mk_rule(&ds, &ts[0], m)]));
                fam.push(expr(vec![al::mk_rule(&ds, &ts[1], m2)]));
            }
        }
    }
    {
        // every combination of three (quick) / three and four (thorough) kinds, one body
        let ts = al::times();
        let m = &al::modifiers()[0];
        for ds in al::day_selectors(if cfg.quick() { 3 } else { 4 }) {
            let kinds = [!ds.year.is_empty(), !ds.monthday.is_empty(), !ds.week.is_empty(), !ds.weekday.is_empty()].iter().filter(|x| **x).count();
            if kinds >= 3 {
                fam.push(expr(vec![al::mk_rule(&ds, &ts[1], m)]));
            }
        }
    }
    // two-rule sentences: rule separators
    let r2 = al::r2();
    let step = if cfg.quick() { 7 } else { 1 };
    let mut i = 0;
    while i < r2.len() {
        let mut j = 0;
        while j < r2.len() {
            for op in al::OPERATORS {
                fam.push(expr(vec![r2[i].clone(), with_op(r2[j].clone(), op)]));
            }
            j += if cfg.quick() { 11 } else { 3 };
        }
        i += step;
    }
    // two comments on one rule
    let ts = al::times();
    for d in al::weekdays().iter().skip(1).take(4) {
        let ds = DaySelector { weekday: d.clone(), ..Default::default() };
        let mut r = al::mk_rule(&ds, &ts[1], &al::modifiers()[0]);
        r.comments = comments(&["x", "y"]);
        fam.push(expr(vec![r.clone()]));
        r.kind = RuleKind::Unknown;
        fam.push(expr(vec![r]));
    }
    fam
}

pub fn run(cfg: &Cfg) -> Outcome {
    let fam = family(cfg);
    let mut acc = par_shards(&fam, 64, |_, e, acc| {
        let vs = variants(e);
        if vs.is_empty() {
            acc.add("asts_not_expressible", 1);
            return;
        }
        acc.add("states", 1);
        let mut ok = 0;
        for (s, _) in &vs {
            if check_positive(s, e, acc) {
                ok += 1;
            }
        }
        acc.add("transitions", vs.len() as u64);
        acc.add("evaluations", vs.len() as u64);
        acc.add("traces_validated_against_impl", ok);
        if vs.len() > 1 {
            acc.add("distinct_nontrivial", 1);
        }
    });
    for (s, e) in special_positives() {
        acc.add("evaluations", 1);
        acc.add("transitions", 1);
        if check_positive(&s, &e, &mut acc) {
            acc.add("traces_validated_against_impl", 1);
        }
    }
    let negs = negatives();
    for s in &negs {
        acc.add("evaluations", 1);
        acc.add("negative_sentences", 1);
        if check_negative(s, &mut acc) {
            acc.add("traces_validated_against_impl", 1);
        }
    }
    for s in unsupported() {
        acc.add("evaluations", 1);
        acc.add("unsupported_sentences", 1);
        if check_unsupported(&s, &mut acc) {
            acc.add("traces_validated_against_impl", 1);
        }
    }
    // samples
    for i in [0usize, fam.len() / 3, fam.len() / 2, fam.len() - 1] {
        let vs = variants(&fam[i]);
        acc.sample(json!({"ast_prints_as": vs.iter().take(4).map(|v| v.0.clone()).collect::<Vec<_>>(), "variants": vs.len()}));
    }
    acc.sample(json!({"negative": "Jan 32", "expected": "Err"}));
    let mut o = Outcome::new("model_checking", acc);
    o.exhaustive = true;
    o.cov("asts", json!(fam.len()));
    o.cov("rule", json!("sentences of the grammar up to a bound: every AST of the family (E1 with ≤1 (quick) / ≤2 (thorough) day-selector kinds × every time × every modifier; adjacent kind pairs; R2 pairs × 3 separators; two-comment rules) rendered by the engine's printer in every combination of the 13 documented variant switches that changes its text; parse(sentence) must == the AST. states = ASTs, transitions = sentences parsed, validated = sentences whose AST matched; negative family: single-field corruptions (must be Err), unsupported constructs (must be Err(Unsupported)). non-trivial = ASTs with more than one distinct rendering"));
    o.assume("the variant table (Style) transcribes the Relaxed:/NOTE: comments of grammar.pest and the statement's list; strings outside it are not judged");
    o
}

pub fn replay(_cfg: &Cfg, case: &Value) -> Vec<Violation> {
    let mut acc = Acc::new();
    let s = case.get("str").and_then(|v| v.as_str()).unwrap_or("").to_string();
    if case.get("negative").is_some() {
        check_negative(&s, &mut acc);
    } else if case.get("unsupported").is_some() {
        check_unsupported(&s, &mut acc);
    } else {
        // find the AST in the family by its debug rendering (thorough family ⊇ quick family)
        let want = case.get("expected").and_then(|v| v.as_str()).unwrap_or("");
        let cfgt = Cfg { tier: crate::Tier::Thorough, seed: 0, repo: String::new() };
        let mut fam = family(&cfgt);
        fam.extend(special_positives().into_iter().map(|x| x.1));
        if let Some(e) = fam.iter().find(|e| format!("{e:?}") == want) {
            check_positive(&s, e, &mut acc);
        } else if let Some((_, e)) = special_positives().into_iter().find(|(t, _)| *t == s) {
            check_positive(&s, &e, &mut acc);
        } else if let Err(p) = catch(|| opening_hours_syntax::parse(&s)) {
            acc.violate(Violation::new("parse_panic", vec![], json!({"str": s}), format!("parse({s:?}) panicked: {} at {}", p.msg, p.loc)));
        }
    }
    acc.groups.into_values().flat_map(|g| g.examples).collect()
}
