//! C01 — Day schedules follow the documented rule semantics.
//!
//! Every expression of the bounded family (generator AST → engine printer → *real parser* → real
//! evaluator) × every holiday-calendar context × every day of the window: the real
//! `schedule_at(day)` run-list must equal the reference model M evaluated on the generator AST.
//! Days M calls unspecified are skipped and counted. For the corpus S (no generator AST) M is fed
//! the parsed expression, so S exercises evaluation only.

use crate::ctx::{self, Ctx};
use crate::evalx::{fmt_runs, real_day_runs};
use crate::features;
use crate::gen::alphabet as al;
use crate::gen::ast::*;
use opening_hours_syntax::rules::time::TimeEvent;
use crate::gen::print::canon;
use crate::model::{Evaluator, Events, ModelCtx};
use crate::report::{Acc, Outcome, Violation};
use crate::util::{catch, parse_date};
use crate::windows;
use crate::Cfg;
use chrono::NaiveDate;
use opening_hours::OpeningHours;
use rayon::prelude::*;
use serde_json::{json, Value};

pub enum Item {
    Ast(OpeningHoursExpression),
    Text(String),
}

/// Check one (expression, context) over the blocks. Returns (days compared, days agreeing,
/// unspecified days, schedule changes, nontrivial).
pub fn check_expr_ctx(
    text: &str,
    model_ast: &OpeningHoursExpression,
    c: &Ctx,
    blocks: &[(NaiveDate, NaiveDate)],
    only_date: Option<NaiveDate>,
    acc: &mut Acc,
) -> (u64, u64, u64, u64, bool) {
    let oh = match catch(|| OpeningHours::parse(text)) {
        Ok(Ok(oh)) => oh.with_context(c.real.clone()),
        Ok(Err(_)) => {
            acc.add("rejected_by_parser", 1);
            return (0, 0, 0, 0, false);
        }
        Err(p) => {
            acc.violate(Violation::new("parse_panic", features::of_expr(model_ast), json!({"expr": text}), format!("parse panicked: {} at {}", p.msg, p.loc)));
            return (0, 0, 0, 0, false);
        }
    };
    let mctx = ModelCtx { public: &c.public, school: &c.school, events: Events::Fixed };
    let mut ev = Evaluator::new(model_ast, &mctx);
    let (mut n, mut ok, mut unspec, mut changes) = (0u64, 0u64, 0u64, 0u64);
    let mut first_bad: Option<(NaiveDate, String, String)> = None;
    let mut bad_days = 0u64;
    let mut prev_runs: Option<Vec<(u16, u16, u8)>> = None;
    let mut varied = false;
    for (a, b) in blocks {
        let mut d = *a;
        loop {
            if only_date.map(|x| x == d).unwrap_or(true) {
                n += 1;
                let real = match catch(|| real_day_runs(&oh, d)) {
                    Ok(r) => r,
                    Err(p) => {
                        // a panic on a day the model abstains on is C04's business, not a
                        // disagreement with the documented semantics
                        if ev.day(d).is_none() {
                            acc.add("panics_on_unspecified_days_left_to_C04", 1);
                        } else {
                            acc.violate(Violation::new("schedule_at_panic", features::of_expr(model_ast), json!({"expr": text, "ctx": c.name, "date": d.to_string()}), format!("schedule_at({d}) panicked: {} at {}", p.msg, p.loc)));
                        }
                        return (n, ok, unspec, changes, varied);
                    }
                };
                if let Some(p) = &prev_runs {
                    if *p != real {
                        changes += 1;
                        varied = true;
                    }
                }
                match ev.day(d) {
                    None => unspec += 1,
                    Some(m) => {
                        if m.runs == real {
                            ok += 1;
                        } else {
                            bad_days += 1;
                            if first_bad.is_none() {
                                first_bad = Some((d, fmt_runs(&real), fmt_runs(&m.runs)));
                            }
                        }
                    }
                }
                prev_runs = Some(real);
            }
            if d >= *b {
                break;
            }
            d = d.succ_opt().unwrap();
        }
    }
    if let Some((d, real, model)) = first_bad {
        acc.violate(Violation::new(
            "day_schedule_differs_from_model",
            features::of_expr(model_ast),
            json!({"expr": text, "ctx": c.name, "date": d.to_string()}),
            format!("`{text}` [{}] on {d} ({}): schedule_at = [{real}], documented semantics = [{model}] ({bad_days} differing days in the window)", c.name, d.format("%a")),
        ));
    }
    (n, ok, unspec, changes, varied)
}

/// Event-based expressions under located contexts (time zone + coordinates): the model is fed
/// the event times of the real `Localize` (so this checks the span / wrap / spill logic on
/// date-dependent spans; the event values themselves are C11's subject).
pub fn check_expr_located(text: &str, model_ast: &OpeningHoursExpression, name: &str, lat: f64, lon: f64, blocks: &[(NaiveDate, NaiveDate)], acc: &mut Acc) -> (u64, u64, u64) {
    use opening_hours::localization::{Coordinates, Localize, TzLocation};
    let Some(coords) = Coordinates::new(lat, lon) else { return (0, 0, 0) };
    let loc = TzLocation::from_coords(coords);
    let Ok(Ok(oh)) = catch(|| OpeningHours::parse(text)) else { return (0, 0, 0) };
    let oh = oh.with_context(opening_hours::Context::default().with_locale(loc.clone()));
    let empty = std::collections::BTreeSet::new();
    let lookup = |d: NaiveDate, ev: TimeEvent| -> u16 {
        use chrono::Timelike;
        let t = loc.event_time(d, ev);
        (t.hour() * 60 + t.minute()) as u16
    };
    let mctx = ModelCtx { public: &empty, school: &empty, events: Events::Lookup(&lookup) };
    let mut ev = Evaluator::new(model_ast, &mctx);
    let (mut n, mut ok, mut unspec) = (0u64, 0u64, 0u64);
    for (a, b) in blocks {
        let mut d = *a;
        loop {
            n += 1;
            match catch(|| real_day_runs(&oh, d)) {
                Err(p) => {
                    if ev.day(d).is_some() {
                        acc.violate(Violation::new("schedule_at_panic", features::of_expr(model_ast), json!({"expr": text, "ctx": name, "date": d.to_string()}), format!("schedule_at({d}) [{name}] panicked: {} at {}", p.msg, p.loc)));
                    }
                    return (n, ok, unspec);
                }
                Ok(real) => match ev.day(d) {
                    None => unspec += 1,
                    Some(m) => {
                        if m.runs == real {
                            ok += 1;
                        } else {
                            acc.violate(Violation::new(
                                "day_schedule_differs_from_model",
                                features::of_expr(model_ast),
                                json!({"expr": text, "ctx": name, "date": d.to_string()}),
                                format!("`{text}` [{name} ({lat}, {lon})] on {d}: schedule_at = [{}], documented semantics with the same event times = [{}]", fmt_runs(&real), fmt_runs(&m.runs)),
                            ));
                            return (n, ok, unspec);
                        }
                    }
                },
            }
            if d >= *b {
                break;
            }
            d = d.succ_opt().unwrap();
        }
    }
    (n, ok, unspec)
}

pub const LOCATED: [(&str, f64, f64); 4] = [("Paris", 48.8535, 2.34839), ("Kashgar", 39.47, 75.99), ("Apia", -13.83, -171.77), ("60N-Magadan", 59.56, 150.8)];

fn process(item: &Item, ctxs: &[Ctx], blocks: &[(NaiveDate, NaiveDate)], acc: &mut Acc) {
    let (text, ast) = match item {
        Item::Ast(e) => match canon(e) {
            Some(s) => (s, e.clone()),
            None => {
                acc.add("asts_not_expressible", 1);
                return;
            }
        },
        Item::Text(s) => match opening_hours_syntax::parse(s) {
            Ok(e) => (s.clone(), e),
            Err(_) => {
                acc.add("corpus_unparseable", 1);
                return;
            }
        },
    };
    let mut nontrivial = false;
    for c in ctxs {
        let (n, ok, unspec, changes, varied) = check_expr_ctx(&text, &ast, c, blocks, None, acc);
        acc.add("states", n);
        acc.add("evaluations", n);
        acc.add("traces_validated_against_impl", ok);
        acc.add("unspecified_skipped", unspec);
        acc.add("transitions", changes);
        nontrivial |= varied;
    }
    if crate::model::has_events(&ast) {
        // one year around both solstices is enough for the located contexts (the span logic does
        // not depend on the year; dusk after local midnight happens in June at 60°N / in Kashgar)
        let yr = [(crate::util::ymd(2024, 1, 1), crate::util::ymd(2024, 12, 31))];
        for (name, lat, lon) in LOCATED {
            let (n, ok, unspec) = check_expr_located(&text, &ast, name, lat, lon, &yr, acc);
            acc.add("states", n);
            acc.add("evaluations", n);
            acc.add("located_context_days", n);
            acc.add("traces_validated_against_impl", ok);
            acc.add("unspecified_skipped", unspec);
        }
    }
    acc.add("expressions", 1);
    if nontrivial {
        acc.add("distinct_nontrivial", 1);
    }
}

pub fn family(cfg: &Cfg) -> Vec<Item> {
    let mut items: Vec<Item> = Vec::new();
    for e in al::e1(if cfg.quick() { 1 } else { 2 }) {
        items.push(Item::Ast(e));
    }
    if cfg.quick() {
        // every pair of day-selector kinds with two time values and two modifiers
        let ts = al::times();
        let ms = al::modifiers();
        for ds in al::day_selectors(2) {
            let kinds = [!ds.year.is_empty(), !ds.monthday.is_empty(), !ds.week.is_empty(), !ds.weekday.is_empty()].iter().filter(|x| **x).count();
            if kinds == 2 {
                for (t, m) in [(0usize, 0usize), (3, 0), (1, 1), (6, 2)] {
                    items.push(Item::Ast(expr(vec![al::mk_rule(&ds, &ts[t], &ms[m])])));
                }
            }
        }
    }
    let r2 = al::r2();
    let n2 = al::e2_count();
    let stride = if cfg.quick() { 31 } else { 1 };
    let mut i = 0;
    while i < n2 {
        items.push(Item::Ast(al::e2_at(&r2, i)));
        i += stride;
    }
    let r3 = al::r3();
    let n3 = al::e3_count();
    let stride3 = if cfg.quick() { 131 } else { 7 };
    let mut i = 0;
    while i < n3 {
        items.push(Item::Ast(al::e3_at(&r3, i)));
        i += stride3;
    }
    for s in al::corpus(&cfg.repo) {
        items.push(Item::Text(s));
    }
    items
}

pub fn run(cfg: &Cfg) -> Outcome {
    let (n_self, errs) = crate::model::self_check();
    if !errs.is_empty() {
        eprintln!("model self-check failed: {:?}", &errs[..errs.len().min(5)]);
        std::process::exit(2);
    }
    let items = family(cfg);
    let ctxs: Vec<Ctx> = if cfg.quick() { vec![ctx::empty(), ctx::synthetic()] } else { ctx::all(&cfg.repo) };
    let blocks = if cfg.quick() { windows::w_small_blocks() } else { windows::w_core_blocks() };
    let accs: Vec<Acc> = items
        .par_chunks(32)
        .map(|chunk| {
            let mut acc = Acc::new();
            for it in chunk {
                process(it, &ctxs, &blocks, &mut acc);
            }
            acc
        })
        .collect();
    let mut acc = Acc::new();
    for a in accs {
        acc.merge(a);
    }
    for (i, it) in items.iter().enumerate() {
        if i == 0 || i == items.len() / 2 || i == items.len() - 1 || i == 1234 {
            let t = match it {
                Item::Ast(e) => canon(e).unwrap_or_default(),
                Item::Text(s) => s.clone(),
            };
            acc.sample(json!({"expr": t, "contexts": ctxs.iter().map(|c| c.name).collect::<Vec<_>>(), "days": windows::days(&blocks)}));
        }
    }
    let mut o = Outcome::new("model_checking", acc);
    o.exhaustive = true;
    o.cov("family_size", json!(items.len()));
    o.cov("window_blocks", json!(blocks.iter().map(|(a, b)| format!("{a}..{b}")).collect::<Vec<_>>()));
    o.cov("window_days", json!(windows::days(&blocks)));
    o.cov("contexts", json!(ctxs.iter().map(|c| c.name).collect::<Vec<_>>()));
    o.cov("model_self_check_comparisons", json!(n_self));
    o.cov("rule", json!("bounded exhaustive: every expression of the family (E1 ≤1/≤2 kinds × times × modifiers; E2 pairs of R2 × 3 separators; E3 triples of R3 × 9 separator pairs — quick tier takes a fixed stride through E2/E3 — plus the corpus S) × every context × every day of the window; event-based expressions additionally under 4 located contexts (Paris, Kashgar, Apia, 60°N) on every day of 2024 with the model fed the real Localize's event times; states = (expr, ctx, day) triples, transitions = day→day+1 steps where the real schedule changed, validated = triples where the real schedule_at equals the reference model M; unspecified_skipped = triples on which M abstains; non-trivial = expression parsed and its schedule is not the same on every day of the window"));
    o.assume("the reference model M (engine/src/model) transcribes the documented semantics table of DESIGN §2.3; rows marked 'pinned to current behaviour' detect changes but cannot certify the choice");
    o.assume("chrono date arithmetic (weekday, ISO week, successor)");
    o
}

pub fn replay(cfg: &Cfg, case: &Value) -> Vec<Violation> {
    let mut acc = Acc::new();
    let Some(text) = case.get("expr").and_then(|v| v.as_str()) else { return vec![] };
    let c = ctx::by_name(&cfg.repo, case.get("ctx").and_then(|v| v.as_str()).unwrap_or("empty"));
    let Ok(ast) = opening_hours_syntax::parse(text) else { return vec![] };
    let date = case.get("date").and_then(|v| v.as_str()).and_then(parse_date);
    let blocks = match date {
        Some(d) => vec![(d, d)],
        None => windows::w_core_blocks(),
    };
    check_expr_ctx(text, &ast, &c, &blocks, None, &mut acc);
    acc.groups.into_values().flat_map(|g| g.examples).collect()
}
