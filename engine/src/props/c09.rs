//! C09 — Time-zone contexts evaluate on local wall-clock time and map results back.
//!
//! Exhaustive over the transition set of the tz database compiled into the binary: every zone of
//! `chrono_tz::TZ_VARIANTS` × every UTC-offset transition of 1900..2040 (found by a 6-hour scan +
//! bisection to the second) × every minute of [T−90 min, T+90 min] (T±26 h in 15-min steps for
//! date-line changes) × the zone of the input datetime × the expression family Z (fixed part +
//! spans placed on the transition's own wall-clock times). Quick tier: one zone per distinct
//! (offset before, offset after, local time of day) signature — the code under test is generic in
//! `Tz` and never looks at the zone's name.

use crate::model::kind_code;
use crate::report::{Acc, Outcome, Violation};
use crate::util::{catch, fmt_dt, parse_dt};
use crate::Cfg;
use chrono::{DateTime, Duration, NaiveDate, NaiveDateTime, Offset, TimeZone, Timelike, Utc};
use chrono_tz::{Tz, TZ_VARIANTS};
use opening_hours::localization::TzLocation;
use opening_hours::{Context, OpeningHours};
use rayon::prelude::*;
use serde_json::{json, Value};
use std::collections::BTreeMap;

fn off_at(tz: Tz, utc: NaiveDateTime) -> i32 {
    tz.offset_from_utc_datetime(&utc).fix().local_minus_utc()
}

#[derive(Clone, Copy, Debug)]
pub struct Transition {
    /// first UTC second at which the new offset is in force
    pub t: NaiveDateTime,
    pub before: i32,
    pub after: i32,
}

pub fn transitions(tz: Tz, from_year: i32, to_year: i32) -> Vec<Transition> {
    let mut out = Vec::new();
    let mut cur = NaiveDate::from_ymd_opt(from_year, 1, 1).unwrap().and_hms_opt(0, 0, 0).unwrap();
    let end = NaiveDate::from_ymd_opt(to_year, 1, 1).unwrap().and_hms_opt(0, 0, 0).unwrap();
    let step = Duration::hours(6);
    let mut o = off_at(tz, cur);
    while cur < end {
        let nxt = cur + step;
        let o2 = off_at(tz, nxt);
        if o2 != o {
            // bisect on whole seconds; several transitions inside 6 hours are found by recursion
            find(tz, cur, nxt, o, o2, &mut out);
        }
        o = o2;
        cur = nxt;
    }
    out
}

fn find(tz: Tz, lo: NaiveDateTime, hi: NaiveDateTime, olo: i32, ohi: i32, out: &mut Vec<Transition>) {
    // invariant: off(lo) = olo != ohi = off(hi)
    let (mut lo, mut hi) = (lo, hi);
    let (olo0, ohi0) = (olo, ohi);
    while (hi - lo).num_seconds() > 1 {
        let mid = lo + Duration::seconds((hi - lo).num_seconds() / 2);
        let om = off_at(tz, mid);
        if om == olo0 {
            lo = mid;
        } else if om == ohi0 {
            hi = mid;
        } else {
            // a third offset in between: two transitions
            find(tz, lo, mid, olo0, om, out);
            find(tz, mid, hi, om, ohi0, out);
            return;
        }
    }
    out.push(Transition { t: hi, before: olo0, after: ohi0 });
}

fn wall(tz: Tz, utc: NaiveDateTime) -> NaiveDateTime {
    utc + Duration::seconds(off_at(tz, utc) as i64)
}

/// The UTC instant the statement prescribes for a naive wall-clock result `n`: the later one when
/// ambiguous, the first valid instant after it when it does not exist.
fn map_back(tz: Tz, n: NaiveDateTime, near: &[Transition]) -> NaiveDateTime {
    // offsets in force around n
    let mut offs: Vec<i32> = Vec::new();
    for d in [-2i64, -1, 0, 1, 2] {
        let o = off_at(tz, n + Duration::days(d));
        if !offs.contains(&o) {
            offs.push(o);
        }
    }
    for tr in near {
        for o in [tr.before, tr.after] {
            if !offs.contains(&o) {
                offs.push(o);
            }
        }
    }
    let mut cands: Vec<NaiveDateTime> = Vec::new();
    for o in offs {
        let u = n - Duration::seconds(o as i64);
        if off_at(tz, u) == o {
            cands.push(u);
        }
    }
    if let Some(m) = cands.into_iter().max() {
        return m;
    }
    // n does not exist: first valid instant after it = the transition that skips it
    let mut best: Option<NaiveDateTime> = None;
    for tr in near {
        if tr.after > tr.before {
            let gap_lo = tr.t + Duration::seconds(tr.before as i64);
            let gap_hi = tr.t + Duration::seconds(tr.after as i64);
            if gap_lo <= n && n < gap_hi {
                best = Some(tr.t);
            }
        }
    }
    best.unwrap_or(n - Duration::seconds(off_at(tz, n) as i64))
}

fn fixed_family() -> Vec<String> {
    ["24/7", "00:00-24:00 off", "02:30-03:30", "01:59-02:01", "00:00-00:30,23:30-24:00", "10:00-26:30", "Mo-Fr 10:00-18:00", "Su 01:00-03:00 unknown"].iter().map(|s| s.to_string()).collect()
}

fn hhmm(t: NaiveDateTime) -> String {
    format!("{:02}:{:02}", t.hour(), t.minute())
}

/// Spans placed on the transition's own wall-clock times.
fn placed_family(tr: &Transition) -> Vec<String> {
    let w_before = tr.t + Duration::seconds(tr.before as i64);
    let w_after = tr.t + Duration::seconds(tr.after as i64);
    let (lo, hi) = if w_before < w_after { (w_before, w_after) } else { (w_after, w_before) };
    let mid = lo + Duration::seconds((hi - lo).num_seconds() / 2);
    let mut out = Vec::new();
    for p in [lo, mid, hi] {
        let a = hhmm(p);
        let plus = hhmm(p + Duration::minutes(47));
        let minus = hhmm(p - Duration::minutes(47));
        if a != plus {
            out.push(format!("{a}-{plus}"));
        }
        if a != minus {
            out.push(format!("{minus}-{a} unknown"));
        }
    }
    out.sort();
    out.dedup();
    out
}

fn viol(kind: &str, feats: &[String], tz: Tz, expr: &str, x: NaiveDateTime, inzone: Tz, detail: String) -> Violation {
    Violation::new(kind, feats.to_vec(), json!({"tz": tz.name(), "expr": expr, "x_utc": fmt_dt(x), "input_zone": inzone.name()}), format!("[{}] `{expr}` at {}Z (given in {}): {detail}", tz.name(), fmt_dt(x), inzone.name()))
}

fn features_of(tr: &Transition) -> Vec<String> {
    let mut f = Vec::new();
    if tr.after > tr.before {
        f.push("gap".to_string());
        let w_after = tr.t + Duration::seconds(tr.after as i64);
        if w_after.second() != 0 {
            f.push("gap_end_not_minute_aligned".to_string());
        }
        let w_before = tr.t + Duration::seconds(tr.before as i64);
        if w_before.second() != 0 {
            f.push("gap_start_not_minute_aligned".to_string());
        }
    } else {
        f.push("fold".to_string());
    }
    if (tr.after - tr.before).abs() >= 20 * 3600 {
        f.push("date_line_change".to_string());
    }
    if tr.before % 60 != 0 || tr.after % 60 != 0 {
        f.push("offset_with_seconds".to_string());
    }
    f
}

/// All checks for one (zone, transition, expression, instant, input zone).
pub fn check_point(tz: Tz, near: &[Transition], feats: &[String], expr: &str, oh_tz: &OpeningHours<TzLocation<Tz>>, oh_naive: &OpeningHours, x: NaiveDateTime, inzone: Tz, acc: &mut Acc) -> bool {
    let x_in: DateTime<Tz> = inzone.from_utc_datetime(&x);
    let w = wall(tz, x);
    let mut ok = true;
    // (1) state
    match catch(|| (oh_tz.state(x_in), oh_naive.state(w))) {
        Err(p) => {
            acc.violate(viol("panic", feats, tz, expr, x, inzone, format!("state panicked: {} at {}", p.msg, p.loc)));
            return false;
        }
        Ok((a, b)) => {
            if a != b {
                acc.violate(viol("state_differs_from_wall_clock_evaluation", feats, tz, expr, x, inzone, format!("state = {a:?}, evaluating at the wall-clock time {} without location gives {b:?}", fmt_dt(w))));
                ok = false;
            }
        }
    }
    // (2) next_change
    match catch(|| (oh_tz.next_change(x_in), oh_naive.next_change(w))) {
        Err(p) => {
            acc.violate(viol("panic", feats, tz, expr, x, inzone, format!("next_change panicked: {} at {}", p.msg, p.loc)));
            return false;
        }
        Ok((a, b)) => {
            let exp = b.map(|n| map_back(tz, n, near));
            let got = a.map(|d| d.naive_utc());
            if let Some(d) = a {
                if d.timezone() != tz {
                    acc.violate(viol("result_not_in_context_zone", feats, tz, expr, x, inzone, format!("next_change carries zone {}", d.timezone().name())));
                    ok = false;
                }
            }
            if got != exp {
                acc.violate(viol("next_change_mapped_back_wrongly", feats, tz, expr, x, inzone, format!("next_change = {:?}Z; the naive result is {:?}, whose context-zone instant is {:?}Z", got.map(fmt_dt), b.map(fmt_dt), exp.map(fmt_dt))));
                ok = false;
            }
        }
    }
    // (3) iter_range over the next 4 hours
    let y = x + Duration::hours(4);
    let y_in: DateTime<Tz> = inzone.from_utc_datetime(&y);
    match catch(|| {
        let a: Vec<_> = oh_tz.iter_range(x_in, y_in).take(12).map(|r| (r.range.start, r.range.end, kind_code(r.kind))).collect();
        let b: Vec<_> = oh_naive.iter_range(w, wall(tz, y)).take(12).map(|r| (r.range.start, r.range.end, kind_code(r.kind))).collect();
        (a, b)
    }) {
        Err(p) => {
            acc.violate(viol("panic", feats, tz, expr, x, inzone, format!("iter_range panicked: {} at {}", p.msg, p.loc)));
            return false;
        }
        Ok((a, b)) => {
            let mut last: Option<NaiveDateTime> = None;
            for (s, e, _) in &a {
                let (s, e) = (s.naive_utc(), e.naive_utc());
                if s > e || last.map(|l| s < l).unwrap_or(false) {
                    acc.violate(viol("interval_bounds_go_backwards", feats, tz, expr, x, inzone, format!("iter_range yields bounds {}Z .. {}Z after {:?}Z", fmt_dt(s), fmt_dt(e), last.map(fmt_dt))));
                    ok = false;
                    break;
                }
                last = Some(e);
            }
            let mapped: Vec<(NaiveDateTime, NaiveDateTime, u8)> = b.iter().map(|(s, e, k)| (map_back(tz, *s, near), map_back(tz, *e, near), *k)).collect();
            let got: Vec<(NaiveDateTime, NaiveDateTime, u8)> = a.iter().map(|(s, e, k)| (s.naive_utc(), e.naive_utc(), *k)).collect();
            if got != mapped && ok {
                let i = got.iter().zip(&mapped).position(|(g, m)| g != m).unwrap_or(got.len().min(mapped.len()));
                acc.violate(viol("intervals_mapped_back_wrongly", feats, tz, expr, x, inzone, format!("interval #{i}: got {:?}, naive evaluation mapped to the context zone gives {:?}", got.get(i).map(|g| (fmt_dt(g.0), fmt_dt(g.1), g.2)), mapped.get(i).map(|g| (fmt_dt(g.0), fmt_dt(g.1), g.2)))));
                ok = false;
            }
        }
    }
    ok
}

fn offsets_minutes(tr: &Transition, quick: bool) -> Vec<i64> {
    let mut v: Vec<i64> = Vec::new();
    let step = if quick { 3 } else { 1 };
    let mut m = -90;
    while m <= 90 {
        v.push(m);
        m += step;
    }
    for m in [-61, -60, -59, -31, -30, -29, -1, 0, 1, 29, 30, 31, 59, 60, 61] {
        if !v.contains(&m) {
            v.push(m);
        }
    }
    if (tr.after - tr.before).abs() >= 20 * 3600 {
        let mut m = -26 * 60;
        while m <= 26 * 60 {
            v.push(m);
            m += 15;
        }
    }
    v.sort();
    v.dedup();
    v
}

pub fn check_transition(tz: Tz, tr: &Transition, all: &[Transition], quick: bool, only_expr: Option<&str>, acc: &mut Acc) {
    let near: Vec<Transition> = all.iter().filter(|o| (o.t - tr.t).num_days().abs() <= 3).copied().collect();
    let feats = features_of(tr);
    let mut exprs = fixed_family();
    exprs.extend(placed_family(tr));
    let ctx = Context::default().with_locale(TzLocation::new(tz));
    let in_zones = [tz, chrono_tz::UTC, chrono_tz::Pacific::Kiritimati, chrono_tz::Etc::GMTPlus12];
    for e in &exprs {
        if only_expr.map(|o| o != e).unwrap_or(false) {
            continue;
        }
        let Ok(oh_naive) = OpeningHours::parse(e) else { continue };
        let oh_tz = oh_naive.clone().with_context(ctx.clone());
        for (i, m) in offsets_minutes(tr, quick).iter().enumerate() {
            // minute-aligned as *wall-clock* minutes on both sides, plus the raw transition second
            let x = tr.t + Duration::minutes(*m);
            for (zi, z) in in_zones.iter().enumerate() {
                if zi > 0 && i % 6 != 0 {
                    continue;
                }
                acc.add("states", 1);
                acc.add("transitions", 2);
                acc.add("evaluations", 3);
                if check_point(tz, &near, &feats, e, &oh_tz, &oh_naive, x, *z, acc) {
                    acc.add("traces_validated_against_impl", 1);
                }
            }
        }
    }
}

/// "Returned interval bounds never go backwards in absolute time" in time-zone contexts that
/// also carry an interval-size bound (the bounded iterator has its own return path): every
/// expression × zone × bound × window of a small alphabet, every interval of the stream.
fn check_bounded_contexts(acc: &mut Acc) {
    let exprs = ["24/7", "Mo 10:00-12:00", "Jan 01", "2024 Jan 01 10:00-12:00; 2024 Jun 01 10:00-12:00", "Mo-Fr 10:00-18:00; Jul off", "week 10 Mo 22:00-26:00"];
    let zones = [chrono_tz::Europe::Paris, chrono_tz::America::New_York, chrono_tz::Pacific::Apia, chrono_tz::UTC];
    let starts = [(1899, 12, 31), (2023, 12, 25), (2024, 3, 30), (2024, 6, 1), (9999, 12, 1)];
    let spans = [1i64, 40, 400, 4000];
    for e in exprs {
        let Ok(oh) = OpeningHours::parse(e) else { continue };
        for tz in zones {
            for bound_days in [1i64, 10, 366] {
                let ohb = oh.clone().with_context(Context::default().with_locale(TzLocation::new(tz)).approx_bound_interval_size(Duration::days(bound_days)));
                for (y, m, d) in starts {
                    for span in spans {
                        let from = Utc.with_ymd_and_hms(y, m, d, 0, 0, 0).unwrap().with_timezone(&tz);
                        let to = from + Duration::days(span);
                        acc.add("evaluations", 1);
                        acc.add("bounded_context_windows", 1);
                        let case = json!({"bounded": true, "expr": e, "tz": tz.name(), "bound_days": bound_days, "from_utc": fmt_dt(from.naive_utc()), "span_days": span});
                        let got = catch(|| ohb.iter_range(from, to).take(200).map(|r| (r.range.start.naive_utc(), r.range.end.naive_utc())).collect::<Vec<_>>());
                        match got {
                            Err(p) => acc.violate(Violation::new("panic", vec!["bounded_context".into()], case, format!("[{}] `{e}` bound {bound_days} d: iter_range panicked: {} at {}", tz.name(), p.msg, p.loc))),
                            Ok(v) => {
                                let mut prev: Option<NaiveDateTime> = None;
                                let mut bad = None;
                                for (s, en) in &v {
                                    if en < s || prev.map(|p| *s < p).unwrap_or(false) {
                                        bad = Some((*s, *en, prev));
                                        break;
                                    }
                                    prev = Some(*en);
                                }
                                match bad {
                                    None => acc.add("traces_validated_against_impl", 1),
                                    Some((s, en, p)) => acc.violate(Violation::new("interval_bounds_go_backwards", vec!["bounded_context".into()], case, format!("[{}] `{e}` with an interval-size bound of {bound_days} d: iter_range({}Z, +{span} d) yields [{}Z .. {}Z) after an interval that ended at {:?}Z", tz.name(), fmt_dt(from.naive_utc()), fmt_dt(s), fmt_dt(en), p.map(fmt_dt)))),
                                }
                            }
                        }
                    }
                }
            }
        }
    }
}

pub fn run(cfg: &Cfg) -> Outcome {
    // all transitions of all zones
    let per_zone: Vec<(Tz, Vec<Transition>)> = TZ_VARIANTS.par_iter().map(|tz| (*tz, transitions(*tz, 1900, 2040))).collect();
    let total: usize = per_zone.iter().map(|(_, v)| v.len()).sum();
    let mut work: Vec<(usize, usize)> = Vec::new();
    let mut signatures: BTreeMap<(i32, i32, u32), (usize, usize)> = BTreeMap::new();
    for (zi, (_, trs)) in per_zone.iter().enumerate() {
        for (ti, tr) in trs.iter().enumerate() {
            let w = tr.t + Duration::seconds(tr.before as i64);
            let sig = (tr.before, tr.after, w.num_seconds_from_midnight());
            if !signatures.contains_key(&sig) {
                signatures.insert(sig, (zi, ti));
            }
            if !cfg.quick() {
                work.push((zi, ti));
            }
        }
    }
    if cfg.quick() {
        work = signatures.values().copied().collect();
    }
    let accs: Vec<Acc> = work
        .par_iter()
        .with_max_len(8)
        .map(|(zi, ti)| {
            let mut acc = Acc::new();
            let (tz, trs) = &per_zone[*zi];
            check_transition(*tz, &trs[*ti], trs, cfg.quick(), None, &mut acc);
            acc.add("transitions_explored", 1);
            acc
        })
        .collect();
    let mut acc = Acc::new();
    for a in accs {
        acc.merge(a);
    }
    acc.add("distinct_nontrivial", work.len() as u64);
    check_bounded_contexts(&mut acc);
    let not_aligned = per_zone.iter().flat_map(|(_, v)| v.iter()).filter(|tr| tr.after > tr.before && (tr.t + Duration::seconds(tr.after as i64)).second() != 0).count();
    for (zi, ti) in work.iter().step_by((work.len() / 4).max(1)).take(4) {
        let (tz, trs) = &per_zone[*zi];
        let tr = &trs[*ti];
        acc.sample(json!({"tz": tz.name(), "transition_utc": fmt_dt(tr.t), "offset_before_s": tr.before, "offset_after_s": tr.after, "placed_expressions": placed_family(tr)}));
    }
    let mut o = Outcome::new("model_checking", acc);
    o.exhaustive = true;
    o.cov("zones", json!(TZ_VARIANTS.len()));
    o.cov("transitions_1900_2040_all_zones", json!(total));
    o.cov("distinct_signatures", json!(signatures.len()));
    o.cov("gaps_whose_end_is_not_minute_aligned", json!(not_aligned));
    o.cov("rule", json!("exhaustive over the tz database compiled into the binary: every UTC-offset transition 1900..2040 of every zone (thorough) / one zone per distinct (offset before, offset after, local time of day) signature (quick) × instants T−90..T+90 min (every minute thorough, every 3rd + the ±1/±30/±60 neighbourhoods quick; ±26 h in 15-min steps for date-line changes) × input zone ∈ {context zone, UTC, Pacific/Kiritimati, Etc/GMT+12} × expressions (8 fixed + spans placed on the transition's own wall-clock times). Oracle: wall(x) from offset_from_utc_datetime; state/next_change/iter_range(x, x+4h) must equal the location-free evaluation at wall(x) with every returned instant mapped back as the statement prescribes (later instant when ambiguous, first valid instant after a gap), results in the context zone, bounds never going backwards; the last clause also in contexts that carry an interval-size bound (6 expressions × 4 zones × 3 bounds × 20 windows). states = (zone, transition, expr, instant, input zone)"));
    o.assume("chrono-tz's compiled tz data and offset_from_utc_datetime (UTC→local is total and unambiguous, so it is a safe reference direction)");
    o.assume("transitions after 2040 follow the same rule-generated signatures");
    o
}

pub fn replay(_cfg: &Cfg, case: &Value) -> Vec<Violation> {
    let mut acc = Acc::new();
    if case.get("bounded").is_some() {
        check_bounded_contexts(&mut acc);
        return acc.groups.into_values().flat_map(|g| g.examples).collect();
    }
    let Some(name) = case.get("tz").and_then(|v| v.as_str()) else { return vec![] };
    let Ok(tz) = name.parse::<Tz>() else { return vec![] };
    let Some(x) = case.get("x_utc").and_then(|v| v.as_str()).and_then(parse_dt) else { return vec![] };
    let expr = case.get("expr").and_then(|v| v.as_str()).unwrap_or("24/7");
    let inzone: Tz = case.get("input_zone").and_then(|v| v.as_str()).and_then(|s| s.parse().ok()).unwrap_or(tz);
    let trs = transitions(tz, 1900, 2040);
    let near: Vec<Transition> = trs.iter().filter(|o| (o.t - x).num_days().abs() <= 3).copied().collect();
    let feats: Vec<String> = near.iter().min_by_key(|t| (t.t - x).num_seconds().abs()).map(features_of).unwrap_or_default();
    let Ok(oh_naive) = OpeningHours::parse(expr) else { return vec![] };
    let oh_tz = oh_naive.clone().with_context(Context::default().with_locale(TzLocation::new(tz)));
    check_point(tz, &near, &feats, expr, &oh_tz, &oh_naive, x, inzone, &mut acc);
    let _ = Utc;
    acc.groups.into_values().flat_map(|g| g.examples).collect()
}
