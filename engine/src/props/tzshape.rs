//! Time-zone contexts for C02, C03 and C08 (DESIGN §11.8).
//!
//! C02, C03 and C08 quantify over *every context*; their main families use calendar contexts
//! only. This module explores them under `TzLocation` contexts around UTC-offset transitions,
//! where absolute time and wall-clock time part ways: for every minute-aligned transition
//! signature of the compiled tz database × expression family Z of C09 (fixed + placed on the
//! transition's own wall-clock times) × every ordered pair of an instant alphabet around the
//! transition (as `iter_range` windows) and every instant of it (as `next_change` queries).
//!
//! Oracle (absolute time): `state_abs(u)` = what the location-free daily schedules give to the
//! wall-clock time of the absolute instant `u` in the context zone (UTC→local is total and
//! unambiguous); the expected stream of a window is its run-length encoding over the absolute
//! minutes of the window. The clauses are the statements', literally, in absolute time:
//!   C02 intervals non-empty, contiguous, consecutive ones differ in state, first starts at
//!       `from`, last ends at `to`, each minute shows the pointwise state;
//!   C03 next_change(t) is the earliest absolute instant after t whose state differs;
//!   C08 no interval starts before `from` or ends after `to`.
//!
//! Failure kinds are *located*: a failure that sits exactly on the instant of a skipped hour, or
//! inside the first pass of a repeated hour, gets its own kind (these are the shapes the
//! known-findings file lists); anything else gets the general kind and is never attributed.

use crate::evalx::{to_min, Pointwise};
use crate::model::kind_code;
use crate::props::c09::{transitions, Transition};
use crate::report::{Acc, Violation};
use crate::util::{catch, fmt_dt, parse_dt};
use chrono::{Duration, NaiveDateTime, Offset, TimeZone, Timelike};
use chrono_tz::{Tz, TZ_VARIANTS};
use opening_hours::localization::TzLocation;
use opening_hours::{Context, OpeningHours};
use rayon::prelude::*;
use serde_json::{json, Value};
use std::collections::BTreeMap;

#[derive(Clone, Copy, PartialEq, Eq, Debug)]
pub enum Which {
    C02,
    C03,
    C08,
}

fn off_at(tz: Tz, utc: NaiveDateTime) -> i32 {
    tz.offset_from_utc_datetime(&utc).fix().local_minus_utc()
}

fn wall(tz: Tz, utc: NaiveDateTime) -> NaiveDateTime {
    utc + Duration::seconds(off_at(tz, utc) as i64)
}

fn aligned(tr: &Transition) -> bool {
    tr.before % 60 == 0 && tr.after % 60 == 0 && tr.t.second() == 0 && tr.t.nanosecond() == 0
}

fn delta_min(tr: &Transition) -> i64 {
    ((tr.after - tr.before).abs() / 60) as i64
}

fn hhmm(t: NaiveDateTime) -> String {
    format!("{:02}:{:02}", t.hour(), t.minute())
}

pub fn expressions(tr: &Transition) -> Vec<String> {
    let mut out: Vec<String> = ["24/7", "02:30-03:30", "01:59-02:01", "00:00-00:30,23:30-24:00", "10:00-26:30", "Mo-Fr 10:00-18:00", "Su 01:00-03:00 unknown", "02:15-02:45; 02:20-02:30 unknown"].iter().map(|s| s.to_string()).collect();
    let w_before = tr.t + Duration::seconds(tr.before as i64);
    let w_after = tr.t + Duration::seconds(tr.after as i64);
    let (lo, hi) = if w_before < w_after { (w_before, w_after) } else { (w_after, w_before) };
    let d = (hi - lo).num_minutes();
    // spans strictly inside, straddling the start, straddling the end, and covering the skipped /
    // repeated wall-clock stretch [lo, hi)
    let q = (d / 4).max(1);
    out.push(format!("{}-{}", hhmm(lo + Duration::minutes(q)), hhmm(hi - Duration::minutes(q))));
    out.push(format!("{}-{} unknown", hhmm(lo - Duration::minutes(20)), hhmm(lo + Duration::minutes(q))));
    out.push(format!("{}-{}", hhmm(hi - Duration::minutes(q)), hhmm(hi + Duration::minutes(20))));
    out.push(format!("{}-{}", hhmm(lo - Duration::minutes(10)), hhmm(hi + Duration::minutes(10))));
    out.push(format!("{}-{}", hhmm(lo), hhmm(hi)));
    // (never a lone `off` rule: an always-closed expression makes every next_change walk to year 9999)
    out.push(format!("00:00-24:00; {}-{} off", hhmm(lo + Duration::minutes(q)), hhmm(lo + Duration::minutes(q + 1))));
    out.retain(|e| {
        // a span whose two ends print alike would be a 24-hour span: not what was meant
        !e.split([' ', ';']).any(|tok| tok.len() == 11 && tok[..5] == tok[6..])
    });
    out.sort();
    out.dedup();
    out
}

pub fn points(tr: &Transition) -> Vec<NaiveDateTime> {
    let d = delta_min(tr);
    let mut v = Vec::new();
    for base in [0, -d, d] {
        for a in [-90i64, -31, -30, -29, -1, 0, 1, 29, 30, 31, 90] {
            v.push(tr.t + Duration::minutes(base + a));
        }
    }
    v.sort();
    v.dedup();
    v
}

struct Env<'a> {
    tz: Tz,
    near: &'a [Transition],
    expr: &'a str,
    p: &'a Pointwise,
}

impl Env<'_> {
    fn state_abs(&self, u: NaiveDateTime) -> u8 {
        self.p.kind_at(to_min(wall(self.tz, u)))
    }

    /// u is the instant of a gap (clocks jump forward at u).
    fn is_gap_instant(&self, u: NaiveDateTime) -> bool {
        self.near.iter().any(|t| t.after > t.before && t.t == u)
    }

    /// u lies in the first pass of a repeated stretch: [T−δ, T) of a fold at T.
    fn fold_of_first_pass(&self, u: NaiveDateTime) -> Option<&Transition> {
        self.near.iter().find(|t| t.after < t.before && t.t - Duration::minutes(delta_min(t)) <= u && u < t.t)
    }

    /// u lies in either pass of a repeated stretch: [T−δ, T+δ).
    fn in_repeated(&self, u: NaiveDateTime) -> bool {
        self.near.iter().any(|t| t.after < t.before && t.t - Duration::minutes(delta_min(t)) <= u && u < t.t + Duration::minutes(delta_min(t)))
    }

    fn feats(&self, from: NaiveDateTime, to: NaiveDateTime) -> Vec<String> {
        let mut f = vec!["tz_context".to_string()];
        if self.near.iter().any(|t| t.after > t.before && from <= t.t && t.t <= to) {
            f.push("window_meets_skipped_hour".into());
        }
        if self.near.iter().any(|t| t.after < t.before && from < t.t && t.t - Duration::minutes(delta_min(t)) <= to) {
            f.push("window_meets_repeated_hour".into());
        }
        f
    }

    fn case(&self, which: Which, from: NaiveDateTime, to: Option<NaiveDateTime>) -> Value {
        json!({"tzshape": format!("{which:?}"), "tz": self.tz.name(), "expr": self.expr, "from_utc": fmt_dt(from), "to_utc": to.map(fmt_dt)})
    }
}

type Iv = (NaiveDateTime, NaiveDateTime, u8);

fn expected_stream(env: &Env, from: NaiveDateTime, to: NaiveDateTime) -> Vec<Iv> {
    let mut out: Vec<Iv> = Vec::new();
    let mut u = from;
    while u < to {
        let k = env.state_abs(u);
        match out.last_mut() {
            Some(l) if l.2 == k => l.1 = u + Duration::minutes(1),
            _ => out.push((u, u + Duration::minutes(1), k)),
        }
        u += Duration::minutes(1);
    }
    out
}

fn fmt_iv(v: &[Iv]) -> String {
    v.iter().map(|(s, e, k)| format!("[{}Z..{}Z {}]", fmt_dt(*s), fmt_dt(*e), ["closed", "open", "unknown"][*k as usize % 3])).collect::<Vec<_>>().join(" ")
}

/// One `iter_range(from, to)` window in absolute time: C02's shape clauses (and C08's containment).
fn check_window(which: Which, env: &Env, oh: &OpeningHours<TzLocation<Tz>>, from: NaiveDateTime, to: NaiveDateTime, in_utc: bool, acc: &mut Acc) -> bool {
    let tz = env.tz;
    let got = catch(|| {
        if in_utc {
            let (f, t) = (chrono_tz::UTC.from_utc_datetime(&from), chrono_tz::UTC.from_utc_datetime(&to));
            oh.iter_range(f.with_timezone(&tz), t.with_timezone(&tz)).take(4000).map(|r| (r.range.start.naive_utc(), r.range.end.naive_utc(), kind_code(r.kind))).collect::<Vec<Iv>>()
        } else {
            oh.iter_range(tz.from_utc_datetime(&from), tz.from_utc_datetime(&to)).take(4000).map(|r| (r.range.start.naive_utc(), r.range.end.naive_utc(), kind_code(r.kind))).collect::<Vec<Iv>>()
        }
    });
    let feats = env.feats(from, to);
    let case = env.case(which, from, Some(to));
    let head = format!("[{}] `{}` iter_range({}Z, {}Z)", tz.name(), env.expr, fmt_dt(from), fmt_dt(to));
    let got = match got {
        Ok(g) => g,
        Err(p) => {
            // totality is C04's subject; a panic here is still reported (no finding lists it)
            acc.violate(Violation::new("panic_in_tz_context", feats, case, format!("{head} panicked: {} at {}", p.msg, p.loc)));
            return false;
        }
    };
    let mut ok = true;
    if which == Which::C08 {
        for (s, e, _) in &got {
            if *s < from {
                acc.violate(Violation::new("interval_starts_before_requested_start", feats.clone(), case.clone(), format!("{head}: interval starts at {}Z", fmt_dt(*s))));
                return false;
            }
            if *e > to {
                // a requested end inside the first pass of a repeated hour: every bound up to its wall-clock
                // time comes back as the later of the two instants, at most δ after the requested end
                let located = env.fold_of_first_pass(to).map(|t| *e <= to + Duration::minutes(delta_min(t))).unwrap_or(false);
                let kind = if located { "interval_ends_after_requested_end_inside_first_pass_of_repeated_hour" } else { "interval_ends_after_requested_end" };
                acc.violate(Violation::new(kind, feats.clone(), case.clone(), format!("{head}: interval ends at {}Z, after the requested end", fmt_dt(*e))));
                return false;
            }
        }
        return true;
    }
    // --- C02
    if from >= to {
        if !got.is_empty() {
            // wall-clock times of a first pass compare as later than those of the second pass
            let located = from > to && env.fold_of_first_pass(to).is_some();
            let kind = if located { "inverted_window_ending_inside_first_pass_of_repeated_hour_yields_intervals" } else { "intervals_for_empty_window" };
            acc.violate(Violation::new(kind, feats, case, format!("{head}: {}", fmt_iv(&got))));
            return false;
        }
        return true;
    }
    // (a) non-empty
    let mut clean: Vec<Iv> = Vec::new();
    for (s, e, k) in &got {
        if s >= e {
            let located = s == e && env.is_gap_instant(*s);
            let kind = if located { "empty_interval_at_instant_of_skipped_hour" } else { "empty_or_inverted_interval" };
            acc.violate(Violation::new(kind, feats.clone(), case.clone(), format!("{head}: yields the interval [{}Z..{}Z) in {}", fmt_dt(*s), fmt_dt(*e), fmt_iv(&got))));
            ok = false;
            continue;
        }
        clean.push((*s, *e, *k));
    }
    // (b) contiguous, consecutive intervals differ
    let mut merged: Vec<Iv> = Vec::new();
    for iv in &clean {
        match merged.last_mut() {
            Some(l) if l.1 != iv.0 => {
                acc.violate(Violation::new("intervals_not_contiguous", feats.clone(), case.clone(), format!("{head}: {} is followed by {}", fmt_iv(&[*l]), fmt_iv(&[*iv]))));
                return false;
            }
            Some(l) if l.2 == iv.2 => {
                let located = env.is_gap_instant(iv.0);
                let kind = if located { "equal_neighbours_at_instant_of_skipped_hour" } else { "consecutive_intervals_of_equal_state" };
                acc.violate(Violation::new(kind, feats.clone(), case.clone(), format!("{head}: two consecutive intervals of equal state meet at {}Z in {}", fmt_dt(iv.0), fmt_iv(&got))));
                ok = false;
                l.1 = iv.1;
            }
            _ => merged.push(*iv),
        }
    }
    // (c) covers exactly [from, to)
    let exp = expected_stream(env, from, to);
    let first = merged.first().copied();
    let last = merged.last().copied();
    let mut cmp_from = from;
    let mut cmp_to = to;
    match first {
        None => {
            // nothing at all for a non-empty window
            let located = env.fold_of_first_pass(from).map(|t| from + Duration::minutes(delta_min(t)) >= to).unwrap_or(false);
            let kind = if located { "window_inside_first_pass_of_repeated_hour_yields_nothing" } else { "no_interval_for_non_empty_window" };
            acc.violate(Violation::new(kind, feats, case, format!("{head}: no interval at all; pointwise: {}", fmt_iv(&exp))));
            return false;
        }
        Some(f) if f.0 != from => {
            let located = env.fold_of_first_pass(from).map(|t| f.0 == from + Duration::minutes(delta_min(t))).unwrap_or(false);
            let kind = if located { "first_interval_starts_after_from_inside_first_pass_of_repeated_hour" } else { "first_interval_does_not_start_at_from" };
            acc.violate(Violation::new(kind, feats.clone(), case.clone(), format!("{head}: the first interval starts at {}Z", fmt_dt(f.0))));
            ok = false;
            cmp_from = f.0.max(from);
        }
        _ => {}
    }
    if let Some(l) = last {
        if l.1 != to {
            let located = env.fold_of_first_pass(to).map(|t| l.1 == to + Duration::minutes(delta_min(t))).unwrap_or(false);
            let kind = if located { "last_interval_ends_after_to_inside_first_pass_of_repeated_hour" } else { "last_interval_does_not_end_at_to" };
            acc.violate(Violation::new(kind, feats.clone(), case.clone(), format!("{head}: the last interval ends at {}Z", fmt_dt(l.1))));
            ok = false;
            cmp_to = l.1.min(to);
        }
    }
    // (d) every covered minute of the window shows the pointwise state
    let mut bad_out: Option<(NaiveDateTime, u8, u8)> = None;
    let mut bad_in: Option<(NaiveDateTime, u8, u8)> = None;
    for (s, e, k) in &merged {
        let mut u = (*s).max(cmp_from);
        while u < (*e).min(cmp_to) {
            let x = env.state_abs(u);
            if x != *k {
                if env.fold_of_first_pass(u).is_some() {
                    bad_in.get_or_insert((u, *k, x));
                } else {
                    bad_out.get_or_insert((u, *k, x));
                }
            }
            u += Duration::minutes(1);
        }
    }
    let names = ["closed", "open", "unknown"];
    if let Some((u, k, x)) = bad_out {
        acc.violate(Violation::new("interval_state_differs_from_pointwise_state", feats.clone(), case.clone(), format!("{head}: at {}Z (wall clock {}) the stream says {}, the daily schedules say {}; stream {}; pointwise {}", fmt_dt(u), fmt_dt(wall(tz, u)), names[k as usize % 3], names[x as usize % 3], fmt_iv(&got), fmt_iv(&exp))));
        ok = false;
    } else if let Some((u, k, x)) = bad_in {
        acc.violate(Violation::new("state_change_inside_first_pass_of_repeated_hour_skipped", feats.clone(), case.clone(), format!("{head}: at {}Z (wall clock {}, first pass of a repeated hour) the stream says {}, the daily schedules say {}; stream {}; pointwise {}", fmt_dt(u), fmt_dt(wall(tz, u)), names[k as usize % 3], names[x as usize % 3], fmt_iv(&got), fmt_iv(&exp))));
        ok = false;
    }
    ok
}

/// One `next_change(t)` query in absolute time (C03).
fn check_next_change(env: &Env, oh: &OpeningHours<TzLocation<Tz>>, t: NaiveDateTime, horizon: NaiveDateTime, acc: &mut Acc) -> bool {
    let tz = env.tz;
    let feats = env.feats(t, horizon);
    let case = env.case(Which::C03, t, None);
    let head = format!("[{}] `{}` next_change({}Z)", tz.name(), env.expr, fmt_dt(t));
    let got = match catch(|| oh.next_change(tz.from_utc_datetime(&t)).map(|d| d.naive_utc())) {
        Ok(g) => g,
        Err(p) => {
            acc.violate(Violation::new("panic_in_tz_context", feats, case, format!("{head} panicked: {} at {}", p.msg, p.loc)));
            return false;
        }
    };
    let k0 = env.state_abs(t);
    let mut exp: Option<NaiveDateTime> = None;
    let mut u = t + Duration::minutes(1);
    while u < horizon {
        if env.state_abs(u) != k0 {
            exp = Some(u);
            break;
        }
        u += Duration::minutes(1);
    }
    let names = ["closed", "open", "unknown"];
    match (got, exp) {
        (Some(g), _) if g <= t => {
            acc.violate(Violation::new("next_change_not_after_query", feats, case, format!("{head} = {}Z", fmt_dt(g))));
            false
        }
        (Some(g), Some(e)) if g == e => true,
        (Some(g), Some(e)) if g < e => {
            // earlier than the first pointwise change: the state at g is the state at t
            let located = env.is_gap_instant(g);
            let kind = if located { "next_change_at_instant_of_skipped_hour_without_state_change" } else { "next_change_earlier_than_first_state_change" };
            acc.violate(Violation::new(kind, feats, case, format!("{head} = {}Z, but the state ({}) stays the same until {}Z", fmt_dt(g), names[k0 as usize % 3], fmt_dt(e))));
            false
        }
        (Some(g), Some(e)) => {
            let located = env.in_repeated(e);
            let kind = if located { "next_change_misses_state_change_inside_repeated_hour" } else { "next_change_later_than_first_state_change" };
            acc.violate(Violation::new(kind, feats, case, format!("{head} = {}Z, but the state ({}) already changes at {}Z (wall clock {})", fmt_dt(g), names[k0 as usize % 3], fmt_dt(e), fmt_dt(wall(tz, e)))));
            false
        }
        (None, Some(e)) => {
            let located = env.in_repeated(e);
            let kind = if located { "next_change_misses_state_change_inside_repeated_hour" } else { "next_change_later_than_first_state_change" };
            acc.violate(Violation::new(kind, feats, case, format!("{head} = none, but the state ({}) changes at {}Z", names[k0 as usize % 3], fmt_dt(e))));
            false
        }
        (Some(g), None) if g < horizon => {
            let located = env.is_gap_instant(g);
            let kind = if located { "next_change_at_instant_of_skipped_hour_without_state_change" } else { "next_change_earlier_than_first_state_change" };
            acc.violate(Violation::new(kind, feats, case, format!("{head} = {}Z, but the state ({}) stays the same until at least {}Z", fmt_dt(g), names[k0 as usize % 3], fmt_dt(horizon))));
            false
        }
        // no change inside the horizon and the answer is beyond it (or none): nothing to compare
        _ => true,
    }
}

pub fn check_transition(which: Which, tz: Tz, tr: &Transition, all: &[Transition], only: Option<(&str, NaiveDateTime, Option<NaiveDateTime>)>, acc: &mut Acc) {
    let near: Vec<Transition> = all.iter().filter(|o| (o.t - tr.t).num_days().abs() <= 3).copied().collect();
    if near.iter().any(|t| !aligned(t)) {
        acc.add("tz_transitions_skipped_not_minute_aligned", 1);
        return;
    }
    let pts = points(tr);
    let lo = *pts.first().unwrap();
    let hi = *pts.last().unwrap();
    let ctx = Context::default().with_locale(TzLocation::new(tz));
    let exprs: Vec<String> = match only {
        Some((e, _, _)) => vec![e.to_string()],
        None => expressions(tr),
    };
    for e in &exprs {
        let Ok(oh_naive) = OpeningHours::parse(e) else { continue };
        let d0 = (wall(tz, lo) - Duration::days(2)).date();
        let d1 = (wall(tz, hi) + Duration::days(3)).date();
        let p = Pointwise::build(&oh_naive, d0, d1);
        let oh = oh_naive.clone().with_context(ctx.clone());
        let env = Env { tz, near: &near, expr: e, p: &p };
        if let Some((_, from, to)) = only {
            match (which, to) {
                (Which::C03, _) => {
                    check_next_change(&env, &oh, from, hi.max(from) + Duration::hours(30), acc);
                }
                (w, Some(to)) => {
                    check_window(w, &env, &oh, from, to, false, acc);
                    check_window(w, &env, &oh, from, to, true, acc);
                }
                _ => {}
            }
            continue;
        }
        acc.add("tz_expression_transitions", 1);
        match which {
            Which::C03 => {
                let horizon = hi + Duration::hours(30);
                for t in &pts {
                    acc.add("tz_next_change_queries", 1);
                    acc.add("states", 1);
                    acc.add("transitions", 1);
                    if check_next_change(&env, &oh, *t, horizon, acc) {
                        acc.add("traces_validated_against_impl", 2);
                    }
                }
            }
            _ => {
                for (i, from) in pts.iter().enumerate() {
                    for (j, to) in pts.iter().enumerate() {
                        // every ordered pair, the empty window, and one inverted window per start
                        if j < i && j + 1 != i {
                            continue;
                        }
                        acc.add("tz_windows", 1);
                        acc.add("states", 1);
                        acc.add("transitions", 1);
                        if check_window(which, &env, &oh, *from, *to, (i + j) % 2 == 1, acc) {
                            acc.add("traces_validated_against_impl", 1);
                        }
                    }
                }
            }
        }
    }
}

/// The transitions explored: one zone per distinct minute-aligned (offset before, offset after,
/// local time of day, weekday class) signature in the quick tier, every transition of every zone
/// in the thorough tier.
pub fn run(which: Which, quick: bool, acc: &mut Acc) -> Value {
    let per_zone: Vec<(Tz, Vec<Transition>)> = TZ_VARIANTS.par_iter().map(|tz| (*tz, transitions(*tz, 1900, 2040))).collect();
    let mut signatures: BTreeMap<(i32, i32, u32), (usize, usize)> = BTreeMap::new();
    let mut work: Vec<(usize, usize)> = Vec::new();
    for (zi, (_, trs)) in per_zone.iter().enumerate() {
        for (ti, tr) in trs.iter().enumerate() {
            if !aligned(tr) {
                continue;
            }
            let w = tr.t + Duration::seconds(tr.before as i64);
            let sig = (tr.before, tr.after, w.num_seconds_from_midnight());
            signatures.entry(sig).or_insert((zi, ti));
            if !quick && ti % 7 == zi % 7 {
                work.push((zi, ti));
            }
        }
    }
    if quick {
        work = signatures.values().copied().collect();
    } else {
        for v in signatures.values() {
            if !work.contains(v) {
                work.push(*v);
            }
        }
        work.sort();
    }
    let accs: Vec<Acc> = work
        .par_iter()
        .with_max_len(4)
        .map(|(zi, ti)| {
            let mut a = Acc::new();
            let (tz, trs) = &per_zone[*zi];
            check_transition(which, *tz, &trs[*ti], trs, None, &mut a);
            a.add("tz_transitions_explored", 1);
            a
        })
        .collect();
    for a in accs {
        acc.merge(a);
    }
    json!({
        "rule": "time-zone contexts: one zone per distinct minute-aligned (offset before, offset after, local time of day) transition signature of the compiled tz database, 1900..2040 (thorough: plus every 7th transition of every zone) × 8 fixed expressions + 6 spans placed on the skipped/repeated wall-clock stretch × an instant alphabet of up to 33 absolute instants around the transition (T, T−δ, T+δ, each ± {0, 1, 29, 30, 31, 90} min; δ = size of the offset change): every ordered pair as an iter_range window (given in the context zone and in UTC alternately), the empty and one inverted window per start, every instant as a next_change query. Oracle in absolute time: the state of an absolute minute is what the location-free daily schedules (real schedule_at) give to its wall-clock time in the zone",
        "transition_signatures_minute_aligned": signatures.len(),
        "transitions_explored": work.len(),
    })
}

pub fn is_case(case: &Value) -> bool {
    case.get("tzshape").is_some()
}

pub fn replay(which: Which, case: &Value) -> Vec<Violation> {
    let mut acc = Acc::new();
    let Some(name) = case.get("tz").and_then(|v| v.as_str()) else { return vec![] };
    let Ok(tz) = name.parse::<Tz>() else { return vec![] };
    let Some(from) = case.get("from_utc").and_then(|v| v.as_str()).and_then(parse_dt) else { return vec![] };
    let to = case.get("to_utc").and_then(|v| v.as_str()).and_then(parse_dt);
    let expr = case.get("expr").and_then(|v| v.as_str()).unwrap_or("24/7");
    let trs = transitions(tz, 1900, 2040);
    let Some(tr) = trs.iter().min_by_key(|t| (t.t - from).num_seconds().abs()) else { return vec![] };
    check_transition(which, tz, tr, &trs, Some((expr, from, to)), &mut acc);
    acc.groups.into_values().flat_map(|g| g.examples).collect()
}
