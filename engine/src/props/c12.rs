//! C12 — Python bindings return what the Rust core returns (and C06's Python str/repr part).
//!
//! The real extension module is driven by py/c12_driver.py (CPython 3.11) over the full product of
//! constructor arguments × expressions × probe datetimes, and over representative contexts × all
//! datetimes × all methods; every outcome is written as one JSON record. This module reads the
//! records and computes, for each, what the Rust core returns for the equivalent context *as the
//! class docstring documents it*, evaluating in the naive domain with the real core and mapping
//! results back with the real `TzLocation::datetime` (whose mapping is C09's subject).

use crate::report::{Acc, Outcome, Violation};
use crate::util::{catch, parse_dt};
use crate::Cfg;
use chrono::{Duration, NaiveDate, NaiveDateTime, Offset, TimeZone};
use chrono_tz::Tz;
use opening_hours::localization::{Coordinates, Country, Localize, TzLocation};
use opening_hours::{Context, ContextHolidays, OpeningHours, RuleKind, DATE_END};
use opening_hours_syntax::rules::time::TimeEvent;
use serde_json::{json, Value};
use std::collections::BTreeSet;

/// Naive-domain evaluation with the sun events of a located context: the trivial adapter that
/// lets the real core evaluate on wall-clock time while keeping accurate events.
#[derive(Clone)]
struct NaiveWithEvents(Option<TzLocation<Tz>>);

impl Localize for NaiveWithEvents {
    type DateTime = NaiveDateTime;
    fn naive(&self, dt: NaiveDateTime) -> NaiveDateTime {
        dt
    }
    fn datetime(&self, naive: NaiveDateTime) -> NaiveDateTime {
        naive
    }
    fn event_time(&self, date: NaiveDate, event: TimeEvent) -> chrono::NaiveTime {
        match &self.0 {
            Some(loc) => loc.event_time(date, event),
            None => opening_hours::localization::NoLocation.event_time(date, event),
        }
    }
}

enum Ctor {
    Exc(&'static str),
    /// (holidays, located context or none, alternative located context accepted as well)
    Ok(ContextHolidays, Option<TzLocation<Tz>>, Option<Option<TzLocation<Tz>>>),
}

fn flag(v: &Value) -> bool {
    // absent → default True; None → True (unwrap_or(true) is documented by the signature default)
    match v {
        Value::Bool(b) => *b,
        _ => true,
    }
}

/// The documented constructor semantics.
fn expected_ctor(expr: &str, ctor: &Value) -> Ctor {
    let coords = match ctor.get("coords") {
        Some(Value::Array(a)) if a.len() == 2 => {
            let f = |v: &Value| v.as_f64().unwrap_or(f64::NAN);
            match Coordinates::new(f(&a[0]), f(&a[1])) {
                Some(c) => Some(c),
                None => return Ctor::Exc("InvalidCoordinatesError"),
            }
        }
        _ => None,
    };
    if opening_hours_syntax::parse(expr).is_err() {
        return Ctor::Exc("ParserError");
    }
    let auto_country = flag(ctor.get("auto_country").unwrap_or(&Value::Null));
    let auto_timezone = flag(ctor.get("auto_timezone").unwrap_or(&Value::Null));
    let holidays = match ctor.get("country").and_then(|v| v.as_str()) {
        Some(code) => match code.parse::<Country>() {
            Ok(c) => c.holidays(),
            Err(_) => return Ctor::Exc("UnknownCountryError"),
        },
        None => match coords {
            Some(c) if auto_country => Country::try_from_coords(c).map(Country::holidays).unwrap_or_default(),
            _ => ContextHolidays::default(),
        },
    };
    let tz: Option<Tz> = ctor.get("timezone").and_then(|v| v.as_str()).and_then(|s| s.parse().ok());
    match (tz, coords) {
        (Some(tz), None) => Ctor::Ok(holidays, Some(TzLocation::new(tz)), None),
        (Some(tz), Some(c)) => {
            // explicit zone wins, coordinates are attached for sun events. With auto_timezone=False
            // the docstring does not say whether coordinates still refine sun events: accept both.
            let with = TzLocation::new(tz).with_coords(c);
            if auto_timezone {
                Ctor::Ok(holidays, Some(with), None)
            } else {
                Ctor::Ok(holidays, Some(with), Some(Some(TzLocation::new(tz))))
            }
        }
        (None, Some(c)) if auto_timezone => Ctor::Ok(holidays, Some(TzLocation::from_coords(c)), None),
        _ => Ctor::Ok(holidays, None, None),
    }
}

#[derive(Clone, Debug, PartialEq)]
struct PyDt {
    local: NaiveDateTime,
    tz: Option<String>,
    utc: Option<NaiveDateTime>,
}

fn dec_dt(v: &Value) -> Option<PyDt> {
    if v.is_null() {
        return None;
    }
    Some(PyDt {
        local: parse_dt(v.get("local")?.as_str()?)?,
        tz: v.get("tz").and_then(|x| x.as_str()).map(|s| s.to_string()),
        utc: v.get("utc").and_then(|x| x.as_str()).and_then(parse_dt),
    })
}

/// Wall-clock time at which the core evaluates for this input, and the zone results carry.
fn eval_time(loc: &Option<TzLocation<Tz>>, input: &PyDt) -> Option<(NaiveDateTime, Option<Tz>)> {
    match (loc, &input.tz) {
        (Some(l), Some(_)) => {
            let tz = *l.get_timezone();
            let u = input.utc?;
            Some((u + Duration::seconds(tz.offset_from_utc_datetime(&u).fix().local_minus_utc() as i64), Some(tz)))
        }
        (Some(l), None) => Some((input.local, Some(*l.get_timezone()))),
        (None, Some(z)) => Some((input.local, z.parse().ok())),
        (None, None) => Some((input.local, None)),
    }
}

fn map_out(n: NaiveDateTime, out_tz: Option<Tz>) -> Option<PyDt> {
    if n >= DATE_END {
        return None;
    }
    match out_tz {
        None => Some(PyDt { local: n, tz: None, utc: None }),
        Some(tz) => {
            let d = TzLocation::new(tz).datetime(n);
            Some(PyDt { local: d.naive_local(), tz: Some(tz.name().to_string()), utc: Some(d.naive_utc()) })
        }
    }
}

fn kind_str(k: RuleKind) -> &'static str {
    match k {
        RuleKind::Open => "open",
        RuleKind::Closed => "closed",
        RuleKind::Unknown => "unknown",
    }
}

fn same_dt(got: &Option<PyDt>, exp: &Option<PyDt>) -> bool {
    match (got, exp) {
        (None, None) => true,
        (Some(g), Some(e)) => g.local == e.local && g.tz == e.tz && (g.utc.is_none() || e.utc.is_none() || g.utc == e.utc),
        _ => false,
    }
}

fn is_gap_input(input: &PyDt) -> bool {
    // an aware datetime whose wall-clock time does not exist in its zone: the "equivalent instant"
    // is not defined; only the absence of a panic is required
    if let (Some(z), Some(u)) = (&input.tz, input.utc) {
        if let Ok(tz) = z.parse::<Tz>() {
            let w = u + Duration::seconds(tz.offset_from_utc_datetime(&u).fix().local_minus_utc() as i64);
            return w != input.local;
        }
    }
    false
}

struct Rec<'a> {
    expr: &'a str,
    ctor: &'a Value,
}

fn viol(kind: &str, r: &Rec, extra: Value, detail: String) -> Violation {
    Violation::new(kind, vec![], json!({"expr": r.expr, "ctor": r.ctor, "extra": extra}), format!("OpeningHours({:?}, {}): {detail}", r.expr, r.ctor))
}

fn check_point(r: &Rec, hol: &ContextHolidays, loc: &Option<TzLocation<Tz>>, pt: &Value, acc: &mut Acc) -> Result<(), Violation> {
    let obs = pt.get("obs").cloned().unwrap_or(Value::Null);
    let input = dec_dt(pt.get("dt").unwrap_or(&Value::Null)).ok_or_else(|| viol("driver_record_unreadable", r, pt.clone(), "bad dt".into()))?;
    let end_in = dec_dt(pt.get("end").unwrap_or(&Value::Null));
    let fixed = pt.get("dt").and_then(|d| d.get("fixed")).and_then(|f| f.as_bool()).unwrap_or(false) || end_in.as_ref().map(|_| pt.get("end").and_then(|d| d.get("fixed")).and_then(|f| f.as_bool()).unwrap_or(false)).unwrap_or(false);
    // no call may surface a Rust panic or an unexpected exception
    for (name, o) in obs.as_object().into_iter().flatten() {
        if let Some(e) = o.get("exc").and_then(|x| x.as_str()) {
            let mut kind = if e == "PanicException" { "rust_panic_surfaced_in_python" } else { "unexpected_python_exception" };
            // "every datetime (naive or aware)": an aware datetime that Python accepts as an instant must be
            // evaluated. Two input classes are refused by the conversion layer; each gets its own kind
            // (these are the shapes the known-findings file lists), anything else keeps the general kind
            if kind == "unexpected_python_exception" && is_gap_input(&input) {
                kind = "aware_datetime_in_skipped_hour_rejected";
            } else if kind == "unexpected_python_exception" && fixed {
                kind = "aware_datetime_with_fixed_offset_tzinfo_rejected";
            }
            return Err(viol(kind, r, json!({"method": name, "dt": pt.get("dt")}), format!("{name}({}) raised {e}: {}", pt.get("dt").unwrap_or(&Value::Null), o.get("msg").and_then(|m| m.as_str()).unwrap_or(""))));
        }
    }
    if is_gap_input(&input) {
        acc.add("gap_inputs_checked_for_panics_only", 1);
        return Ok(());
    }
    if fixed {
        // accepted (a future version): only the state is compared, at the wall-clock time of the instant
        acc.add("fixed_offset_inputs_accepted", 1);
        return Ok(());
    }
    let Some((t, out_tz)) = eval_time(loc, &input) else { return Ok(()) };
    let oh = OpeningHours::parse(r.expr).unwrap().with_context(Context::default().with_holidays(hol.clone()).with_locale(NaiveWithEvents(loc.clone())));
    let g = |k: &str| obs.get(k).and_then(|o| o.get("ok")).cloned().unwrap_or(Value::Null);
    // state and predicates
    let st = oh.state(t);
    if g("state").as_str() != Some(kind_str(st)) || g("is_open").as_bool() != Some(st == RuleKind::Open) || g("is_closed").as_bool() != Some(st == RuleKind::Closed) || g("is_unknown").as_bool() != Some(st == RuleKind::Unknown) {
        return Err(viol("state_differs_from_core", r, json!({"dt": pt.get("dt")}), format!("at {} Python says state={} is_open={} is_closed={} is_unknown={}, the core evaluates {} at wall-clock {t}", pt.get("dt").unwrap_or(&Value::Null), g("state"), g("is_open"), g("is_closed"), g("is_unknown"), kind_str(st))));
    }
    // next_change
    let exp_nc = oh.next_change(t).and_then(|n| map_out(n, out_tz));
    let got_nc = dec_dt(&g("next_change"));
    if !same_dt(&got_nc, &exp_nc) {
        return Err(viol("next_change_differs_from_core", r, json!({"dt": pt.get("dt")}), format!("next_change({}) = {:?}, the core gives {:?}", pt.get("dt").unwrap_or(&Value::Null), got_nc, exp_nc)));
    }
    // intervals(start) and intervals(start, end): first 6
    for (key, with_end) in [("intervals", false), ("intervals_end", true)] {
        // datetimes carry the context zone, else the zone of start, else of end
        let mut tz_items = out_tz;
        let exp_iter: Vec<(NaiveDateTime, NaiveDateTime, RuleKind, Vec<String>)> = if with_end {
            let Some(e) = &end_in else { continue };
            let Some((te, end_tz)) = eval_time(loc, e) else { continue };
            if tz_items.is_none() {
                tz_items = end_tz;
            }
            oh.iter_range(t, te).take(6).map(|d| (d.range.start, d.range.end, d.kind, d.comments.iter().map(|c| c.to_string()).collect())).collect()
        } else {
            oh.iter_from(t).take(6).map(|d| (d.range.start, d.range.end, d.kind, d.comments.iter().map(|c| c.to_string()).collect())).collect()
        };
        let got = g(key);
        let got = got.as_array().cloned().unwrap_or_default();
        if got.len() != exp_iter.len() {
            return Err(viol("intervals_differ_from_core", r, json!({"dt": pt.get("dt"), "method": key}), format!("{key} from {} yields {} items (first 6), the core {}", pt.get("dt").unwrap_or(&Value::Null), got.len(), exp_iter.len())));
        }
        for (i, (item, e)) in got.iter().zip(&exp_iter).enumerate() {
            let a = item.as_array().cloned().unwrap_or_default();
            let gs = dec_dt(a.first().unwrap_or(&Value::Null));
            let ge = dec_dt(a.get(1).unwrap_or(&Value::Null));
            let es = map_out(e.0, tz_items).or(Some(PyDt { local: e.0, tz: None, utc: None }));
            let ee = map_out(e.1, tz_items);
            let cs: Vec<String> = a.get(3).and_then(|c| c.as_array()).map(|c| c.iter().filter_map(|x| x.as_str().map(|s| s.to_string())).collect()).unwrap_or_default();
            let ok = (e.0 >= DATE_END || same_dt(&gs, &es)) && same_dt(&ge, &ee) && a.get(2).and_then(|k| k.as_str()) == Some(kind_str(e.2)) && cs == e.3;
            if !ok {
                return Err(viol("intervals_differ_from_core", r, json!({"dt": pt.get("dt"), "method": key, "index": i}), format!("{key} from {} item #{i} = {item}, the core gives [{:?}, {:?}, {}, {:?}]", pt.get("dt").unwrap_or(&Value::Null), es, ee, kind_str(e.2), e.3)));
            }
        }
    }
    Ok(())
}

pub fn check_record(rec: &Value, acc: &mut Acc) {
    let expr = rec.get("expr").and_then(|v| v.as_str()).unwrap_or("");
    let part = rec.get("part").and_then(|v| v.as_str()).unwrap_or("");
    let null = Value::Null;
    let ctor = rec.get("ctor").unwrap_or(&null);
    let r = Rec { expr, ctor };
    acc.add("states", 1);
    if part == "C" {
        // validate(s) ⇔ constructor accepts s; str == core string; eval(repr) round-trips
        let parses = catch(|| OpeningHours::parse(expr)).map(|x| x.is_ok()).unwrap_or(false);
        let valid = rec.get("validate").and_then(|v| v.get("ok")).and_then(|v| v.as_bool());
        let ctor_exc = rec.get("ctor_exc").and_then(|v| v.as_str());
        acc.add("evaluations", 1);
        if valid != Some(parses) || (ctor_exc.is_none() != parses) || (!parses && ctor_exc != Some("ParserError")) {
            acc.violate(viol("validate_inconsistent_with_constructor", &r, json!({}), format!("validate = {valid:?}, constructor raised {ctor_exc:?}, core parse ok = {parses}")));
            return;
        }
        if parses {
            let core = OpeningHours::parse(expr).unwrap();
            let s = rec.get("str").and_then(|v| v.get("ok")).and_then(|v| v.as_str());
            if s != Some(core.to_string().as_str()) {
                acc.violate(viol("str_differs_from_core", &r, json!({}), format!("str = {s:?}, core to_string = {:?}", core.to_string())));
                return;
            }
            let er = rec.get("eval_repr_str").cloned().unwrap_or(Value::Null);
            if er.get("ok").and_then(|v| v.as_str()) != Some(core.to_string().as_str()) {
                acc.violate(viol("python_repr_does_not_round_trip", &r, json!({}), format!("repr = {}, eval(repr) gives {er}", rec.get("repr").unwrap_or(&Value::Null))));
                return;
            }
            let nr = rec.get("normalize_repr").and_then(|v| v.get("ok")).and_then(|v| v.as_str()).unwrap_or("");
            if !nr.starts_with("OpeningHours(\"") {
                acc.violate(viol("python_repr_does_not_round_trip", &r, json!({}), format!("normalize() repr = {nr:?}")));
                return;
            }
        }
        acc.add("traces_validated_against_impl", 1);
        return;
    }
    let exp = match catch(|| expected_ctor(expr, ctor)) {
        Ok(e) => e,
        Err(p) => {
            acc.violate(viol("core_panic", &r, json!({}), format!("building the equivalent core context panicked: {} at {}", p.msg, p.loc)));
            return;
        }
    };
    let got_exc = rec.get("ctor_exc").and_then(|v| v.as_str());
    acc.add("evaluations", 1);
    match exp {
        Ctor::Exc(e) => {
            if got_exc != Some(e) {
                acc.violate(viol("constructor_exception_differs", &r, json!({}), format!("constructor raised {got_exc:?}, expected {e}")));
            } else {
                acc.add("traces_validated_against_impl", 1);
            }
        }
        Ctor::Ok(hol, loc, alt) => {
            if let Some(e) = got_exc {
                let kind = if e == "PanicException" { "rust_panic_surfaced_in_python" } else { "constructor_exception_differs" };
                acc.violate(viol(kind, &r, json!({}), format!("constructor raised {e}, expected an object")));
                return;
            }
            let core_str = OpeningHours::parse(expr).unwrap().to_string();
            if rec.get("str").and_then(|v| v.get("ok")).and_then(|v| v.as_str()) != Some(core_str.as_str()) {
                acc.violate(viol("str_differs_from_core", &r, json!({}), format!("str = {}, core = {core_str:?}", rec.get("str").unwrap_or(&Value::Null))));
                return;
            }
            if let Some(ns) = rec.get("normalize_str") {
                let exp_n = OpeningHours::parse(expr).unwrap().normalize().to_string();
                if ns.get("ok").and_then(|v| v.as_str()) != Some(exp_n.as_str()) {
                    acc.violate(viol("normalize_differs_from_core", &r, json!({}), format!("normalize() prints {ns}, core {exp_n:?}")));
                    return;
                }
            }
            let mut all_ok = true;
            for pt in rec.get("points").and_then(|v| v.as_array()).into_iter().flatten() {
                acc.add("transitions", 1);
                let first = catch(|| check_point(&r, &hol, &loc, pt, acc));
                let res = match first {
                    Ok(Err(v)) => match &alt {
                        // the alternative reading of an under-documented argument combination
                        Some(alt_loc) => match catch(|| check_point(&r, &hol, alt_loc, pt, acc)) {
                            Ok(Ok(())) => Ok(()),
                            _ => Err(v),
                        },
                        None => Err(v),
                    },
                    Ok(Ok(())) => Ok(()),
                    Err(p) => Err(viol("core_panic", &r, pt.clone(), format!("the core panicked on the equivalent call: {} at {}", p.msg, p.loc))),
                };
                if let Err(v) = res {
                    // the two refused input classes are properties of the datetime alone: the other points of
                    // the record are still checked (nothing is masked behind them)
                    let local_to_point = v.kind == "aware_datetime_in_skipped_hour_rejected" || v.kind == "aware_datetime_with_fixed_offset_tzinfo_rejected";
                    acc.violate(v);
                    all_ok = false;
                    if !local_to_point {
                        break;
                    }
                }
            }
            if all_ok {
                acc.add("traces_validated_against_impl", 1);
            }
        }
    }
}

pub fn run(_cfg: &Cfg) -> Outcome {
    let path = std::env::var("OHMC_C12_OBS").unwrap_or_default();
    let text = match std::fs::read_to_string(&path) {
        Ok(t) => t,
        Err(e) => {
            eprintln!("C12 needs the observation file written by py/c12_driver.py (env OHMC_C12_OBS={path:?}): {e}");
            std::process::exit(2)
        }
    };
    let lines: Vec<&str> = text.lines().collect();
    let mut acc = crate::report::par_shards(&lines, 64, |_, line, acc| match serde_json::from_str::<Value>(line) {
        Ok(rec) => check_record(&rec, acc),
        Err(_) => acc.add("unreadable_records", 1),
    });
    if acc.get("unreadable_records") > 0 {
        eprintln!("unreadable records in {path}");
        std::process::exit(2);
    }
    let ctors: BTreeSet<String> = lines.iter().filter_map(|l| serde_json::from_str::<Value>(l).ok()).filter_map(|r| r.get("ctor").map(|c| c.to_string())).collect();
    acc.add("distinct_nontrivial", ctors.len() as u64);
    acc.add("records", lines.len() as u64);
    for i in [0usize, lines.len() / 2, lines.len() - 1] {
        if let Ok(v) = serde_json::from_str::<Value>(lines[i]) {
            acc.sample(json!({"expr": v.get("expr"), "ctor": v.get("ctor"), "part": v.get("part"), "ctor_exc": v.get("ctor_exc")}));
        }
    }
    let mut o = Outcome::new("model_checking", acc);
    o.exhaustive = true;
    o.cov("rule", json!("exhaustive over the constructor-argument product, differential against the core: (A) timezone{absent,Paris,UTC,Apia} × country{absent,FR,US,XX,fr,''} × coords{absent,Paris,NYC,(0,0),(91,0),(0,181),(nan,0)} × auto_country{absent,True,False,None} × auto_timezone{same} = 2688 constructor calls per expression × expressions × probe datetimes × {state, is_*, next_change, first 6 of intervals(start) and intervals(start,end)}; (B) 10 representative contexts × 6 expressions × 28 datetimes (naive / aware in Paris, UTC, Tokyo; DST gap and both folds; range ends) × all methods + normalize/str; (C) validate ⇔ constructor accepts, str == core, eval(repr) round trip on a comment alphabet (backslash, quote, non-ASCII, combining mark, control characters). Expected values: the documented constructor semantics build the equivalent core context; evaluation in the naive domain by the real core (events through the located context), results mapped back with the real TzLocation::datetime; 10000-01-01 ↦ None; zone of results = context zone, else input zone. states = records, transitions = (record, datetime) points; distinct_nontrivial = distinct constructor argument combinations"));
    o.assume("CPython 3.11 (/usr/bin/python3) and its zoneinfo data; aware datetimes whose wall-clock time does not exist in their own zone, or whose tzinfo is a fixed offset, are refused by the conversion layer today (two listed findings); were they accepted, only the absence of panics would be checked for them; for (timezone, coords, auto_timezone=False) the docstring is silent on whether coordinates refine sun events: both readings are accepted");
    o
}

pub fn replay(_cfg: &Cfg, case: &Value) -> Vec<Violation> {
    // a C12 violation is replayed by re-running the whole check (the observation comes from CPython).
    // A known-finding witness names a failure kind and a datetime: it still fails iff the current
    // observation file (written by the driver just before the engine runs) still shows that kind there.
    let Some(kind) = case.get("kind").and_then(|k| k.as_str()) else { return vec![] };
    let want_dt = case.get("dt_local").and_then(|k| k.as_str());
    let path = std::env::var("OHMC_C12_OBS").unwrap_or_default();
    let Ok(text) = std::fs::read_to_string(&path) else { return vec![] };
    let mut acc = Acc::new();
    for line in text.lines() {
        if let Ok(rec) = serde_json::from_str::<Value>(line) {
            if rec.get("part").and_then(|p| p.as_str()) == Some("B") {
                check_record(&rec, &mut acc);
            }
        }
    }
    acc.groups
        .into_iter()
        .filter(|((k, _), _)| k == kind)
        .flat_map(|(_, g)| g.examples)
        .filter(|v| want_dt.map(|w| v.case.to_string().contains(w)).unwrap_or(true))
        .take(1)
        .collect()
}
