//! The normalisation family N (DESIGN §C07): 1–3 rules built from the canonical sub-alphabet
//! (the shapes `normalize` folds into its 5-D paving) mixed with non-canonical rules (which stop
//! the folding), all kinds, all separators; overlapping by construction.

use crate::gen::alphabet as al;
use crate::gen::ast::*;
use chrono::Weekday::*;

fn ds(y: Vec<YearRange>, m: Vec<MonthdayRange>, w: Vec<WeekRange>, d: Vec<WeekDayRange>) -> DaySelector {
    DaySelector { year: y, monthday: m, week: w, weekday: d }
}

pub fn canonical_shapes() -> Vec<(DaySelector, Vec<TimeSpan>)> {
    let t_day = vec![span(tfix(5, 0), tfix(23, 0))];
    let t_short = vec![span(tfix(13, 30), tfix(14, 0))];
    let t_two = vec![span(tfix(10, 0), tfix(12, 0)), span(tfix(14, 0), tfix(16, 0))];
    let t_early = vec![span(tfix(0, 0), tfix(5, 0))];
    vec![
        (ds(vec![], vec![], vec![], vec![]), vec![]),
        (ds(vec![], vec![], vec![], vec![]), t_day.clone()),
        (ds(vec![], vec![], vec![], vec![]), t_short.clone()),
        (ds(vec![], vec![], vec![], vec![]), t_two.clone()),
        (ds(vec![], vec![], vec![], vec![]), t_early.clone()),
        (ds(vec![yr(2020, 2020, 1)], vec![], vec![], vec![]), vec![]),
        (ds(vec![yr(2020, 2022, 1)], vec![], vec![], vec![]), t_day.clone()),
        (ds(vec![yr(2030, 2010, 1)], vec![], vec![], vec![]), vec![]),
        (ds(vec![yr(1900, 1900, 1)], vec![], vec![], vec![]), vec![]),
        (ds(vec![yr(9999, 9999, 1)], vec![], vec![], vec![]), t_short.clone()),
        (ds(vec![], vec![md_month(1, 1, None)], vec![], vec![]), vec![]),
        (ds(vec![], vec![md_month(4, 7, None)], vec![], vec![]), t_day.clone()),
        (ds(vec![], vec![md_month(11, 2, None)], vec![], vec![]), vec![]),
        (ds(vec![], vec![], vec![wk(1, 1, 1)], vec![]), vec![]),
        (ds(vec![], vec![], vec![wk(52, 1, 1)], vec![]), t_two.clone()),
        (ds(vec![], vec![], vec![wk(53, 53, 1)], vec![]), vec![]),
        (ds(vec![], vec![], vec![], vec![wd(Mon, Mon)]), vec![]),
        (ds(vec![], vec![], vec![], vec![wd(Mon, Fri)]), t_day.clone()),
        (ds(vec![], vec![], vec![], vec![wd(Wed, Mon)]), t_short.clone()),
        (ds(vec![], vec![], vec![], vec![wd(Sun, Sun)]), vec![]),
        (ds(vec![], vec![], vec![], vec![wd(Mon, Fri)]), t_early.clone()),
        (ds(vec![], vec![md_month(4, 7, None)], vec![], vec![wd(Mon, Mon)]), vec![]),
        (ds(vec![yr(2020, 2020, 1), yr(2024, 2024, 1)], vec![], vec![], vec![wd(Sat, Sun)]), t_two.clone()),
        (ds(vec![], vec![], vec![wk(1, 1, 1)], vec![wd(Mon, Fri)]), t_day.clone()),
        (ds(vec![], vec![md_month(11, 2, None)], vec![], vec![wd(Wed, Mon)]), t_short.clone()),
        (ds(vec![yr(2020, 2022, 1)], vec![md_month(1, 1, None)], vec![wk(1, 1, 1)], vec![wd(Mon, Mon)]), t_early.clone()),
    ]
}

pub fn noncanonical_rules() -> Vec<RuleSequence> {
    let ts = al::times();
    let open = &al::modifiers()[0];
    let unk = &al::modifiers()[2];
    let off = &al::modifiers()[1];
    let d = |w: Vec<WeekDayRange>| DaySelector { weekday: w, ..Default::default() };
    let mut out = vec![
        al::mk_rule(&DaySelector::default(), &ts[3], open),                       // 22:00-26:00
        al::mk_rule(&d(vec![wd(Mon, Mon)]), &ts[3], open),                        // Mo 22:00-26:00
        al::mk_rule(&DaySelector::default(), &ts[4], unk),                        // 23:00-01:00 unknown
        al::mk_rule(&DaySelector::default(), &ts[8], open),                       // 10:00+
        al::mk_rule(&DaySelector::default(), &ts[12], open),                      // dusk-sunrise
        al::mk_rule(&d(vec![wd_nth(Mon, &[1], 0)]), &[], open),                   // Mo[1]
        al::mk_rule(&d(vec![hol(HolidayKind::Public, 0)]), &[], off),             // PH off
        al::mk_rule(&DaySelector { monthday: vec![md_single(fixed(None, 1, 1), off0())], ..Default::default() }, &[], open), // Jan 1
        al::mk_rule(&DaySelector { year: vec![yr(2020, 2030, 3)], ..Default::default() }, &ts[1], open), // 2020-2030/3
        al::mk_rule(&DaySelector { week: vec![wk(1, 53, 2)], ..Default::default() }, &[], unk), // week 1-53/2
        al::mk_rule(&DaySelector { monthday: vec![md_month(12, 12, Some(2020))], ..Default::default() }, &[], open), // 2020Dec
        al::mk_rule(&DaySelector { monthday: vec![md_single(fixed(None, 7, 22), off0())], ..Default::default() }, &ts[6], open), // Jul 22 04:00-48:00
        al::mk_rule(&d(vec![wd(Mon, Fri)]), &ts[14], unk),                        // Mo-Fr 10:00-12:00,11:00-16:00 unknown
    ];
    out.push(al::mk_rule(&d(vec![wd(Sat, Sun)]), &ts[3], off));
    out
}

pub fn rn(quick: bool) -> Vec<RuleSequence> {
    let mods = al::modifiers();
    let mut out = Vec::new();
    for (i, (d, t)) in canonical_shapes().iter().enumerate() {
        out.push(al::mk_rule(d, t, &mods[0]));
        out.push(al::mk_rule(d, t, &mods[if i % 2 == 0 { 1 } else { 2 }]));
        if !quick || i % 3 == 0 {
            out.push(al::mk_rule(d, t, &mods[if i % 2 == 0 { 2 } else { 1 }]));
            out.push(al::mk_rule(d, t, &mods[4])); // closed "c"
        }
        if i % 4 == 1 {
            out.push(al::mk_rule(d, t, &mods[3])); // open "c"
        }
    }
    out.extend(noncanonical_rules());
    out
}

/// N1 ∪ N2 (∪ N3 in the thorough tier).
pub fn family(quick: bool) -> Vec<OpeningHoursExpression> {
    let r = rn(quick);
    let mut out: Vec<OpeningHoursExpression> = r.iter().map(|x| expr(vec![x.clone()])).collect();
    for a in &r {
        for b in &r {
            for op in al::OPERATORS {
                out.push(expr(vec![a.clone(), with_op(b.clone(), op)]));
            }
        }
    }
    // three rules with straddling weekday sets and distinct hours, kinds and comments: shapes whose
    // normal form has three rules where the middle one covers days of the first plus new days and
    // the last one only the new days (an agent's change to `canonical_to_seq` needed exactly that)
    {
        let mods = al::modifiers();
        let d = |a, b| DaySelector { weekday: vec![wd(a, b)], ..Default::default() };
        let t = |h1, h2| vec![span(tfix(h1, 0), tfix(h2, 0))];
        let small: Vec<RuleSequence> = vec![
            al::mk_rule(&d(Mon, Mon), &t(10, 12), &mods[0]),
            al::mk_rule(&d(Mon, Tue), &t(14, 16), &mods[2]),
            al::mk_rule(&d(Tue, Tue), &t(18, 20), &mods[2]),
            al::mk_rule(&d(Mon, Tue), &t(14, 16), &mods[3]),
            al::mk_rule(&d(Tue, Wed), &t(11, 15), &mods[0]),
            al::mk_rule(&d(Mon, Wed), &[], &mods[1]),
            al::mk_rule(&DaySelector { monthday: vec![md_month(1, 2, None)], ..Default::default() }, &t(8, 9), &mods[0]),
            al::mk_rule(&DaySelector { monthday: vec![md_month(2, 3, None)], ..Default::default() }, &t(12, 13), &mods[5]),
            al::mk_rule(&DaySelector { monthday: vec![md_month(3, 3, None)], ..Default::default() }, &t(17, 19), &mods[2]),
            al::mk_rule(&DaySelector::default(), &t(6, 7), &mods[0]),
        ];
        for a in &small {
            for b in &small {
                for c in &small {
                    for op1 in al::OPERATORS {
                        for op2 in al::OPERATORS {
                            out.push(expr(vec![a.clone(), with_op(b.clone(), op1), with_op(c.clone(), op2)]));
                        }
                    }
                }
            }
        }
    }
    // long expressions: 4..=20 canonical rules that fold into fewer (one rule per weekday half-day,
    // per month, per year, per week), joined by `;` or `,`, alone and followed by a closing rule, a
    // fallback rule or a non-canonical rule — whatever `normalize` does must not depend on how many
    // rules it is given (a round-8 agent bounded the paving to 12 rules; all other families stop at 3)
    {
        let mods = al::modifiers();
        let t = |h1, h2| vec![span(tfix(h1, 0), tfix(h2, 0))];
        let days = [Mon, Tue, Wed, Thu, Fri, Sat, Sun];
        let mut pools: Vec<Vec<RuleSequence>> = Vec::new();
        pools.push(days.iter().flat_map(|d| [t(8, 12), t(14, 18), t(20, 22)].into_iter().map(move |sp| (*d, sp))).map(|(d, sp)| al::mk_rule(&DaySelector { weekday: vec![wd(d, d)], ..Default::default() }, &sp, &mods[0])).collect());
        pools.push((1..=12u8).flat_map(|m| [t(10, 16), t(18, 20)].into_iter().map(move |sp| (m, sp))).map(|(m, sp)| al::mk_rule(&DaySelector { monthday: vec![md_month(m, m, None)], ..Default::default() }, &sp, &mods[0])).collect());
        pools.push((2020..=2039u16).map(|y| al::mk_rule(&DaySelector { year: vec![yr(y, y, 1)], ..Default::default() }, &t(9, 17), &mods[2])).collect());
        pools.push((1..=20u8).map(|w| al::mk_rule(&DaySelector { week: vec![wk(w, w, 1)], ..Default::default() }, &[], &mods[0])).collect());
        let tails: Vec<Option<RuleSequence>> = vec![
            None,
            Some(al::mk_rule(&DaySelector { weekday: vec![wd(Sun, Sun)], ..Default::default() }, &[], &mods[1])),
            Some(with_op(al::mk_rule(&DaySelector::default(), &[], &mods[2]), RuleOperator::Fallback)),
            Some(noncanonical_rules()[1].clone()),
        ];
        for pool in &pools {
            for n in 4..=pool.len().min(20) {
                if quick && n > 6 && n % 2 == 0 && n != 12 && n != 14 {
                    continue;
                }
                for op in [RuleOperator::Normal, RuleOperator::Additional] {
                    for tail in &tails {
                        let mut rules: Vec<RuleSequence> = pool[..n].iter().enumerate().map(|(i, r)| if i == 0 { r.clone() } else { with_op(r.clone(), op) }).collect();
                        if let Some(tl) = tail {
                            rules.push(tl.clone());
                        }
                        out.push(expr(rules));
                    }
                }
            }
        }
    }
    if !quick {
        // three rules: a reduced set (every third rule) in all orders and separator pairs
        let r3: Vec<&RuleSequence> = r.iter().step_by(4).collect();
        for a in &r3 {
            for b in &r3 {
                for c in &r3 {
                    for op1 in al::OPERATORS {
                        for op2 in al::OPERATORS {
                            out.push(expr(vec![(*a).clone(), with_op((*b).clone(), op1), with_op((*c).clone(), op2)]));
                        }
                    }
                }
            }
        }
    }
    out
}
