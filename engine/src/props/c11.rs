//! C11 — Sun events are physically ordered and consistent with coordinates and zone.
//!
//! Enumerated: (a) without coordinates, every date of the supported range × 4 events through
//! `NoLocation` and `TzLocation::new(tz)`: exactly 06:00 / 07:00 / 19:00 / 20:00; (b) a coordinate
//! grid (|lat| ≤ 60) ∪ named points at the edges of wide zones × every date of 1900..2100
//! (quick: every day of 8 years) × the four events: ordering as instants, an independent solar noon
//! strictly between sunrise and sunset, the real evaluator open at solar noon and closed at solar
//! midnight, `TzLocation::event_time` equal to the wall-clock time of the UTC event in the
//! inferred zone, inferred zone plausible for the longitude; (c) coordinate acceptance over the
//! IEEE-754 boundary set, every accepted pair yields a zone and evaluates.

use crate::report::{Acc, Outcome, Violation};
use crate::util::{catch, fmt_dt, ymd};
use crate::Cfg;
use chrono::{DateTime, Datelike, Duration, NaiveDate, NaiveDateTime, NaiveTime, Offset, TimeZone, Utc};
use chrono_tz::Tz;
use opening_hours::localization::{Coordinates, Country, Localize, NoLocation, TzLocation};
use opening_hours::{Context, OpeningHours, RuleKind};
use opening_hours_syntax::rules::time::TimeEvent;
use rayon::prelude::*;
use serde_json::{json, Value};

const EVENTS: [TimeEvent; 4] = [TimeEvent::Dawn, TimeEvent::Sunrise, TimeEvent::Sunset, TimeEvent::Dusk];

fn fixed_time(ev: TimeEvent) -> NaiveTime {
    let h = match ev {
        TimeEvent::Dawn => 6,
        TimeEvent::Sunrise => 7,
        TimeEvent::Sunset => 19,
        TimeEvent::Dusk => 20,
    };
    NaiveTime::from_hms_opt(h, 0, 0).unwrap()
}

/// Solar noon (UTC) from the longitude and the equation of time (Spencer 1971), ±2 min.
fn solar_noon_utc(date: NaiveDate, lon: f64) -> NaiveDateTime {
    let n = date.ordinal() as f64;
    let b = 2.0 * std::f64::consts::PI * (n - 1.0) / 365.0;
    let eot = 229.18 * (0.000075 + 0.001868 * b.cos() - 0.032077 * b.sin() - 0.014615 * (2.0 * b).cos() - 0.040849 * (2.0 * b).sin());
    let minutes = 720.0 - 4.0 * lon - eot;
    date.and_hms_opt(0, 0, 0).unwrap() + Duration::seconds((minutes * 60.0).round() as i64)
}

fn named_points() -> Vec<(&'static str, f64, f64)> {
    vec![
        ("Paris", 48.8535, 2.34839), ("Kashgar", 39.47, 75.99), ("Anchorage", 61.2 - 1.3, -149.9), ("Reykjavik-ish (59.9N)", 59.9, -21.9), ("Ushuaia", -54.8, -68.3), ("Apia", -13.83, -171.77),
        ("Chatham", -43.95, -176.55), ("Lord Howe", -31.55, 159.08), ("St John's", 47.56, -52.71), ("Kathmandu", 27.7, 85.32), ("Kiritimati", 1.87, -157.4), ("Tokyo", 35.68, 139.69), ("New York", 40.71, -74.0),
        ("Quito", -0.18, -78.47), ("Singapore", 1.35, 103.82), ("Vigo", 42.24, -8.72), ("Urumqi", 43.83, 87.62), ("Adak", 51.88, -176.66), ("Nuuk-ish (59.9N)", 59.9, -45.0), ("Cape Town", -33.92, 18.42),
        ("Perth", -31.95, 115.86), ("Eucla", -31.68, 128.88), ("Tehran", 35.69, 51.39), ("Kabul", 34.53, 69.17), ("Mumbai", 19.08, 72.88), ("Dakar", 14.72, -17.47), ("Honolulu", 21.31, -157.86), ("Suva", -18.14, 178.44),
        ("Magadan", 59.56, 150.8), ("Oslo-ish (59.9N)", 59.91, 10.75), ("Punta Arenas", -53.16, -70.91), ("Null Island", 0.0, 0.0), ("Antimeridian N", 30.0, 180.0), ("Antimeridian S", -30.0, -180.0), ("60N", 60.0, 30.0),
        ("60S", -60.0, -30.0), ("Greenwich", 51.48, 0.0), ("Lisbon", 38.72, -9.14), ("Caracas", 10.48, -66.9), ("Pyongyang", 39.03, 125.75),
    ]
}

fn viol(kind: &str, lat: f64, lon: f64, date: NaiveDate, detail: String) -> Violation {
    Violation::new(kind, vec![], json!({"lat": lat, "lon": lon, "date": date.to_string()}), format!("({lat}, {lon}) on {date}: {detail}"))
}

pub fn check_point_day(coords: Coordinates, loc: &TzLocation<Tz>, oh: &[(i64, OpeningHours<TzLocation<Tz>>)], date: NaiveDate, acc: &mut Acc) -> bool {
    let (lat, lon) = (coords.lat(), coords.lon());
    let tz = *loc.get_timezone();
    let ev: Vec<DateTime<Utc>> = match catch(|| EVENTS.iter().map(|e| coords.event_time(date, *e)).collect::<Vec<_>>()) {
        Ok(v) => v,
        Err(p) => {
            acc.violate(viol("panic", lat, lon, date, format!("Coordinates::event_time panicked: {} at {}", p.msg, p.loc)));
            return false;
        }
    };
    let noon = solar_noon_utc(date, lon);
    let mut ok = true;
    // ordering as instants, solar noon strictly inside
    if !(ev[0] < ev[1] && ev[1] < ev[2] && ev[2] < ev[3]) {
        acc.violate(viol("events_not_ordered", lat, lon, date, format!("dawn {} sunrise {} sunset {} dusk {}", ev[0], ev[1], ev[2], ev[3])));
        ok = false;
    }
    // the library's day for `date` may be the solar day whose noon is nearest to date 12:00 UTC − lon/15:
    // compare with the independent noon modulo whole days
    let mid = ev[1].naive_utc() + (ev[2].naive_utc() - ev[1].naive_utc()) / 2;
    let mut dn = (mid - noon).num_minutes();
    while dn > 720 {
        dn -= 1440;
    }
    while dn < -720 {
        dn += 1440;
    }
    if dn.abs() > 20 {
        acc.violate(viol("solar_noon_not_between_sunrise_and_sunset", lat, lon, date, format!("middle of sunrise {} and sunset {} is {} min away from the solar noon {} computed from longitude and equation of time", ev[1], ev[2], dn, fmt_dt(noon))));
        ok = false;
    }
    let day_len = (ev[2] - ev[1]).num_minutes();
    if !(4 * 60..=20 * 60).contains(&day_len) {
        acc.violate(viol("implausible_day_length", lat, lon, date, format!("sunrise→sunset lasts {day_len} min at latitude {lat}")));
        ok = false;
    }
    // TzLocation::event_time = wall clock of the UTC event in the context zone
    for (i, e) in EVENTS.iter().enumerate() {
        let got = match catch(|| loc.event_time(date, *e)) {
            Ok(t) => t,
            Err(p) => {
                acc.violate(viol("panic", lat, lon, date, format!("TzLocation::event_time panicked: {} at {}", p.msg, p.loc)));
                return false;
            }
        };
        let u = ev[i].naive_utc();
        let exp = (u + Duration::seconds(tz.offset_from_utc_datetime(&u).fix().local_minus_utc() as i64)).time();
        if got != exp {
            acc.violate(viol("event_time_is_not_local_wall_clock", lat, lon, date, format!("{e:?}: TzLocation::event_time = {got}, the UTC event {} is {exp} in {}", ev[i], tz.name())));
            ok = false;
        }
    }
    // zone plausible for the longitude (detects swapped lat/lon, dropped conversion)
    // The offset is read at a fixed modern instant, not on the swept date: tzdata gives places that
    // had no civil time yet the offset 0 (`-00`: America/Rankin_Inlet before 1957, Antarctic
    // stations), which says nothing about where the zone lies (false alarm of the first thorough run).
    let reference = crate::util::dt(2020, 1, 15, 12, 0);
    let off_h = tz.offset_from_utc_datetime(&reference).fix().local_minus_utc() as f64 / 3600.0;
    let mut diff = off_h - lon / 15.0;
    while diff > 12.0 {
        diff -= 24.0;
    }
    while diff < -12.0 {
        diff += 24.0;
    }
    if diff.abs() >= 6.5 {
        acc.violate(viol("inferred_zone_implausible_for_longitude", lat, lon, date, format!("zone {} has offset {off_h} h, solar time offset is {:.2} h", tz.name(), lon / 15.0)));
        ok = false;
    }
    // the real evaluator: open at solar noon, closed at solar midnight. Use the middle of the
    // library's own sunrise/sunset of the solar day containing local noon of `date` as the probe.
    let local_noon = tz.from_utc_datetime(&noon);
    let probe_date = local_noon.date_naive();
    let (sr, ss) = (coords.event_time(probe_date, TimeEvent::Sunrise), coords.event_time(probe_date, TimeEvent::Sunset));
    let probe = sr + (ss - sr) / 2;
    for (off, o) in oh {
        let at_noon = catch(|| o.state(probe.with_timezone(&tz)));
        match at_noon {
            Err(p) => {
                acc.violate(viol("panic", lat, lon, date, format!("state panicked: {} at {}", p.msg, p.loc)));
                return false;
            }
            Ok(k) => {
                if k != RuleKind::Open {
                    acc.violate(viol("closed_at_solar_noon", lat, lon, date, format!("`sunrise-sunset` (offset {off} min) is {k:?} at solar noon {} ({} in {})", probe, probe.with_timezone(&tz).naive_local(), tz.name())));
                    ok = false;
                }
            }
        }
        if *off <= 30 {
            for h in [-12i64, 12] {
                let t = (probe + Duration::hours(h)).with_timezone(&tz);
                if let Ok(k) = catch(|| o.state(t)) {
                    if k != RuleKind::Closed {
                        acc.violate(viol("open_at_solar_midnight", lat, lon, date, format!("`sunrise-sunset` (offset {off} min) is {k:?} at solar midnight {} ({} in {})", t.naive_utc(), t.naive_local(), tz.name())));
                        ok = false;
                    }
                }
            }
        }
    }
    ok
}

fn evaluators(ctx: &Context<TzLocation<Tz>>) -> Vec<(i64, OpeningHours<TzLocation<Tz>>)> {
    [(0i64, "sunrise-sunset"), (-30, "(sunrise+00:30)-(sunset-00:30)"), (30, "(sunrise-00:30)-(sunset+00:30)"), (150, "(sunrise-02:30)-(sunset+02:30)"), (-150, "(sunrise+02:30)-(sunset-02:30)")]
        .iter()
        .map(|(o, e)| (*o, OpeningHours::parse(e).unwrap().with_context(ctx.clone())))
        .collect()
}

fn ieee_values() -> Vec<f64> {
    let ulp_up = |x: f64| f64::from_bits(if x >= 0.0 { x.to_bits() + 1 } else { x.to_bits() - 1 });
    let ulp_dn = |x: f64| f64::from_bits(if x > 0.0 { x.to_bits() - 1 } else { x.to_bits() + 1 });
    let mut v = vec![f64::NAN, f64::INFINITY, f64::NEG_INFINITY, 0.0, -0.0, 1e308, -1e308, f64::MIN_POSITIVE / 2.0, -f64::MIN_POSITIVE / 2.0, 45.0, -45.0, 89.99, -89.99, 179.99, -179.99];
    for b in [90.0f64, -90.0, 180.0, -180.0] {
        v.push(b);
        v.push(ulp_up(b));
        v.push(ulp_dn(b));
    }
    v
}

fn check_acceptance(acc: &mut Acc) {
    let vals = ieee_values();
    let dates = [ymd(1900, 1, 1), ymd(2020, 3, 20), ymd(2020, 6, 21), ymd(2020, 12, 21), ymd(2024, 2, 29), ymd(2100, 12, 31), ymd(9999, 12, 31), ymd(1969, 9, 30)];
    let pairs: Vec<(f64, f64)> = vals.iter().flat_map(|a| vals.iter().map(move |b| (*a, *b))).collect();
    let accs: Vec<Acc> = pairs
        .par_iter()
        .map(|(lat, lon)| {
            let mut acc = Acc::new();
            acc.add("evaluations", 1);
            let exp = !lat.is_nan() && !lon.is_nan() && (-90.0..=90.0).contains(lat) && (-180.0..=180.0).contains(lon);
            let got = catch(|| Coordinates::new(*lat, *lon));
            let case = json!({"lat_bits": lat.to_bits(), "lon_bits": lon.to_bits(), "lat": format!("{lat:e}"), "lon": format!("{lon:e}")});
            match got {
                Err(p) => acc.violate(Violation::new("panic", vec![], case, format!("Coordinates::new({lat:e}, {lon:e}) panicked: {} at {}", p.msg, p.loc))),
                Ok(c) => {
                    if c.is_some() != exp {
                        acc.violate(Violation::new("coordinate_acceptance", vec![], case, format!("Coordinates::new({lat:e}, {lon:e}) accepted = {}, expected {exp}", c.is_some())));
                    } else if let Some(c) = c {
                        acc.add("accepted_pairs", 1);
                        let r = catch(|| {
                            let loc = TzLocation::from_coords(c);
                            let _ = Country::try_from_coords(c);
                            let ctx = Context::from_coords(c);
                            let oh = OpeningHours::parse("sunrise-sunset ; PH off ; (dusk-00:30)-(dawn+00:30) unknown").unwrap().with_context(ctx);
                            let tz = *loc.get_timezone();
                            for d in dates {
                                let _ = oh.schedule_at(d).into_iter().count();
                                let t = tz.from_utc_datetime(&d.and_hms_opt(12, 0, 0).unwrap());
                                let _ = oh.state(t);
                                let _ = oh.iter_range(t, t + Duration::days(3)).count();
                                for e in EVENTS {
                                    let _ = loc.event_time(d, e);
                                }
                            }
                        });
                        match r {
                            Ok(()) => acc.add("traces_validated_against_impl", 1),
                            Err(p) => acc.violate(Violation::new("panic", vec![], case, format!("accepted coordinates ({lat:e}, {lon:e}) do not evaluate: {} at {}", p.msg, p.loc))),
                        }
                    } else {
                        acc.add("traces_validated_against_impl", 1);
                    }
                }
            }
            acc
        })
        .collect();
    for a in accs {
        acc.merge(a);
    }
}

fn check_no_coordinates(cfg: &Cfg, acc: &mut Acc) {
    // every date of the supported range (thorough) / every 7th day + the ends (quick)
    let zones = [chrono_tz::UTC, chrono_tz::Europe::Paris, chrono_tz::Pacific::Apia, chrono_tz::America::St_Johns];
    let step = if cfg.quick() { 7 } else { 1 };
    let years: Vec<i32> = (1900..=9999).collect();
    let accs: Vec<Acc> = years
        .par_chunks(100)
        .map(|ys| {
            let mut acc = Acc::new();
            for y in ys {
                let mut d = ymd(*y, 1, 1);
                let mut i = 0;
                while d.year() == *y {
                    if i % step == 0 || d.ordinal() == 1 || (d.month() == 12 && d.day() == 31) {
                        for e in EVENTS {
                            acc.add("evaluations", 1);
                            let mut good = NoLocation.event_time(d, e) == fixed_time(e);
                            for z in zones {
                                good &= TzLocation::new(z).event_time(d, e) == fixed_time(e);
                            }
                            if good {
                                acc.add("traces_validated_against_impl", 1);
                            } else {
                                acc.violate(Violation::new("default_event_time", vec![], json!({"date": d.to_string(), "event": format!("{e:?}")}), format!("without coordinates {e:?} on {d} is not {}", fixed_time(e))));
                            }
                        }
                    }
                    i += 1;
                    d = d.succ_opt().unwrap();
                }
            }
            acc
        })
        .collect();
    for a in accs {
        acc.merge(a);
    }
    // and through the evaluator, location-free
    let oh = OpeningHours::parse("dawn-sunrise unknown, sunset-dusk").unwrap();
    for d in [ymd(1900, 1, 1), ymd(2024, 6, 21), ymd(9999, 12, 31)] {
        let sig: Vec<(u16, u16)> = oh.schedule_at(d).into_iter().filter(|r| r.kind != RuleKind::Closed).map(|r| (r.range.start.mins_from_midnight(), r.range.end.mins_from_midnight())).collect();
        if sig != vec![(360, 420), (1140, 1200)] {
            acc.violate(Violation::new("default_event_time", vec![], json!({"date": d.to_string()}), format!("`dawn-sunrise unknown, sunset-dusk` on {d} gives {sig:?}")));
        }
    }
}

/// Locations reached through a history, not only freshly built ones: for every ordered pair
/// (a, b) of named points, `from_coords(a).with_coords(b)` must behave as `new(zone of a)
/// .with_coords(b)` — the events of the coordinates attached *last*, in the zone of the location.
fn check_construction_paths(acc: &mut Acc) {
    let pts = named_points();
    let dates = [ymd(2024, 3, 20), ymd(2024, 6, 21), ymd(2024, 12, 21)];
    for (_, la, lo) in &pts {
        let Some(a) = Coordinates::new(*la, *lo) else { continue };
        let Ok(from_a) = catch(|| TzLocation::from_coords(a)) else { continue };
        let tz = *from_a.get_timezone();
        for (_, lb, lob) in &pts {
            let Some(b) = Coordinates::new(*lb, *lob) else { continue };
            acc.add("evaluations", 1);
            acc.add("transitions", 1);
            let moved = from_a.clone().with_coords(b);
            let fresh = TzLocation::new(tz).with_coords(b);
            let mut ok = moved == fresh;
            let mut detail = String::new();
            if !ok {
                detail = "from_coords(a).with_coords(b) != new(zone of a).with_coords(b)".to_string();
            }
            for d in dates {
                for e in EVENTS {
                    let u = b.event_time(d, e).naive_utc();
                    let exp = (u + Duration::seconds(tz.offset_from_utc_datetime(&u).fix().local_minus_utc() as i64)).time();
                    match catch(|| moved.event_time(d, e)) {
                        Ok(got) if got == exp => {}
                        Ok(got) => {
                            ok = false;
                            detail = format!("after from_coords(({la}, {lo})).with_coords(({lb}, {lob})): {e:?} on {d} = {got}, the event of the coordinates attached last is {exp} in {}", tz.name());
                        }
                        Err(p) => {
                            ok = false;
                            detail = format!("event_time panicked: {} at {}", p.msg, p.loc);
                        }
                    }
                }
            }
            if ok {
                acc.add("traces_validated_against_impl", 1);
            } else {
                acc.violate(Violation::new("events_of_stale_coordinates", vec![], json!({"first": [la, lo], "then": [lb, lob]}), detail));
            }
        }
    }
}

pub fn run(cfg: &Cfg) -> Outcome {
    let mut acc = Acc::new();
    check_no_coordinates(cfg, &mut acc);
    check_acceptance(&mut acc);
    check_construction_paths(&mut acc);
    // grid
    let (dlat, dlon) = if cfg.quick() { (10, 15) } else { (5, 5) };
    let mut points: Vec<(String, f64, f64)> = Vec::new();
    let mut lat = -60;
    while lat <= 60 {
        let mut lon = -180;
        while lon <= 180 {
            points.push((format!("grid({lat},{lon})"), lat as f64, lon as f64));
            lon += dlon;
        }
        lat += dlat;
    }
    for (n, la, lo) in named_points() {
        points.push((n.to_string(), la, lo));
    }
    let dates: Vec<NaiveDate> = if cfg.quick() {
        let mut v = Vec::new();
        for y in [1900, 1950, 1988, 2000, 2024, 2025, 2060, 2100] {
            let mut d = ymd(y, 1, 1);
            while d.year() == y {
                v.push(d);
                d = d.succ_opt().unwrap();
            }
        }
        v
    } else {
        let mut v = Vec::new();
        let mut d = ymd(1900, 1, 1);
        while d <= ymd(2100, 12, 31) {
            v.push(d);
            d = d.succ_opt().unwrap();
        }
        v
    };
    let accs: Vec<Acc> = points
        .par_iter()
        .with_max_len(1)
        .map(|(_, la, lo)| {
            let mut acc = Acc::new();
            let Some(coords) = Coordinates::new(*la, *lo) else { return acc };
            let ctx = match catch(|| Context::from_coords(coords)) {
                Ok(c) => c,
                Err(p) => {
                    acc.violate(viol("panic", *la, *lo, ymd(2000, 1, 1), format!("Context::from_coords panicked: {} at {}", p.msg, p.loc)));
                    return acc;
                }
            };
            if ctx.locale != TzLocation::from_coords(coords) {
                acc.violate(viol("context_from_coords_inconsistent", *la, *lo, ymd(2000, 1, 1), "Context::from_coords(c).locale != TzLocation::from_coords(c)".into()));
            }
            let oh = evaluators(&ctx);
            let mut ok = 0u64;
            for d in &dates {
                if check_point_day(coords, &ctx.locale, &oh, *d, &mut acc) {
                    ok += 1;
                }
            }
            acc.add("states", dates.len() as u64);
            acc.add("evaluations", dates.len() as u64 * 4);
            acc.add("transitions", dates.len() as u64 * 3 * oh.len() as u64);
            acc.add("traces_validated_against_impl", ok);
            acc
        })
        .collect();
    for a in accs {
        acc.merge(a);
    }
    acc.add("distinct_nontrivial", points.len() as u64);
    acc.add("grid_and_named_points", points.len() as u64);
    acc.add("dates_per_point", dates.len() as u64);
    acc.sample(json!({"point": points[0], "dates": dates.len()}));
    acc.sample(json!({"point": points[points.len() / 2]}));
    acc.sample(json!({"point": points[points.len() - 1]}));
    acc.sample(json!({"acceptance": {"lat": "90 + 1ulp", "lon": 0, "expected": "rejected"}}));
    let mut o = Outcome::new("exploration", acc);
    o.exhaustive = false;
    o.cov("rule", json!("grid × all days (floating-point coordinates are not finitely enumerable — stated): (a) no coordinates: every (quick: every 7th) date 1900..9999 × 4 events through NoLocation and TzLocation without coordinates in 4 zones == 06:00/07:00/19:00/20:00; (b) grid |lat| ≤ 60 step 5°/5° (quick 10°/15°) ∪ 40 named points × every day 1900..2100 (quick: 8 whole years): dawn < sunrise < sunset < dusk as instants, middle of sunrise/sunset within 20 min of an independent solar noon (longitude + equation of time), day length 4..20 h, TzLocation::event_time == wall clock of the UTC event in the inferred zone, zone offset within 6.5 h of solar time (western China on summer time is 4.1 h off), real `sunrise-sunset` (offsets 0, ±30, ±150 min) open at solar noon and (offsets ≤ 30) closed at solar noon ± 12 h; (c) Coordinates::new over all pairs of a 27-value IEEE boundary set: accepted ⇔ in range and not NaN; every accepted pair builds a zone/country/context and evaluates on 8 dates; (d) every ordered pair (a, b) of the named points: from_coords(a).with_coords(b) == new(zone of a).with_coords(b) and its events are those of b. distinct_nontrivial = coordinate points"));
    o.assume("the `sunrise` crate's astronomy is trusted up to the stated sanity relations (ordering, independent noon, day length); tzf-rs polygons are trusted up to the 6.5-hour plausibility bound");
    o
}

pub fn replay(_cfg: &Cfg, case: &Value) -> Vec<Violation> {
    let mut acc = Acc::new();
    if case.get("lat_bits").is_some() {
        check_acceptance(&mut acc);
        return acc.groups.into_values().flat_map(|g| g.examples).collect();
    }
    if case.get("then").is_some() {
        check_construction_paths(&mut acc);
        return acc.groups.into_values().flat_map(|g| g.examples).collect();
    }
    let (Some(lat), Some(lon)) = (case.get("lat").and_then(|v| v.as_f64()), case.get("lon").and_then(|v| v.as_f64())) else { return vec![] };
    let Some(date) = case.get("date").and_then(|v| v.as_str()).and_then(crate::util::parse_date) else { return vec![] };
    let Some(coords) = Coordinates::new(lat, lon) else { return vec![] };
    let ctx = Context::from_coords(coords);
    let oh = evaluators(&ctx);
    check_point_day(coords, &ctx.locale, &oh, date, &mut acc);

    acc.groups.into_values().flat_map(|g| g.examples).collect()
}
