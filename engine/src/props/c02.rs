//! C02 — Interval stream equals pointwise evaluation (no change is skipped).
//!
//! The iterator is treated as a transition system (state = position in the stream, transition =
//! one `next()`); every transition of every explored stream is compared with the pointwise
//! run-length oracle P built from the real `schedule_at` over the same window. Full-window mode
//! (all 2 958 464 days, streams consumed to exhaustion) for the long-skip list L; block mode
//! (W_core blocks) for the rest of the family.

use crate::ctx::{self, Ctx};
use crate::evalx::{from_min, Pointwise};
use crate::features;
use crate::gen::alphabet as al;
use crate::gen::ast::*;
use crate::gen::print::canon;
use crate::report::{Acc, Outcome, Violation};
use crate::stream::{self, date_start};
use crate::util::{catch, fmt_dt, parse_dt, ymd};
use crate::windows;
use crate::Cfg;
use chrono::{Duration, NaiveDate, NaiveDateTime};
use opening_hours::{OpeningHours, DATE_END};
use rayon::prelude::*;
use serde_json::{json, Value};
use std::collections::BTreeSet;

pub const EXHAUST: usize = 40_000_000;

#[derive(Clone)]
pub struct Item {
    pub text: String,
    pub feats: Vec<String>,
    pub full: bool,
    /// thorough tier: explore this item at thorough depth (larger blocks, more starts, all pairs);
    /// the items only the thorough family adds are explored at the quick tier's depth
    pub deep: bool,
}

fn viol(kind: &str, it: &Item, c: &Ctx, call: &str, from: NaiveDateTime, to: Option<NaiveDateTime>, detail: String) -> Violation {
    Violation::new(
        kind,
        it.feats.clone(),
        json!({"expr": it.text, "ctx": c.name, "call": call, "from": fmt_dt(from), "to": to.map(fmt_dt)}),
        format!("`{}` [{}] {call}({}{}): {detail}", it.text, c.name, fmt_dt(from), to.map(|t| format!(", {}", fmt_dt(t))).unwrap_or_default()),
    )
}

/// One stream: returns (transitions checked, ok).
pub fn check_stream(oh: &OpeningHours, it: &Item, c: &Ctx, p: &Pointwise, from: NaiveDateTime, to: Option<NaiveDateTime>, limit: usize, acc: &mut Acc) -> (u64, bool) {
    let call = if to.is_some() { "iter_range" } else { "iter_from" };
    match stream::compare_streaming(oh, p, from, to, limit) {
        Err(pi) => {
            acc.violate(viol("iterator_panic", it, c, call, from, to, format!("panicked: {} at {}", pi.msg, pi.loc)));
            (0, false)
        }
        Ok((n, None)) => (n, true),
        Ok((n, Some(m))) => {
            acc.violate(viol(m.kind, it, c, call, from, to, m.detail));
            (n, false)
        }
    }
}

fn in_blocks(d: NaiveDate, blocks: &[(NaiveDate, NaiveDate)]) -> bool {
    blocks.iter().any(|(a, b)| *a <= d && d <= *b)
}

/// Start instants derived from P's boundaries (DESIGN §C02).
pub fn derived_starts(p: &Pointwise, blocks: &[(NaiveDate, NaiveDate)], cap_early: usize, cap_late: usize) -> (Vec<NaiveDateTime>, bool) {
    let mut early: Vec<NaiveDateTime> = Vec::new();
    let mut all: Vec<NaiveDateTime> = Vec::new();
    for s in p.starts.iter().skip(1) {
        let b = from_min(*s);
        if !in_blocks(b.date(), blocks) {
            continue;
        }
        all.push(b);
    }
    let capped = all.len() > cap_early + cap_late;
    early.extend(all.iter().take(cap_early));
    if all.len() > cap_early {
        let tail_from = all.len().saturating_sub(cap_late).max(cap_early);
        early.extend(all[tail_from..].iter());
    }
    let mut out: BTreeSet<NaiveDateTime> = BTreeSet::new();
    for b in early {
        out.insert(b - Duration::minutes(1));
        out.insert(b - Duration::seconds(1));
        out.insert(b);
        out.insert(b + Duration::seconds(1));
    }
    (out.into_iter().collect(), capped)
}

fn fixed_starts() -> Vec<NaiveDateTime> {
    let mut v = vec![date_start() - Duration::days(1), date_start()];
    for y in [1900, 1901, 2010, 2011, 2020, 2021, 2022, 2023, 2024, 2025, 2030, 2031, 9998, 9999] {
        v.push(ymd(y, 1, 1).and_hms_opt(0, 0, 0).unwrap());
        v.push(ymd(y, 12, 31).and_hms_opt(23, 59, 0).unwrap());
    }
    v.push(DATE_END - Duration::minutes(1));
    v.push(DATE_END - Duration::seconds(1));
    v.push(DATE_END);
    v.push(DATE_END + Duration::days(1));
    v
}

pub fn check_item(it: &Item, c: &Ctx, quick: bool, only: Option<(&str, NaiveDateTime, Option<NaiveDateTime>)>, acc: &mut Acc) {
    let oh = match catch(|| OpeningHours::parse(&it.text)) {
        Ok(Ok(oh)) => oh.with_context(c.real.clone()),
        _ => {
            acc.add("rejected_by_parser", 1);
            return;
        }
    };
    // depth: the thorough tier explores the quick family at thorough depth and its own additions
    // (two orders of magnitude more expressions) at the quick tier's depth
    let quick = quick || !it.deep;
    let core = windows::w_core_blocks();
    let mut transitions = 0u64;
    let mut streams = 0u64;
    let mut streams_ok = 0u64;
    let mut run = |p: &Pointwise, from: NaiveDateTime, to: Option<NaiveDateTime>, limit: usize, acc: &mut Acc| {
        let (t, ok) = check_stream(&oh, it, c, p, from, to, limit, acc);
        transitions += t;
        streams += 1;
        if ok {
            streams_ok += 1;
        }
    };
    if it.full {
        let p = match catch(|| Pointwise::build(&oh, ymd(1899, 12, 30), ymd(10000, 1, 2))) {
            Ok(p) => p,
            Err(_) => {
                // schedule_at itself panics: no pointwise oracle exists; totality is C04's subject
                acc.add("schedule_at_panics_left_to_C04", 1);
                return;
            }
        };
        acc.add("pointwise_days", p.days);
        acc.add("pointwise_runs", p.n_runs() as u64);
        if let Some((call, from, to)) = only {
            let limit = if call == "iter_from_exhaust" { EXHAUST } else { 40 };
            run(&p, from, to, if to.is_some() { EXHAUST } else { limit }, acc);
        } else {
            // (a) to exhaustion from DATE_START (and 2000 intervals from the day before)
            let c0 = opening_hours::verif_schedule_count();
            run(&p, date_start(), None, EXHAUST, acc);
            let exhaust_cost = opening_hours::verif_schedule_count() - c0;
            acc.add("schedule_at_calls_in_exhaustive_runs", exhaust_cost);
            run(&p, date_start() - Duration::days(1), None, 2000, acc);
            // derived starts, 40 intervals each. The real iterator walks day by day where the
            // selectors give no hint, so a 40-interval run can cost millions of schedules when
            // intervals are centuries long: the number of starts is scaled down by a deterministic
            // budget of schedule_at calls (measured with the H1 counter on the exhaustive run).
            let (mut starts, capped) = derived_starts(&p, &core, if quick { 120 } else { 400 }, if quick { 40 } else { 100 });
            starts.extend(fixed_starts());
            let n_runs = p.n_runs().max(1) as u64;
            let per_start = (exhaust_cost / n_runs).max(1) * n_runs.min(40);
            let budget: u64 = if quick { 2_000_000 } else { 30_000_000 };
            let allowed = ((budget / per_start.max(1)) as usize).max(if quick { 3 } else { 12 });
            if capped || allowed < starts.len() {
                acc.add("expressions_hitting_start_cap", 1);
            }
            if allowed < starts.len() {
                // keep an evenly spread sub-list (deterministic)
                let step = starts.len() as f64 / allowed as f64;
                starts = (0..allowed).map(|i| starts[(i as f64 * step) as usize]).collect();
            }
            for s in starts.iter() {
                run(&p, *s, None, 40, acc);
            }
            // (b) iter_range over ordered pairs of instants around four boundaries
            // (boundaries of the 2016..2043 block only: a pair spanning 1900..9999 would stream
            // millions of intervals 576 times; the long run is (a)'s job)
            pairs(&p, &core[1..2], &mut |f, t, acc| run(&p, f, Some(t), EXHAUST, acc), acc);
        }
        if p.n_runs() > 1 {
            acc.add("nontrivial_ctx_exprs", 1);
        }
    } else {
        let mut nontrivial = false;
        let small = windows::w_small_blocks();
        for (b0, b1) in if quick { &small } else { &core } {
            let p = match catch(|| Pointwise::build(&oh, *b0, *b1)) {
                Ok(p) => p,
                Err(_) => {
                    acc.add("schedule_at_panics_left_to_C04", 1);
                    return;
                }
            };
            acc.add("pointwise_days", p.days);
            nontrivial |= p.n_runs() > 1;
            let lo = b0.and_hms_opt(0, 0, 0).unwrap();
            let hi = b1.succ_opt().unwrap().and_hms_opt(0, 0, 0).unwrap();
            if let Some((_, from, to)) = only {
                if from >= lo && from < hi {
                    run(&p, from, Some(to.unwrap_or(hi).min(hi)), EXHAUST, acc);
                }
                continue;
            }
            run(&p, lo, Some(hi), EXHAUST, acc);
            let (starts, capped) = derived_starts(&p, &[(*b0, *b1)], if quick { 24 } else { 200 }, if quick { 8 } else { 50 });
            if capped {
                acc.add("expressions_hitting_start_cap", 1);
            }
            for s in starts {
                if s >= lo && s < hi {
                    run(&p, s, Some(hi), 40, acc);
                }
            }
            if !quick {
                pairs(&p, &[(*b0, *b1)], &mut |f, t, acc| if f >= lo && t <= hi { run(&p, f, Some(t), EXHAUST, acc) }, acc);
            }
        }
        if nontrivial {
            acc.add("nontrivial_ctx_exprs", 1);
        }
    }
    acc.add("transitions", transitions);
    acc.add("states", transitions + streams);
    acc.add("evaluations", streams);
    acc.add("traces_validated_against_impl", streams_ok);
}

fn pairs(p: &Pointwise, blocks: &[(NaiveDate, NaiveDate)], run: &mut dyn FnMut(NaiveDateTime, NaiveDateTime, &mut Acc), acc: &mut Acc) {
    let bs: Vec<NaiveDateTime> = p.starts.iter().skip(1).map(|s| from_min(*s)).filter(|b| in_blocks(b.date(), blocks)).collect();
    if bs.is_empty() {
        return;
    }
    let pick: BTreeSet<usize> = [0, 1.min(bs.len() - 1), bs.len() / 2, bs.len() - 1].into_iter().collect();
    let mut inst: BTreeSet<NaiveDateTime> = BTreeSet::new();
    for i in pick {
        let b = bs[i];
        for d in [Duration::minutes(-1), Duration::seconds(-1), Duration::zero(), Duration::seconds(1), Duration::minutes(1), Duration::days(1)] {
            inst.insert(b + d);
        }
    }
    let inst: Vec<NaiveDateTime> = inst.into_iter().collect();
    for f in &inst {
        for t in &inst {
            run(*f, *t, acc);
        }
    }
}

/// The long-skip list L: shapes whose hints jump months to millennia.
pub fn long_skip_list(quick: bool) -> Vec<OpeningHoursExpression> {
    let ts = al::times();
    let mods = al::modifiers();
    let mut out = Vec::new();
    let time_idx: Vec<usize> = if quick { vec![0, 6, 17, 20] } else { vec![0, 1, 3, 6, 4, 10, 17, 20, 21] };
    for ds in al::day_selectors(1).iter().skip(1) {
        if !al::is_long_skip(ds) {
            continue;
        }
        for ti in &time_idx {
            out.push(expr(vec![al::mk_rule(ds, &ts[*ti], &mods[0])]));
        }
        if !quick {
            out.push(expr(vec![al::mk_rule(ds, &ts[1], &mods[2])]));
            out.push(expr(vec![al::mk_rule(&DaySelector::default(), &[], &mods[0]), al::mk_rule(ds, &[], &mods[1])]));
        }
    }
    // a rule followed by a fallback / an additional rule: constant-expression shortcuts
    let wd = DaySelector { weekday: al::weekdays()[2].clone(), ..Default::default() };
    for op in al::OPERATORS {
        for tail in [&mods[0], &mods[1], &mods[2]] {
            out.push(expr(vec![al::mk_rule(&wd, &ts[1], &mods[0]), with_op(al::mk_rule(&DaySelector::default(), &[], tail), op)]));
        }
    }
    if !quick {
        for ds in al::day_selectors(2) {
            let kinds = [!ds.year.is_empty(), !ds.monthday.is_empty(), !ds.week.is_empty(), !ds.weekday.is_empty()].iter().filter(|x| **x).count();
            if kinds == 2 && al::is_long_skip(&ds) {
                out.push(expr(vec![al::mk_rule(&ds, &ts[3], &mods[0])]));
            }
        }
    }
    out
}

/// The shortcut family K: one input per shape the constant-expression shortcut
/// (`OpeningHoursExpression::is_constant`, which makes `next_change_hint` answer "never") can
/// see: sequences of up to three rules over {no selector, `Su`, `Jan 01`} × {full day, a span} ×
/// the three kinds × every pair of rule operators.
pub fn shortcut_family(quick: bool) -> Vec<OpeningHoursExpression> {
    let ts = al::times();
    let mods = al::modifiers();
    let sels = [
        DaySelector::default(),
        DaySelector { weekday: al::weekdays()[1].clone(), ..Default::default() },
        DaySelector { monthday: vec![crate::gen::ast::md_single(crate::gen::ast::fixed(None, 1, 1), Default::default())], ..Default::default() },
    ];
    let kinds = [&mods[0], &mods[1], &mods[2]];
    let mut rules = Vec::new();
    for s in &sels {
        for k in kinds {
            rules.push(al::mk_rule(s, &[], k));
        }
    }
    rules.push(al::mk_rule(&sels[0], &ts[1], &mods[0]));
    if !quick {
        rules.push(al::mk_rule(&sels[1], &ts[1], &mods[0]));
        rules.push(al::mk_rule(&sels[1], &ts[1], &mods[1]));
        rules.push(al::mk_rule(&sels[2], &ts[3], &mods[2]));
        rules.push(al::mk_rule(&sels[0], &ts[3], &mods[1]));
    }
    let mut out = Vec::new();
    for a in &rules {
        for b in &rules {
            for op2 in al::OPERATORS {
                out.push(expr(vec![a.clone(), with_op(b.clone(), op2)]));
                for c in &rules {
                    for op3 in al::OPERATORS {
                        // quick tier: at most one operator of a triple differs from `;`
                        if quick && op2 != RuleOperator::Normal && op3 != RuleOperator::Normal {
                            continue;
                        }
                        out.push(expr(vec![a.clone(), with_op(b.clone(), op2), with_op(c.clone(), op3)]));
                    }
                }
            }
        }
    }
    out
}

pub fn family(cfg: &Cfg) -> Vec<Item> {
    let mut items: Vec<Item> = Vec::new();
    let mut seen = std::collections::HashSet::new();
    let mut push = |e: &OpeningHoursExpression, full: bool, deep: bool, items: &mut Vec<Item>| {
        if let Some(text) = canon(e) {
            if seen.insert(text.clone()) {
                items.push(Item { text, feats: features::of_expr(e), full, deep });
            }
        }
    };
    // ---- the quick family (explored at thorough depth by the thorough tier)
    for e in long_skip_list(cfg.quick()) {
        push(&e, true, true, &mut items);
    }
    // corpus: full window in the thorough tier, block mode in the quick tier
    for s in al::corpus(&cfg.repo) {
        if let Ok(e) = opening_hours_syntax::parse(&s) {
            items.push(Item { text: s, feats: features::of_expr(&e), full: !cfg.quick(), deep: true });
        }
    }
    // rest of the family, block mode
    for e in al::e1(1) {
        // comments do not influence states: the quick tier keeps the comment-free modifiers
        let commented = e.rules.iter().any(|r| !r.comments.is_empty());
        if cfg.quick() && commented {
            continue;
        }
        push(&e, false, !commented, &mut items);
    }
    for e in shortcut_family(true) {
        push(&e, false, true, &mut items);
    }
    let r2 = al::r2();
    let n2 = al::e2_count();
    let mut i = 0;
    while i < n2 {
        let e = al::e2_at(&r2, i);
        push(&e, false, true, &mut items);
        i += 211;
    }
    // ---- additions of the thorough tier (explored at the quick tier's depth)
    if !cfg.quick() {
        for e in shortcut_family(false) {
            push(&e, false, false, &mut items);
        }
        let mut i = 0;
        while i < n2 {
            push(&al::e2_at(&r2, i), false, false, &mut items);
            i += 5;
        }
        for e in al::e1(2) {
            push(&e, false, false, &mut items);
        }
        let r3 = al::r3();
        let n3 = al::e3_count();
        let mut i = 0;
        while i < n3 {
            push(&al::e3_at(&r3, i), false, false, &mut items);
            i += 37;
        }
    }
    items
}

pub fn run(cfg: &Cfg) -> Outcome {
    let mut items = family(cfg);
    if let Ok(n) = std::env::var("OHMC_LIMIT") {
        // experimentation only: never set by ./check
        items.truncate(n.parse().unwrap_or(usize::MAX));
    }
    if let Ok(seg) = std::env::var("OHMC_SEGMENT") {
        // experimentation only (never set by ./check): "full" | "deep" | "rest:<stride>"
        items = items
            .into_iter()
            .enumerate()
            .filter(|(i, it)| match seg.as_str() {
                "full" => it.full,
                "deep" => it.deep && !it.full,
                s => !it.deep && !it.full && i % s.trim_start_matches("rest:").parse::<usize>().unwrap_or(1) == 0,
            })
            .map(|(_, it)| it)
            .collect();
    }
    eprintln!("C02: {} items ({} full-window, {} deep block-mode, {} quick-depth block-mode)", items.len(), items.iter().filter(|i| i.full).count(), items.iter().filter(|i| i.deep && !i.full).count(), items.iter().filter(|i| !i.deep && !i.full).count());
    // contexts: no calendar, and (for expressions with a holiday selector only) a calendar.
    // Block mode uses the synthetic calendar (dates at both ends of the supported range); the
    // full-window mode uses the embedded French calendar instead: the real iterator walks day by
    // day where a selector gives no hint and `first_after` on a calendar spanning 8 100 years
    // scans thousands of empty years per day (61 s for `Mo,PH` alone) — a cost, not a verdict.
    let ctxs = vec![ctx::empty(), ctx::synthetic(), ctx::country(&cfg.repo, opening_hours::localization::Country::FR, "FR")];
    // full-window items first (they are the long ones), one per task
    let work: Vec<(usize, usize)> = (0..items.len()).flat_map(|i| (0..ctxs.len()).map(move |c| (i, c))).collect();
    let accs: Vec<Acc> = work
        .par_iter()
        .with_max_len(1)
        .map(|(i, c)| {
            let mut acc = Acc::new();
            // holiday-free expressions evaluate identically in both calendar contexts
            if *c > 0 && !items[*i].feats.iter().any(|f| f == "holiday") {
                return acc;
            }
            if (*c == 1 && items[*i].full) || (*c == 2 && !items[*i].full) {
                return acc;
            }
            let t0 = std::time::Instant::now();
            check_item(&items[*i], &ctxs[*c], cfg.quick(), None, &mut acc);
            if std::env::var("OHMC_SLOW").is_ok() && t0.elapsed().as_secs_f64() > 2.0 {
                eprintln!("slow item {:.1}s: {} [{}]", t0.elapsed().as_secs_f64(), items[*i].text, ctxs[*c].name);
            }
            acc.add("expression_contexts", 1);
            acc
        })
        .collect();
    let mut acc = Acc::new();
    for a in accs {
        acc.merge(a);
    }
    let tz_cov = crate::props::tzshape::run(crate::props::tzshape::Which::C02, cfg.quick(), &mut acc);
    let n_full = items.iter().filter(|i| i.full).count();
    let nt = acc.get("nontrivial_ctx_exprs");
    acc.add("distinct_nontrivial", nt);
    for i in [0usize, n_full.saturating_sub(1), items.len() / 2, items.len() - 1] {
        acc.sample(json!({"expr": items[i].text, "full_window": items[i].full}));
    }
    let capped = acc.get("expressions_hitting_start_cap");
    let mut o = Outcome::new("model_checking", acc);
    o.exhaustive = true;
    if capped > 0 {
        o.caps_hit.push(format!("{capped} (expression, context, block) combinations had more derived start instants than the cap or the schedule_at budget allows: the earliest/latest or an evenly spread sub-list was explored for them; the exhaustive streams (whole window / whole block) are not capped"));
    }
    o.cov("time_zone_contexts", tz_cov);
    o.cov("family_size", json!(items.len()));
    o.cov("full_window_expressions", json!(n_full));
    o.cov("rule", json!("iterator as a transition system: for every expression × context, streams iter_from/iter_range are compared interval by interval with the pointwise oracle P (real schedule_at over every day of the window, run-length merged). Full-window mode (1899-12-30..10000-01-02, all 2 958 466 days): iter_from(DATE_START) and iter_from(DATE_START−1d) consumed to exhaustion, 40 intervals from every derived start (P boundaries in W_core × {−1min,−1s,0,+1s}, capped earliest/latest; year starts/ends; DATE_END±), iter_range on all ordered pairs of 24 instants around 4 boundaries. Block mode: the same on the three W_core blocks with P restricted to the block. states = iterator positions, transitions = next() calls compared, validated = complete streams equal to P; non-trivial = (expr, ctx) whose P has more than one run. Thorough tier: the quick family is explored at thorough depth (W_core blocks, larger start caps, all pairs, larger budgets); the expressions only the thorough family adds (E1 with two selector kinds, every 5th E2, every 37th E3, the larger shortcut family K) at the quick tier's depth"));
    o.assume("P uses the real schedule_at (C02 is a consistency property between two paths of the implementation; schedule_at itself is C01's subject)");
    o
}

pub fn replay(cfg: &Cfg, case: &Value) -> Vec<Violation> {
    if crate::props::tzshape::is_case(case) {
        return crate::props::tzshape::replay(crate::props::tzshape::Which::C02, case);
    }
    let mut acc = Acc::new();
    let Some(text) = case.get("expr").and_then(|v| v.as_str()) else { return vec![] };
    let c = ctx::by_name(&cfg.repo, case.get("ctx").and_then(|v| v.as_str()).unwrap_or("empty"));
    let feats = features::of_str(text);
    let from = case.get("from").and_then(|v| v.as_str()).and_then(parse_dt);
    let to = case.get("to").and_then(|v| v.as_str()).and_then(parse_dt);
    let it = Item { text: text.to_string(), feats, full: true, deep: true };
    match from {
        Some(f) => {
            let call = if to.is_none() { "iter_from_exhaust" } else { "iter_range" };
            check_item(&it, &c, false, Some((call, f, to)), &mut acc)
        }
        None => check_item(&it, &c, true, None, &mut acc),
    }
    acc.groups.into_values().flat_map(|g| g.examples).collect()
}

#[allow(dead_code)]
fn _unused() {
    let _ = stream::is_on_minute;
}
