//! C03 — state and next_change are mutually consistent.
//!
//! For every expression of the family × context × every derived instant t (every boundary of the
//! pointwise oracle P in the window with minute and sub-minute offsets, every 7th minute of six
//! fixed days, instants around both ends of the supported range): `state(t)` is the kind of the
//! P-run containing t, `is_open/is_closed/is_unknown` are exactly its three cases,
//! `next_change(t)` is the end of that run (None iff the run reaches 10000-01-01), strictly after
//! t and identical for all t of one run.

use crate::ctx::{self, Ctx};
use crate::evalx::{from_min, to_min, Pointwise};
use crate::features;
use crate::model::kind_code;
use crate::props::c02::{self, Item};
use crate::report::{Acc, Outcome, Violation};
use crate::stream::date_start;
use crate::util::{catch, fmt_dt, parse_dt, ymd};
use crate::windows;
use crate::Cfg;
use chrono::{Duration, NaiveDate, NaiveDateTime};
use opening_hours::{OpeningHours, RuleKind, DATE_END};
use rayon::prelude::*;
use serde_json::{json, Value};
use std::collections::{BTreeMap, BTreeSet};

fn viol(kind: &str, it: &Item, c: &Ctx, t: NaiveDateTime, detail: String) -> Violation {
    Violation::new(kind, it.feats.clone(), json!({"expr": it.text, "ctx": c.name, "t": fmt_dt(t)}), format!("`{}` [{}] at {}: {detail}", it.text, c.name, fmt_dt(t)))
}

fn kname(k: u8) -> &'static str {
    match k {
        0 => "closed",
        1 => "open",
        _ => "unknown",
    }
}

fn floor_min(t: NaiveDateTime) -> i64 {
    let m = to_min(t);
    if from_min(m) > t {
        m - 1
    } else {
        m
    }
}

/// Expected (kind, next_change) at t from P. `p_full`: P covers the whole supported range; if
/// not, a run reaching P's upper edge has an unknown end (`Err(edge)`: answer must be ≥ edge or None).
fn expect_at(p: &Pointwise, t: NaiveDateTime, p_full: bool) -> (u8, Result<Option<NaiveDateTime>, NaiveDateTime>) {
    if t >= DATE_END {
        return (0, Ok(None));
    }
    let m = floor_min(t);
    if m < p.lo {
        // before the window (only happens in full mode: before 1899-12-30): closed until the first non-closed run
        let first_open = if p.kinds[0] != 0 { Some(p.lo) } else { p.starts.get(1).copied() };
        return (0, Ok(first_open.map(from_min).filter(|x| *x < DATE_END)));
    }
    if m >= p.hi {
        return (0, if p_full { Ok(None) } else { Err(from_min(p.hi)) });
    }
    let k = p.kind_at(m);
    let e = p.run_end(m);
    if e >= p.hi {
        if p_full {
            (k, Ok(None))
        } else {
            (k, Err(from_min(p.hi)))
        }
    } else {
        let e = from_min(e);
        (k, Ok(if e >= DATE_END { None } else { Some(e) }))
    }
}

pub fn instants(p: &Pointwise, blocks: &[(NaiveDate, NaiveDate)], quick: bool, full: bool) -> Vec<NaiveDateTime> {
    let (starts, _) = c02::derived_starts(p, blocks, if quick { 40 } else { 200 }, if quick { 16 } else { 60 });
    let mut set: BTreeSet<NaiveDateTime> = starts.into_iter().collect();
    // extra offsets around the same boundaries
    let bs: Vec<NaiveDateTime> = set.iter().copied().collect();
    for b in bs {
        if b.and_utc().timestamp() % 60 == 0 {
            set.insert(b + Duration::minutes(1));
            set.insert(b + Duration::milliseconds(1));
            set.insert(b + Duration::seconds(30));
            set.insert(b + Duration::milliseconds(59_999));
        }
    }
    // six fixed days, every 7th minute (a Monday, a Feb 29, a Dec 31, a Jan 1, two DST-change days of Europe)
    let days = [ymd(2020, 6, 1), ymd(2024, 2, 29), ymd(2020, 12, 31), ymd(2021, 1, 1), ymd(2024, 3, 31), ymd(2024, 10, 27)];
    for d in days {
        if blocks.iter().any(|(a, b)| *a <= d && d <= *b) {
            let mut m = 0;
            while m < 1440 {
                set.insert(d.and_hms_opt(m / 60, m % 60, 0).unwrap());
                m += if quick { 97 } else { 11 };
            }
        }
    }
    if full {
        // every run start of the whole supported range (all of them up to 20 000 runs, else 20 000
        // evenly spread): a hint that is wrong only in some far-away years (a leap-day window that
        // fails across 2100, found by a seeded change) is queried where it is computed
        const CAP: usize = 20_000;
        let n = p.starts.len();
        if n <= CAP {
            for s in &p.starts {
                set.insert(crate::evalx::from_min(*s));
            }
        } else {
            for i in 0..CAP {
                set.insert(crate::evalx::from_min(p.starts[i * n / CAP]));
            }
        }
        for t in [
            NaiveDateTime::MIN,
            ymd(-262143, 1, 1).and_hms_opt(0, 0, 0).unwrap(),
            ymd(1, 1, 1).and_hms_opt(0, 0, 0).unwrap(),
            date_start() - Duration::days(1),
            date_start() - Duration::minutes(1),
            date_start() - Duration::milliseconds(1),
            date_start(),
            date_start() + Duration::milliseconds(1),
            date_start() + Duration::minutes(1),
            DATE_END - Duration::days(1),
            DATE_END - Duration::minutes(1),
            DATE_END - Duration::milliseconds(1),
            DATE_END,
            DATE_END + Duration::minutes(1),
            ymd(10001, 6, 1).and_hms_opt(12, 0, 0).unwrap(),
            ymd(262142, 12, 31).and_hms_opt(0, 0, 0).unwrap(),
        ] {
            set.insert(t);
        }
    }
    set.into_iter().collect()
}

/// Check all instants of one P; returns (instants, agreeing observations, truncated_by_budget).
pub fn check_instants(oh: &OpeningHours, it: &Item, c: &Ctx, p: &Pointwise, p_full: bool, ts: &[NaiveDateTime], budget: u64, acc: &mut Acc) -> (u64, u64, bool) {
    let c0 = opening_hours::verif_schedule_count();
    let mut ok = 0u64;
    let mut n = 0u64;
    // oracle-free relation: all instants of one run share their next_change
    let mut by_run: BTreeMap<i64, Option<NaiveDateTime>> = BTreeMap::new();
    // `next_change` walks day by day wherever the selectors give no hint, so a query whose answer
    // lies millennia ahead can cost 2.9 M schedules. Cost control, all deterministic: instants
    // are processed by increasing distance to the expected change; `budget` == 0 means "local
    // horizon only" (quick block mode): instants whose expected change is more than 800 days
    // away are skipped (counted) — long horizons are the job of the full-window list; otherwise
    // after `budget` schedule_at calls (H1 counter) only instants within 2000 days are still run.
    let horizon = |t: &NaiveDateTime| -> i64 {
        let end = match expect_at(p, *t, p_full).1 {
            Ok(Some(e)) => e,
            _ => DATE_END,
        };
        (end.max(*t) - *t).num_days()
    };
    let mut order: Vec<(i64, NaiveDateTime)> = ts.iter().map(|t| (if *t < date_start() || *t >= DATE_END { 0 } else { horizon(t) }, *t)).collect();
    order.sort();
    let mut truncated = false;
    for (h, t) in &order {
        let t = t;
        if budget == 0 && *h > 800 {
            acc.add("long_horizon_instants_left_to_full_window_list", 1);
            continue;
        }
        if budget > 0 && *h > 2000 && opening_hours::verif_schedule_count() - c0 > budget {
            truncated = true;
            acc.add("long_horizon_instants_skipped_after_budget", 1);
            continue;
        }
        n += 1;
        let (ek, enc) = expect_at(p, *t, p_full);
        // state and its three predicates
        let st = match catch(|| (oh.state(*t), oh.is_open(*t), oh.is_closed(*t), oh.is_unknown(*t))) {
            Ok(x) => x,
            Err(pi) => {
                acc.violate(viol("state_panic", it, c, *t, format!("state panicked: {} at {}", pi.msg, pi.loc)));
                continue;
            }
        };
        let k = kind_code(st.0);
        if k != ek {
            acc.violate(viol("state_differs_from_daily_schedule", it, c, *t, format!("state = {}, the schedule of that day says {}", kname(k), kname(ek))));
            continue;
        }
        if (st.1, st.2, st.3) != (st.0 == RuleKind::Open, st.0 == RuleKind::Closed, st.0 == RuleKind::Unknown) {
            acc.violate(viol("predicates_inconsistent_with_state", it, c, *t, format!("state = {:?} but is_open/is_closed/is_unknown = {:?}", st.0, (st.1, st.2, st.3))));
            continue;
        }
        ok += 1;
        // next_change
        let nc = match catch(|| oh.next_change(*t)) {
            Ok(x) => x,
            Err(pi) => {
                acc.violate(viol("next_change_panic", it, c, *t, format!("next_change panicked: {} at {}", pi.msg, pi.loc)));
                continue;
            }
        };
        if let Some(x) = nc {
            if x <= *t {
                acc.violate(viol("next_change_not_after_t", it, c, *t, format!("next_change = {} is not strictly after t", fmt_dt(x))));
                continue;
            }
            if x >= DATE_END {
                acc.violate(viol("next_change_at_or_after_date_end", it, c, *t, format!("next_change = {}", fmt_dt(x))));
                continue;
            }
        }
        match enc {
            Ok(exp) => {
                if nc != exp {
                    let kind = match (nc, exp) {
                        (Some(a), Some(b)) if a < b => "next_change_too_early",
                        (Some(_), Some(_)) => "next_change_too_late",
                        (None, Some(_)) => "next_change_none_but_state_changes",
                        _ => "next_change_reports_nonexistent_change",
                    };
                    acc.violate(viol(kind, it, c, *t, format!("next_change = {:?}, the daily schedules change state at {:?}", nc.map(fmt_dt), exp.map(fmt_dt))));
                    continue;
                }
            }
            Err(edge) => {
                if let Some(x) = nc {
                    if x < edge {
                        acc.violate(viol("next_change_reports_nonexistent_change", it, c, *t, format!("next_change = {} but the daily schedules show no change before {}", fmt_dt(x), fmt_dt(edge))));
                        continue;
                    }
                }
            }
        }
        // same answer inside one run (only for t inside P's window)
        let m = floor_min(*t);
        if m >= p.lo && m < p.hi && *t >= date_start() {
            let key = p.run_start(m);
            match by_run.get(&key) {
                Some(prev) if *prev != nc => {
                    acc.violate(viol("next_change_differs_within_one_interval", it, c, *t, format!("next_change = {:?} but an earlier instant of the same interval got {:?}", nc.map(fmt_dt), prev.map(fmt_dt))));
                    continue;
                }
                _ => {
                    by_run.insert(key, nc);
                }
            }
        }
        ok += 1;
    }
    (n, ok, truncated)
}

pub fn check_item(it: &Item, c: &Ctx, quick: bool, only: Option<NaiveDateTime>, acc: &mut Acc) {
    let oh = match catch(|| OpeningHours::parse(&it.text)) {
        Ok(Ok(oh)) => oh.with_context(c.real.clone()),
        _ => {
            acc.add("rejected_by_parser", 1);
            return;
        }
    };
    let quick = quick || !it.deep; // depth per item, see c02::Item::deep
    let core = windows::w_core_blocks();
    let small = windows::w_small_blocks();
    let budget: u64 = if quick { 4_000_000 } else { 20_000_000 };
    let mut tally = |n: u64, ok: u64, trunc: bool, acc: &mut Acc| {
        acc.add("states", n);
        acc.add("transitions", n);
        acc.add("evaluations", 2 * n);
        acc.add("traces_validated_against_impl", ok);
        if trunc {
            acc.add("expression_contexts_truncated_by_budget", 1);
        }
    };
    if it.full || only.is_some() {
        let Ok(p) = catch(|| Pointwise::build(&oh, ymd(1899, 12, 30), ymd(10000, 1, 2))) else {
            acc.add("schedule_at_panics_left_to_C04", 1);
            return;
        };
        let ts = match only {
            Some(t) => vec![t],
            None => instants(&p, &core, quick, true),
        };
        let (n, ok, tr) = check_instants(&oh, it, c, &p, true, &ts, budget, acc);
        tally(n, ok, tr, acc);
        if p.n_runs() > 1 {
            acc.add("nontrivial_ctx_exprs", 1);
        }
    } else {
        let mut nontrivial = false;
        for (b0, b1) in if quick { &small } else { &core } {
            let Ok(p) = catch(|| Pointwise::build(&oh, *b0, *b1)) else {
                acc.add("schedule_at_panics_left_to_C04", 1);
                return;
            };
            nontrivial |= p.n_runs() > 1;
            let ts: Vec<NaiveDateTime> = instants(&p, &[(*b0, *b1)], quick, false)
                .into_iter()
                .filter(|t| *t >= b0.and_hms_opt(0, 0, 0).unwrap() && *t < b1.and_hms_opt(23, 59, 0).unwrap())
                .collect();
            let (n, ok, tr) = check_instants(&oh, it, c, &p, false, &ts, if quick { 0 } else { 6_000_000 }, acc);
            tally(n, ok, tr, acc);
        }
        if nontrivial {
            acc.add("nontrivial_ctx_exprs", 1);
        }
    }
}

pub fn run(cfg: &Cfg) -> Outcome {
    let mut items = c02::family(cfg);
    if let Ok(n) = std::env::var("OHMC_LIMIT") {
        items.truncate(n.parse().unwrap_or(usize::MAX));
    }
    if let Ok(seg) = std::env::var("OHMC_SEGMENT") {
        // experimentation only (never set by ./check): "full" | "deep" | "rest:<stride>"
        items = items
            .into_iter()
            .enumerate()
            .filter(|(i, it)| match seg.as_str() {
                "full" => it.full,
                "deep" => it.deep && !it.full,
                s => !it.deep && !it.full && i % s.trim_start_matches("rest:").parse::<usize>().unwrap_or(1) == 0,
            })
            .map(|(_, it)| it)
            .collect();
    }
    eprintln!("C03: {} items ({} full-window, {} deep block-mode, {} quick-depth block-mode)", items.len(), items.iter().filter(|i| i.full).count(), items.iter().filter(|i| i.deep && !i.full).count(), items.iter().filter(|i| !i.deep && !i.full).count());
    let ctxs = vec![ctx::empty(), ctx::synthetic(), ctx::country(&cfg.repo, opening_hours::localization::Country::FR, "FR")];
    let work: Vec<(usize, usize)> = (0..items.len()).flat_map(|i| (0..ctxs.len()).map(move |c| (i, c))).collect();
    let accs: Vec<Acc> = work
        .par_iter()
        .with_max_len(1)
        .map(|(i, c)| {
            let mut acc = Acc::new();
            if *c > 0 && !items[*i].feats.iter().any(|f| f == "holiday") {
                return acc;
            }
            if (*c == 1 && items[*i].full) || (*c == 2 && !items[*i].full) {
                return acc;
            }
            check_item(&items[*i], &ctxs[*c], cfg.quick(), None, &mut acc);
            acc.add("expression_contexts", 1);
            acc
        })
        .collect();
    let mut acc = Acc::new();
    for a in accs {
        acc.merge(a);
    }
    let nt = acc.get("nontrivial_ctx_exprs");
    acc.add("distinct_nontrivial", nt);
    let n_full = items.iter().filter(|i| i.full).count();
    for i in [0usize, n_full.saturating_sub(1), items.len() / 2, items.len() - 1] {
        acc.sample(json!({"expr": items[i].text, "full_window": items[i].full}));
    }
    let skipped = acc.get("long_horizon_instants_left_to_full_window_list") + acc.get("long_horizon_instants_skipped_after_budget");
    let tz_cov = crate::props::tzshape::run(crate::props::tzshape::Which::C03, cfg.quick(), &mut acc);
    let mut o = Outcome::new("model_checking", acc);
    o.cov("time_zone_contexts", tz_cov);
    o.exhaustive = true;
    if skipped > 0 {
        o.caps_hit.push(format!("{skipped} long-horizon next_change queries were not run (block mode of the quick tier leaves horizons over 800 days to the full-window list; elsewhere the deterministic schedule_at budget was used up): state() was still checked nowhere less"));
    }
    o.cov("family_size", json!(items.len()));
    o.cov("full_window_expressions", json!(n_full));
    o.cov("rule", json!("for every expression × context: every derived instant (P boundaries of the window × {−1min, −1s, 0, +1ms, +1s, +30s, +59.999s, +1min}, every 11th (quick: 97th) minute of six fixed days, 16 instants around and far outside both ends of the supported range) is queried on the real state / is_open / is_closed / is_unknown / next_change and compared with the pointwise oracle P (kind of the run containing t; end of that run, None iff it reaches 10000-01-01); oracle-free relations: next_change > t, < DATE_END, equal for all t of one run. states = instants, transitions = next_change calls; block mode only requires answers beyond the block edge to be no earlier than the edge. next_change walks day by day where selectors give no hint: queries stop for an expression once a deterministic budget of schedule_at calls (H1 counter) is used up (counted). Thorough tier: the quick family is explored at thorough depth (W_core blocks, larger start caps, all pairs, larger budgets); the expressions only the thorough family adds (E1 with two selector kinds, every 5th E2, every 37th E3, the larger shortcut family K) at the quick tier's depth"));
    o.assume("P uses the real schedule_at (consistency property)");
    o
}

pub fn replay(cfg: &Cfg, case: &Value) -> Vec<Violation> {
    if crate::props::tzshape::is_case(case) {
        return crate::props::tzshape::replay(crate::props::tzshape::Which::C03, case);
    }
    let mut acc = Acc::new();
    let Some(text) = case.get("expr").and_then(|v| v.as_str()) else { return vec![] };
    let c = ctx::by_name(&cfg.repo, case.get("ctx").and_then(|v| v.as_str()).unwrap_or("empty"));
    let it = Item { text: text.to_string(), feats: features::of_str(text), full: true, deep: true };
    let t = case.get("t").and_then(|v| v.as_str()).and_then(parse_dt);
    check_item(&it, &c, false, t, &mut acc);
    acc.groups.into_values().flat_map(|g| g.examples).collect()
}
