//! C10 — Embedded holiday calendars equal the source data, per country.
//!
//! Complete enumeration: every country of `Country::ALL` × {public, school} × every date of
//! 1990-01-01..2085-12-31 (the data spans 1999..2075) against the source text files parsed by an
//! independent reader; `count`, `iter`, `first_after` chains; every string of length 0..3 over
//! [A-Za-z] (+ decorated codes) through `FromStr`; PH / SH / PH ± 1 day selectors evaluated by the
//! real `schedule_at` with the country's calendar attached on every day of 1998..2077.

use crate::report::{par_shards, Acc, Outcome, Violation};
use crate::util::{catch, ymd};
use crate::Cfg;
use chrono::{Datelike, Duration, NaiveDate};
use opening_hours::localization::Country;
use opening_hours::{Context, OpeningHours, RuleKind};
use opening_hours_syntax::ExtendedTime;
use serde_json::{json, Value};
use std::collections::{BTreeMap, BTreeSet};

type Db = BTreeMap<String, BTreeSet<NaiveDate>>;

fn read_db(path: &str) -> Result<Db, String> {
    let text = std::fs::read_to_string(path).map_err(|e| format!("{path}: {e}"))?;
    let mut db = Db::new();
    for (n, line) in text.lines().enumerate() {
        if line.trim().is_empty() {
            continue;
        }
        let mut it = line.split_whitespace();
        let region = it.next().ok_or(format!("{path}:{}: no region", n + 1))?;
        let date = it.next().ok_or(format!("{path}:{}: no date", n + 1))?;
        let mut p = date.split('-');
        let y: i32 = p.next().and_then(|x| x.parse().ok()).ok_or(format!("{path}:{}: bad year", n + 1))?;
        let m: u32 = p.next().and_then(|x| x.parse().ok()).ok_or(format!("{path}:{}: bad month", n + 1))?;
        let d: u32 = p.next().and_then(|x| x.parse().ok()).ok_or(format!("{path}:{}: bad day", n + 1))?;
        let date = NaiveDate::from_ymd_opt(y, m, d).ok_or(format!("{path}:{}: invalid date", n + 1))?;
        db.entry(region.to_string()).or_default().insert(date);
    }
    Ok(db)
}

fn viol(kind: &str, case: Value, detail: String) -> Violation {
    let mut c = case;
    c["check"] = json!(kind);
    Violation::new(kind, vec![], c, detail)
}

const LO: (i32, u32, u32) = (1990, 1, 1);
const HI: (i32, u32, u32) = (2085, 12, 31);

fn check_country(cfg: &Cfg, c: Country, public: &Db, school: &Db, acc: &mut Acc) {
    let code = c.iso_code();
    let empty = BTreeSet::new();
    let hol = match catch(|| c.holidays()) {
        Ok(h) => h,
        Err(p) => {
            acc.violate(viol("holidays_panic", json!({"country": code}), format!("panic {} at {}", p.msg, p.loc)));
            return;
        }
    };
    let hol2 = c.holidays();
    if hol != hol2 {
        acc.violate(viol("holidays_unstable", json!({"country": code}), "two calls to holidays() differ".into()));
    }
    for (kind, cal, listed) in [
        ("public", hol.get_public(), public.get(code).unwrap_or(&empty)),
        ("school", hol.get_school(), school.get(code).unwrap_or(&empty)),
    ] {
        // membership on every date of the span
        let mut d = ymd(LO.0, LO.1, LO.2);
        let end = ymd(HI.0, HI.1, HI.2);
        let mut ok = 0u64;
        let mut n = 0u64;
        while d <= end {
            n += 1;
            let got = cal.contains(d);
            let exp = listed.contains(&d);
            if got != exp {
                acc.violate(viol("membership", json!({"country": code, "kind": kind, "date": d.to_string()}),
                    format!("{code} {kind} contains({d}) = {got}, source file lists it: {exp}")));
            } else {
                ok += 1;
            }
            d = d.succ_opt().unwrap();
        }
        acc.add("states", n);
        acc.add("evaluations", n);
        acc.add("traces_validated_against_impl", ok);
        // count / iter
        let items: Vec<NaiveDate> = cal.iter().collect();
        let exp_items: Vec<NaiveDate> = listed.iter().copied().collect();
        if items != exp_items {
            let extra: Vec<_> = items.iter().filter(|d| !listed.contains(d)).take(3).collect();
            let missing: Vec<_> = exp_items.iter().filter(|d| !items.contains(d)).take(3).collect();
            acc.violate(viol("iter", json!({"country": code, "kind": kind}),
                format!("{code} {kind} iter() has {} dates, file has {}; extra {:?} missing {:?}", items.len(), exp_items.len(), extra, missing)));
        }
        if cal.count() as usize != exp_items.len() {
            acc.violate(viol("count", json!({"country": code, "kind": kind}), format!("{code} {kind} count() = {}, file has {}", cal.count(), exp_items.len())));
        }
        // first_after chain: from before the data, hop through every listed date
        let mut cur = ymd(1989, 12, 31);
        let mut hops = 0u64;
        for exp in exp_items.iter().copied().map(Some).chain(std::iter::once(None)) {
            let got = cal.first_after(cur);
            hops += 1;
            if got != exp {
                acc.violate(viol("first_after", json!({"country": code, "kind": kind, "date": cur.to_string()}),
                    format!("{code} {kind} first_after({cur}) = {got:?}, expected {exp:?}")));
                break;
            }
            match exp {
                Some(e) => {
                    // also from the day before (non-member in most cases)
                    let prev = e.pred_opt().unwrap();
                    if !listed.contains(&prev) && cal.first_after(prev) != Some(e) {
                        acc.violate(viol("first_after", json!({"country": code, "kind": kind, "date": prev.to_string()}),
                            format!("{code} {kind} first_after({prev}) = {:?}, expected {e}", cal.first_after(prev))));
                    }
                    cur = e;
                }
                None => {}
            }
        }
        acc.add("transitions", hops);
        acc.add("evaluations", hops);
    }
    // selectors through the real evaluator
    if cfg.repo.is_empty() {
        return;
    }
    let ctx = Context::default().with_holidays(hol.clone());
    for (expr, kind, shift) in [("PH", "public", 0i64), ("SH", "school", 0), ("PH -1 day", "public", -1), ("PH +1 day", "public", 1)] {
        let listed = if kind == "public" { public.get(code).unwrap_or(&empty) } else { school.get(code).unwrap_or(&empty) };
        let oh = OpeningHours::parse(expr).expect("selector parses").with_context(ctx.clone());
        let mut d = ymd(1998, 1, 1);
        let end = ymd(2077, 12, 31);
        let mut ok = 0u64;
        let mut n = 0u64;
        while d <= end {
            n += 1;
            let exp_open = listed.contains(&(d - Duration::days(shift)));
            let sched: Vec<_> = oh.schedule_at(d).into_iter().collect();
            let open_all_day = sched.len() == 1
                && sched[0].kind == RuleKind::Open
                && sched[0].range.start == ExtendedTime::MIDNIGHT_00
                && sched[0].range.end == ExtendedTime::MIDNIGHT_24;
            let closed_all_day = sched.iter().all(|r| r.kind == RuleKind::Closed);
            let good = if exp_open { open_all_day } else { closed_all_day };
            if !good {
                acc.violate(viol("selector", json!({"country": code, "expr": expr, "date": d.to_string()}),
                    format!("{code}: `{expr}` on {d} gives {:?}, expected open all day = {exp_open}", sched.iter().map(|r| (r.range.clone(), r.kind)).collect::<Vec<_>>())));
            } else {
                ok += 1;
            }
            d = d.succ_opt().unwrap();
        }
        acc.add("states", n);
        acc.add("evaluations", n);
        acc.add("traces_validated_against_impl", ok);
    }
}

fn code_strings() -> Vec<String> {
    let letters: Vec<char> = ('A'..='Z').chain('a'..='z').collect();
    let mut out = vec![String::new()];
    for a in &letters {
        out.push(a.to_string());
        for b in &letters {
            out.push(format!("{a}{b}"));
            for c in &letters {
                out.push(format!("{a}{b}{c}"));
            }
        }
    }
    for c in Country::ALL {
        let code = c.iso_code();
        out.push(format!("{code} "));
        out.push(format!(" {code}"));
        out.push(code.to_lowercase());
        out.push(c.name().to_string());
        out.push(format!("{code}\0"));
        out.push(format!("{code}{code}"));
    }
    out
}

fn check_code(s: &str, by_code: &BTreeMap<&'static str, Country>, acc: &mut Acc) -> bool {
    let got = catch(|| s.parse::<Country>());
    let exp = by_code.get(s).copied();
    match got {
        Err(p) => {
            acc.violate(viol("from_str_panic", json!({"s": s}), format!("panic {} at {}", p.msg, p.loc)));
            false
        }
        Ok(r) => {
            if r.clone().ok() != exp {
                acc.violate(viol("from_str", json!({"s": s}), format!("{s:?}.parse::<Country>() = {r:?}, expected {exp:?}")));
                false
            } else {
                true
            }
        }
    }
}

pub fn run(cfg: &Cfg) -> Outcome {
    let mut acc = Acc::new();
    let pub_path = format!("{}/opening-hours/data/holidays_public.txt", cfg.repo);
    let sch_path = format!("{}/opening-hours/data/holidays_school.txt", cfg.repo);
    let (public, school) = match (read_db(&pub_path), read_db(&sch_path)) {
        (Ok(a), Ok(b)) => (a, b),
        (a, b) => {
            eprintln!("cannot read source data: {:?} {:?}", a.err(), b.err());
            std::process::exit(2);
        }
    };
    // code table consistency
    let mut by_code: BTreeMap<&'static str, Country> = BTreeMap::new();
    for c in Country::ALL {
        if let Some(prev) = by_code.insert(c.iso_code(), c) {
            acc.violate(viol("iso_code_not_injective", json!({"code": c.iso_code()}), format!("{prev:?} and {c:?} share the code {}", c.iso_code())));
        }
        if c.iso_code() != format!("{c:?}") {
            acc.violate(viol("iso_code_vs_variant", json!({"code": c.iso_code()}), format!("variant {c:?} has code {}", c.iso_code())));
        }
        if format!("{c}") != c.name() {
            acc.violate(viol("display", json!({"code": c.iso_code()}), format!("Display of {c:?} is {c}, name() is {}", c.name())));
        }
    }
    let all_set: BTreeSet<Country> = Country::ALL.iter().copied().collect();
    if all_set.len() != Country::ALL.len() {
        acc.violate(viol("all_has_duplicates", json!({}), "Country::ALL has duplicates".into()));
    }
    for (name, db) in [("public", &public), ("school", &school)] {
        for region in db.keys() {
            if !by_code.contains_key(region.as_str()) {
                acc.violate(viol("region_without_country", json!({"region": region, "kind": name}),
                    format!("source file lists {} dates for region {region} ({name}) but no Country has that code: the data is unreachable", db[region].len())));
            }
        }
    }
    let strings = code_strings();
    acc.merge(par_shards(&strings, 4096, |_, s, acc| {
        acc.add("evaluations", 1);
        if check_code(s, &by_code, acc) {
            acc.add("traces_validated_against_impl", 1);
        }
    }));
    acc.add("code_strings", strings.len() as u64);
    // calendars + selectors
    let countries: Vec<Country> = Country::ALL.to_vec();
    acc.merge(par_shards(&countries, 1, |_, c, acc| check_country(cfg, *c, &public, &school, acc)));
    let nontrivial = public.values().chain(school.values()).map(|s| s.len() as u64).sum::<u64>();
    acc.add("distinct_nontrivial", nontrivial);
    acc.add("countries", countries.len() as u64);
    acc.sample(json!({"country":"FR","kind":"public","date":"2024-07-14","expected":true}));
    acc.sample(json!({"country":"US","kind":"school","first_listed": school.get("US").and_then(|s| s.iter().next()).map(|d| d.to_string())}));
    acc.sample(json!({"from_str":"fr","expected":"Err"}));
    let min_y = public.values().flat_map(|s| s.iter()).map(|d| d.year()).min();
    let max_y = public.values().flat_map(|s| s.iter()).map(|d| d.year()).max();
    let mut o = Outcome::new("model_checking", acc);
    o.exhaustive = true;
    o.cov("data_year_span", json!([min_y, max_y]));
    o.cov("date_span_checked", json!(["1990-01-01", "2085-12-31"]));
    o.cov("rule", json!("complete: every Country::ALL × {public, school} × every date 1990-01-01..2085-12-31 (contains ⇔ listed in the source text file, parsed independently), count/iter exact, first_after chain through every listed date; every [A-Za-z]{0,3} string + decorated codes through FromStr; PH, SH, PH±1 day through the real schedule_at on every day 1998..2077 with the country's calendar attached. states = (country, kind, date) triples, transitions = first_after hops; distinct_nontrivial = listed (region, date) pairs"));
    o.assume("the source text files under opening-hours/data are the ground truth; chrono date arithmetic");
    o
}

pub fn replay(cfg: &Cfg, case: &Value) -> Vec<Violation> {
    let mut acc = Acc::new();
    let pub_path = format!("{}/opening-hours/data/holidays_public.txt", cfg.repo);
    let sch_path = format!("{}/opening-hours/data/holidays_school.txt", cfg.repo);
    let (Ok(public), Ok(school)) = (read_db(&pub_path), read_db(&sch_path)) else { return vec![] };
    let by_code: BTreeMap<&'static str, Country> = Country::ALL.iter().map(|c| (c.iso_code(), *c)).collect();
    if let Some(s) = case.get("s").and_then(|v| v.as_str()) {
        check_code(s, &by_code, &mut acc);
    } else if let Some(code) = case.get("country").and_then(|v| v.as_str()) {
        if let Some(c) = by_code.get(code) {
            check_country(cfg, *c, &public, &school, &mut acc);
        }
    }
    let want = case.get("check").and_then(|v| v.as_str()).map(|s| s.to_string());
    acc.groups
        .into_values()
        .flat_map(|g| g.examples)
        .filter(|v| want.as_ref().map(|w| &v.kind == w).unwrap_or(true))
        .collect()
}
