//! C20 — UniqueSortedVec keeps its sorted-unique invariant under all operations.
//!
//! Enumerated completely (quick): every vector over {0,1,2,3} of length ≤ 6 (5 461) through
//! `From<Vec>`; every ordered pair of them through `union` (2.98e7); every (vector, x∈{-1..5})
//! through `contains` / `find_first_following`; every ordered pair of subsets of {0..7} through
//! `union` (deeper interleavings of the recursive merge than 4 symbols allow); the same over
//! `Arc<str>` elements {"", "a", "ab", "b"}; `to_ref`. Thorough: alphabet {0..4} (19 531 vectors,
//! 3.8e8 pairs) and subsets of {0..10}. Oracle: BTreeSet.

use crate::report::{par_shards, Acc, Outcome, Violation};
use crate::util::catch;
use crate::Cfg;
use opening_hours_syntax::sorted_vec::UniqueSortedVec;
use serde_json::{json, Value};
use std::collections::BTreeSet;
use std::ops::Bound::{Included, Unbounded};
use std::sync::Arc;

fn all_vectors(alpha: i32, max_len: usize) -> Vec<Vec<i32>> {
    let mut out = vec![vec![]];
    let mut frontier = vec![vec![]];
    for _ in 0..max_len {
        let mut next = Vec::new();
        for v in &frontier {
            for a in 0..alpha {
                let mut w: Vec<i32> = v.clone();
                w.push(a);
                next.push(w);
            }
        }
        out.extend(next.iter().cloned());
        frontier = next;
    }
    out
}

fn strictly_increasing<T: Ord>(s: &[T]) -> bool {
    s.windows(2).all(|w| w[0] < w[1])
}

fn viol(kind: &str, case: Value, detail: String) -> Violation {
    let mut c = case;
    c["op"] = json!(kind);
    Violation::new(kind, vec![], c, detail)
}

fn check_from(v: &[i32], acc: &mut Acc) -> bool {
    let set: BTreeSet<i32> = v.iter().copied().collect();
    let exp: Vec<i32> = set.iter().copied().collect();
    match catch(|| UniqueSortedVec::from(v.to_vec())) {
        Err(p) => {
            acc.violate(viol("from_panic", json!({"v": v}), format!("panic {} at {}", p.msg, p.loc)));
            false
        }
        Ok(u) => {
            if u.as_slice() != exp.as_slice() || !strictly_increasing(u.as_slice()) {
                acc.violate(viol("from", json!({"v": v}), format!("From({v:?}) = {:?}, expected {exp:?}", u.as_slice())));
                return false;
            }
            let back: Vec<i32> = u.clone().into();
            if back != exp || u.len() != exp.len() {
                acc.violate(viol("from", json!({"v": v}), format!("Into<Vec>/Deref of From({v:?}) = {back:?}")));
                return false;
            }
            true
        }
    }
}

fn check_queries(v: &[i32], lo: i32, hi: i32, acc: &mut Acc) -> u64 {
    let set: BTreeSet<i32> = v.iter().copied().collect();
    let u = UniqueSortedVec::from(v.to_vec());
    let mut ok = 0;
    for x in lo..=hi {
        let c = u.contains(&x);
        let f = u.find_first_following(&x).copied();
        let exp_f = set.range((Included(x), Unbounded)).next().copied();
        if c != set.contains(&x) {
            acc.violate(viol("contains", json!({"v": v, "x": x}), format!("contains({x}) on {:?} = {c}", u.as_slice())));
        } else if f != exp_f {
            acc.violate(viol("find_first_following", json!({"v": v, "x": x}), format!("find_first_following({x}) on {:?} = {f:?}, expected {exp_f:?}", u.as_slice())));
        } else {
            ok += 1;
        }
    }
    ok
}

fn check_union<T: Ord + Clone + std::fmt::Debug + serde_json_ser::Ser>(a: &[T], b: &[T], acc: &mut Acc) -> bool {
    let ua = UniqueSortedVec::from(a.to_vec());
    let ub = UniqueSortedVec::from(b.to_vec());
    let exp: Vec<T> = a.iter().chain(b.iter()).cloned().collect::<BTreeSet<T>>().into_iter().collect();
    match catch(|| ua.union(ub)) {
        Err(p) => {
            acc.violate(viol("union_panic", json!({"a": T::ser(a), "b": T::ser(b)}), format!("panic {} at {}", p.msg, p.loc)));
            false
        }
        Ok(r) => {
            if r.as_slice() != exp.as_slice() {
                acc.violate(viol("union", json!({"a": T::ser(a), "b": T::ser(b)}), format!("{a:?} ∪ {b:?} = {:?}, expected {exp:?}", r.as_slice())));
                false
            } else {
                true
            }
        }
    }
}

mod serde_json_ser {
    use serde_json::{json, Value};
    use std::sync::Arc;
    pub trait Ser: Sized {
        fn ser(v: &[Self]) -> Value;
    }
    impl Ser for i32 {
        fn ser(v: &[Self]) -> Value {
            json!(v)
        }
    }
    impl Ser for Arc<str> {
        fn ser(v: &[Self]) -> Value {
            json!(v.iter().map(|s| s.to_string()).collect::<Vec<_>>())
        }
    }
}

fn subsets(n: u32) -> Vec<Vec<i32>> {
    (0..(1u32 << n)).map(|m| (0..n as i32).filter(|i| m & (1 << i) != 0).collect()).collect()
}

pub fn run(cfg: &Cfg) -> Outcome {
    let mut acc = Acc::new();
    let (alpha, nsub) = if cfg.quick() { (4, 8) } else { (5, 11) };
    let vecs = all_vectors(alpha, 6);
    acc.add("vectors", vecs.len() as u64);
    // (1) From<Vec>, contains, find_first_following on every vector
    acc.merge(par_shards(&vecs, 256, |_, v, acc| {
        acc.add("evaluations", 1);
        if check_from(v, acc) {
            acc.add("traces_validated_against_impl", 1);
        }
        let ok = check_queries(v, -1, alpha + 1, acc);
        acc.add("evaluations", (alpha + 3) as u64);
        acc.add("traces_validated_against_impl", ok);
    }));
    // (2) union on every ordered pair of vectors
    let idx: Vec<usize> = (0..vecs.len()).collect();
    acc.merge(par_shards(&idx, 8, |_, i, acc| {
        let mut ok = 0u64;
        for b in &vecs {
            if check_union(&vecs[*i], b, acc) {
                ok += 1;
            }
        }
        acc.add("evaluations", vecs.len() as u64);
        acc.add("transitions", vecs.len() as u64);
        acc.add("traces_validated_against_impl", ok);
    }));
    // (3) union on every ordered pair of subsets of {0..nsub-1}, given in reversed order so that
    //     From has to sort as well
    let subs = subsets(nsub);
    let sidx: Vec<usize> = (0..subs.len()).collect();
    acc.merge(par_shards(&sidx, 8, |_, i, acc| {
        let mut a = subs[*i].clone();
        a.reverse();
        let mut ok = 0u64;
        for b in &subs {
            if check_union(&a, b, acc) {
                ok += 1;
            }
        }
        acc.add("evaluations", subs.len() as u64);
        acc.add("transitions", subs.len() as u64);
        acc.add("traces_validated_against_impl", ok);
    }));
    // (4) Arc<str> elements: the type the library stores
    let words: [&str; 4] = ["", "a", "ab", "b"];
    let svecs: Vec<Vec<Arc<str>>> = all_vectors(4, 4)
        .into_iter()
        .map(|v| v.into_iter().map(|i| Arc::<str>::from(words[i as usize])).collect())
        .collect();
    let sidx: Vec<usize> = (0..svecs.len()).collect();
    acc.merge(par_shards(&sidx, 8, |_, i, acc| {
        let mut ok = 0u64;
        for b in &svecs {
            if check_union(&svecs[*i], b, acc) {
                ok += 1;
            }
        }
        // to_ref keeps content and order
        let u = UniqueSortedVec::from(svecs[*i].clone());
        let r: UniqueSortedVec<&str> = u.to_ref();
        let exp: Vec<&str> = u.iter().map(|s| &**s).collect();
        if r.as_slice() != exp.as_slice() || !strictly_increasing(r.as_slice()) {
            acc.violate(viol("to_ref", json!({"v": svecs[*i].iter().map(|s| s.to_string()).collect::<Vec<_>>()}), format!("to_ref = {:?}", r.as_slice())));
        } else {
            ok += 1;
        }
        for w in words.iter().chain(["aa", "c"].iter()) {
            let key: Arc<str> = Arc::from(*w);
            let set: BTreeSet<Arc<str>> = svecs[*i].iter().cloned().collect();
            let f = u.find_first_following(&key).cloned();
            let ef = set.range((Included(key.clone()), Unbounded)).next().cloned();
            if u.contains(&key) != set.contains(&key) || f != ef {
                acc.violate(viol("str_query", json!({"v": svecs[*i].iter().map(|s| s.to_string()).collect::<Vec<_>>(), "x": w}), format!("contains/find_first_following({w:?}) on {:?}", u.as_slice())));
            } else {
                ok += 1;
            }
        }
        acc.add("evaluations", svecs.len() as u64 + 7);
        acc.add("transitions", svecs.len() as u64);
        acc.add("traces_validated_against_impl", ok);
    }));
    // (5) one deterministic long case: recursion depth of union on interleaved operands
    {
        let a: Vec<i32> = (0..20000).filter(|x| x % 2 == 0).collect();
        let b: Vec<i32> = (0..20000).filter(|x| x % 2 == 1 || x % 10 == 0).collect();
        acc.add("evaluations", 1);
        if check_union(&a, &b, &mut acc) {
            acc.add("traces_validated_against_impl", 1);
        }
    }
    // (6) empty / new / default
    {
        let e: UniqueSortedVec<i32> = UniqueSortedVec::new();
        let d: UniqueSortedVec<i32> = Default::default();
        if !e.is_empty() || e != d || e.contains(&0) || e.find_first_following(&0).is_some() {
            acc.violate(viol("new", json!({}), "new()/default() not empty".into()));
        }
    }
    let distinct_sets = 1u64 << alpha;
    acc.add("states", vecs.len() as u64 + subs.len() as u64 + svecs.len() as u64);
    acc.add("distinct_nontrivial", (distinct_sets * distinct_sets) + (subs.len() as u64 * subs.len() as u64));
    acc.sample(json!({"op":"union","a":[3,1,1],"b":[2,3,0],"expected":[0,1,2,3]}));
    acc.sample(json!({"op":"find_first_following","v":[0,2],"x":1,"expected":2}));
    acc.sample(json!({"op":"union","a":["b",""],"b":["ab","a"],"expected":["","a","ab","b"]}));
    let mut o = Outcome::new("model_checking", acc);
    o.exhaustive = true;
    o.cov("alphabet_size", json!(alpha));
    o.cov("subset_universe", json!(nsub));
    o.cov("rule", json!(format!("every vector over {{0..{}}} of length ≤ 6 through From/contains/find_first_following (x ∈ -1..{}); every ordered pair of them through union; every ordered pair of subsets of {{0..{}}} through union; Arc<str> over {{\"\",a,ab,b}} length ≤ 4, all pairs; one 10^4-element interleaved union. states = operand values, transitions = union calls; distinct_nontrivial = distinct ordered pairs of operand *sets* (pairs of raw vectors collapse onto these)", alpha - 1, alpha + 1, nsub - 1)));
    o.assume("std BTreeSet as the reference set");
    o
}

pub fn replay(_cfg: &Cfg, case: &Value) -> Vec<Violation> {
    let mut acc = Acc::new();
    let ints = |k: &str| -> Vec<i32> {
        case.get(k).and_then(|v| v.as_array()).map(|a| a.iter().filter_map(|x| x.as_i64()).map(|x| x as i32).collect()).unwrap_or_default()
    };
    let strs = |k: &str| -> Vec<Arc<str>> {
        case.get(k).and_then(|v| v.as_array()).map(|a| a.iter().filter_map(|x| x.as_str()).map(Arc::<str>::from).collect()).unwrap_or_default()
    };
    let is_str = case.get("a").and_then(|v| v.as_array()).map(|a| a.iter().any(|x| x.is_string())).unwrap_or(false);
    match case.get("op").and_then(|v| v.as_str()).unwrap_or("") {
        "from" | "from_panic" => {
            check_from(&ints("v"), &mut acc);
        }
        "contains" | "find_first_following" => {
            let x = case.get("x").and_then(|v| v.as_i64()).unwrap_or(0) as i32;
            check_queries(&ints("v"), x, x, &mut acc);
        }
        "union" | "union_panic" => {
            if is_str {
                check_union(&strs("a"), &strs("b"), &mut acc);
            } else {
                check_union(&ints("a"), &ints("b"), &mut acc);
            }
        }
        _ => {}
    }
    acc.groups.into_values().flat_map(|g| g.examples).collect()
}
