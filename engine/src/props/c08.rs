//! C08 — Supported date range: closed outside 1900..9999, results never leave it.
//!
//! Boundary family B (every alphabet value whose selectors straddle an end of the range, alone
//! and combined with every time value, plus E1's one-kind part) × an alphabet of 23 instants
//! around and far outside both bounds × all ordered pairs of them as `iter_range` windows.
//! Oracle: the statement, literally, with the pointwise oracle P (full window) for "the first
//! instant from 1900-01-01T00:00 on at which the expression is not closed".

use crate::ctx::{self, Ctx};
use crate::evalx::Pointwise;
use crate::features;
use crate::gen::alphabet as al;
use crate::gen::ast::*;
use crate::gen::print::canon;
use crate::model::kind_code;
use crate::props::c02::Item;
use crate::props::c03;
use crate::report::{Acc, Outcome, Violation};
use crate::stream::{self, date_start};
use crate::util::{catch, fmt_dt, ymd};
use crate::Cfg;
use chrono::{Duration, NaiveDate, NaiveDateTime};
use opening_hours::{OpeningHours, RuleKind, DATE_END};
use rayon::prelude::*;
use serde_json::{json, Value};

pub fn instant_alphabet() -> Vec<NaiveDateTime> {
    let hms = |d: NaiveDate, h, m, s, ms| d.and_hms_milli_opt(h, m, s, ms).unwrap();
    vec![
        NaiveDateTime::MIN,
        hms(ymd(-100000, 7, 1), 12, 30, 0, 0),
        hms(ymd(1, 1, 1), 0, 0, 0, 0),
        hms(ymd(1899, 12, 31), 0, 0, 0, 0),
        hms(ymd(1899, 12, 31), 23, 59, 0, 0),
        hms(ymd(1899, 12, 31), 23, 59, 59, 999),
        hms(ymd(1900, 1, 1), 0, 0, 0, 0),
        hms(ymd(1900, 1, 1), 0, 0, 0, 1),
        hms(ymd(1900, 1, 1), 0, 1, 0, 0),
        hms(ymd(9999, 12, 31), 0, 0, 0, 0),
        hms(ymd(9999, 12, 31), 23, 59, 0, 0),
        hms(ymd(9999, 12, 31), 23, 59, 59, 999),
        hms(ymd(10000, 1, 1), 0, 0, 0, 0),
        hms(ymd(10000, 1, 1), 0, 1, 0, 0),
        hms(ymd(10001, 6, 1), 12, 0, 0, 0),
        hms(ymd(262142, 12, 31), 0, 0, 0, 0),
        NaiveDateTime::MAX - Duration::days(1),
        NaiveDateTime::MAX,
        // years far outside the range that alias supported years under 16-bit truncation (the
        // selectors handle years as u16): 2020 − 65536, 1900 − 65536, 9999 − 65536, 2020 − 3·65536,
        // 2020 + 65536
        hms(ymd(2020 - 65536, 6, 15), 11, 0, 0, 0),
        hms(ymd(1900 - 65536, 1, 1), 0, 0, 0, 0),
        hms(ymd(9999 - 65536, 12, 31), 23, 59, 0, 0),
        hms(ymd(2020 - 3 * 65536, 2, 29), 12, 0, 0, 0),
        hms(ymd(2020 + 65536, 6, 15), 11, 0, 0, 0),
    ]
}

fn viol(kind: &str, it: &Item, c: &Ctx, case: Value, detail: String) -> Violation {
    let mut cs = case;
    cs["expr"] = json!(it.text);
    cs["ctx"] = json!(c.name);
    Violation::new(kind, it.feats.clone(), cs, format!("`{}` [{}]: {detail}", it.text, c.name))
}

pub fn check_item(it: &Item, c: &Ctx, budget: u64, acc: &mut Acc) {
    let oh = match catch(|| OpeningHours::parse(&it.text)) {
        Ok(Ok(oh)) => oh.with_context(c.real.clone()),
        _ => {
            acc.add("rejected_by_parser", 1);
            return;
        }
    };
    let Ok(p) = catch(|| Pointwise::build(&oh, ymd(1899, 12, 30), ymd(10000, 1, 2))) else {
        acc.add("schedule_at_panics_left_to_C04", 1);
        return;
    };
    if p.n_runs() > 1 {
        acc.add("nontrivial_ctx_exprs", 1);
    }
    let ts = instant_alphabet();
    // (1) schedule_at outside the range is empty / all closed
    for d in [NaiveDate::MIN, ymd(1899, 12, 31), ymd(10000, 1, 1), ymd(10000, 1, 2), NaiveDate::MAX, ymd(2020 - 65536, 6, 15), ymd(2020 + 65536, 6, 15), ymd(9999 - 65536, 12, 31), ymd(2020 - 3 * 65536, 2, 29), ymd(1900 + 65536, 1, 1)] {
        acc.add("evaluations", 1);
        match catch(|| oh.schedule_at(d).into_iter().map(|r| kind_code(r.kind)).collect::<Vec<_>>()) {
            Ok(ks) if ks.iter().all(|k| *k == 0) => acc.add("traces_validated_against_impl", 1),
            Ok(ks) => acc.violate(viol("schedule_outside_range_not_closed", it, c, json!({"date": d.to_string()}), format!("schedule_at({d}) has kinds {ks:?}"))),
            Err(pi) => acc.violate(viol("schedule_at_panic", it, c, json!({"date": d.to_string()}), format!("schedule_at({d}) panicked: {} at {}", pi.msg, pi.loc))),
        }
    }
    // (2) state closed outside; next_change never ≥ DATE_END; from before 1900 it is the first
    //     non-closed instant of P; inside: equal to P (all through C03's instant checker, which
    //     implements exactly these relations against P)
    let (n, ok, _) = c03::check_instants(&oh, it, c, &p, true, &ts, budget, acc);
    acc.add("states", n);
    acc.add("evaluations", 2 * n);
    acc.add("traces_validated_against_impl", ok);
    for t in &ts {
        if *t < date_start() || *t >= DATE_END {
            if let Ok(k) = catch(|| oh.state(*t)) {
                if k != RuleKind::Closed {
                    acc.violate(viol("state_not_closed_outside_supported_range", it, c, json!({"t": fmt_dt(*t)}), format!("state({}) = {k:?}", fmt_dt(*t))));
                }
            }
        }
    }
    // (3) every ordered pair as an iter_range window (+ iter_from from every instant): bounds and
    //     equality with P on the first 60 intervals. Windows are processed by increasing length;
    //     the real iterator walks day by day where selectors give no hint (a 3-interval
    //     expression such as `2030-2010` costs 2.9 M schedules per long window), so once the
    //     deterministic budget of schedule_at calls (H1 counter) is used up, only windows of at
    //     most 3 days inside the supported range are still run (the others are counted).
    let c0 = opening_hours::verif_schedule_count();
    if std::env::var("OHMC_SLOW").is_ok() {
        eprintln!("  phase12 done for {} sched_calls={}", it.text, c0);
    }
    let mut windows: Vec<(i64, NaiveDateTime, Option<NaiveDateTime>)> = Vec::new();
    for f in &ts {
        for t in &ts {
            let span = ((*t).min(DATE_END) - (*f).max(date_start())).num_days().max(0);
            windows.push((span, *f, Some(*t)));
        }
        windows.push(((DATE_END - (*f).max(date_start())).num_days().max(0), *f, None));
    }
    windows.sort();
    for (span, f, t) in windows {
        if span > 3 && opening_hours::verif_schedule_count() - c0 > budget {
            acc.add("long_windows_skipped_after_budget", 1);
            continue;
        }
        acc.add("transitions", 1);
        acc.add("evaluations", 1);
        let tw = std::time::Instant::now();
        let cw = opening_hours::verif_schedule_count();
        let _g = Guard(tw, cw, f, t);
        let case = json!({"from": fmt_dt(f), "to": t.map(fmt_dt)});
        let call = match t {
            Some(t) => format!("iter_range({}, {})", fmt_dt(f), fmt_dt(t)),
            None => format!("iter_from({})", fmt_dt(f)),
        };
        let real = match t {
            Some(t) => stream::collect_range(&oh, f, t, 60),
            None => stream::collect_from(&oh, f, 60),
        };
        let real = match real {
            Ok(r) => r,
            Err(pi) => {
                acc.violate(viol("iterator_panic", it, c, case, format!("{call} panicked: {} at {}", pi.msg, pi.loc)));
                continue;
            }
        };
        let cap = t.unwrap_or(DATE_END).min(DATE_END);
        if let Some((s, e, _)) = real.iter().find(|(s, e, _)| !(f <= *s && *s < *e && *e <= cap)) {
            acc.violate(viol("interval_leaves_requested_window", it, c, case, format!("{call} yields [{} .. {}), allowed window is [{}, {}]", fmt_dt(*s), fmt_dt(*e), fmt_dt(f), fmt_dt(cap))));
            continue;
        }
        let exp = stream::expected(&p, f, t.unwrap_or(DATE_END), 61);
        match stream::compare(&real, &exp[..exp.len().min(if real.len() < 60 { 61 } else { 60 })], real.len() < 60) {
            None => acc.add("traces_validated_against_impl", 1),
            Some(m) => acc.violate(viol(m.kind, it, c, case, format!("{call}: {}", m.detail))),
        }
    }
    // (4) the same windows in contexts with an interval-size bound: the approximation may end an
    //     interval early or late, but "no reported interval starts before the requested start or
    //     ends after min(requested end, 10000-01-01)" holds in every context (the bounded
    //     iterator has its own return path). Nothing else is asserted here: after an approximated
    //     interval the bounded iterator goes on from its internal cursor, so later intervals can
    //     overlap the approximated one — no property speaks about that (DESIGN §11.6)
    for bound_days in [1i64, 366] {
        let ohb = match catch(|| OpeningHours::parse(&it.text)) {
            Ok(Ok(oh)) => oh.with_context(c.real.clone().approx_bound_interval_size(chrono::Duration::days(bound_days))),
            _ => return,
        };
        let cb = opening_hours::verif_schedule_count();
        for f in &ts {
            for t in ts.iter().map(|t| Some(*t)).chain([None]) {
                if opening_hours::verif_schedule_count() - cb > budget / 4 {
                    acc.add("bounded_windows_skipped_after_budget", 1);
                    continue;
                }
                acc.add("transitions", 1);
                acc.add("evaluations", 1);
                let case = json!({"from": fmt_dt(*f), "to": t.map(fmt_dt), "bound_days": bound_days});
                let call = match t {
                    Some(t) => format!("[bound {bound_days} d] iter_range({}, {})", fmt_dt(*f), fmt_dt(t)),
                    None => format!("[bound {bound_days} d] iter_from({})", fmt_dt(*f)),
                };
                let real = match t {
                    Some(t) => stream::collect_range(&ohb, *f, t, 20),
                    None => stream::collect_from(&ohb, *f, 20),
                };
                let real = match real {
                    Ok(r) => r,
                    Err(pi) => {
                        acc.violate(viol("iterator_panic", it, c, case, format!("{call} panicked: {} at {}", pi.msg, pi.loc)));
                        continue;
                    }
                };
                let cap = t.unwrap_or(DATE_END).min(DATE_END);
                if let Some((s, e, _)) = real.iter().find(|(s, e, _)| !(*f <= *s && *s < *e && *e <= cap)) {
                    acc.violate(viol("interval_leaves_requested_window", it, c, case, format!("{call} yields [{} .. {}), allowed window is [{}, {}]", fmt_dt(*s), fmt_dt(*e), fmt_dt(*f), fmt_dt(cap))));
                    continue;
                }
                acc.add("traces_validated_against_impl", 1);
            }
        }
    }
}

struct Guard(std::time::Instant, u64, NaiveDateTime, Option<NaiveDateTime>);
impl Drop for Guard {
    fn drop(&mut self) {
        if std::env::var("OHMC_SLOW").is_ok() && self.0.elapsed().as_secs_f64() > 0.2 {
            eprintln!("  window {:.2}s calls={} {} {:?}", self.0.elapsed().as_secs_f64(), opening_hours::verif_schedule_count() - self.1, fmt_dt(self.2), self.3.map(fmt_dt));
        }
    }
}

pub fn family(cfg: &Cfg) -> Vec<Item> {
    let ts = al::times();
    let mods = al::modifiers();
    let mut items = Vec::new();
    let mut seen = std::collections::HashSet::new();
    let mut push = |e: &OpeningHoursExpression, items: &mut Vec<Item>| {
        if let Some(text) = canon(e) {
            if seen.insert(text.clone()) {
                items.push(Item { text, feats: features::of_expr(e), full: true, deep: true });
            }
        }
    };
    // boundary-straddling day selectors
    let ys = al::years();
    let ms = al::monthdays();
    let ws = al::weeks();
    let wds = al::weekdays();
    let mut sel: Vec<DaySelector> = vec![DaySelector::default()];
    for i in [5, 6, 7, 8, 10, 11] {
        sel.push(DaySelector { year: ys[i].clone(), ..Default::default() });
    }
    for i in [3, 11, 21, 22, 23, 27, 29, 30, 32] {
        sel.push(DaySelector { monthday: ms[i].clone(), ..Default::default() });
    }
    for i in [1, 3, 5] {
        sel.push(DaySelector { week: ws[i].clone(), ..Default::default() });
    }
    for i in [1, 6, 10, 13, 14, 15, 16] {
        sel.push(DaySelector { weekday: wds[i].clone(), ..Default::default() });
    }
    sel.push(DaySelector { year: ys[8].clone(), monthday: ms[23].clone(), ..Default::default() }); // 9999 easter
    let time_idx: Vec<usize> = if cfg.quick() { vec![0, 3] } else { (0..ts.len()).collect() };
    for ds in &sel {
        for ti in &time_idx {
            push(&expr(vec![al::mk_rule(ds, &ts[*ti], &mods[0])]), &mut items);
            if !cfg.quick() || *ti == 0 {
                push(&expr(vec![al::mk_rule(ds, &ts[*ti], &mods[2])]), &mut items);
            }
        }
        push(&expr(vec![al::mk_rule(&DaySelector::default(), &[], &mods[0]), al::mk_rule(ds, &ts[3], &mods[1])]), &mut items);
        push(&expr(vec![al::mk_rule(ds, &ts[3], &mods[0]), with_op(al::mk_rule(&DaySelector::default(), &[], &mods[2]), RuleOperator::Fallback)]), &mut items);
    }
    push(&expr(vec![al::mk_rule(&DaySelector::default(), &[], &mods[1])]), &mut items);
    push(&expr(vec![al::mk_rule(&DaySelector::default(), &[], &mods[2])]), &mut items);
    if !cfg.quick() {
        // every alphabet selector with no time, a span passing midnight and a span reaching 48:00
        // (each item costs a pointwise oracle over all 2 958 466 days plus its window budget: the
        // first thorough run, with every time value and the whole corpus, had not finished after
        // 55 min), and every 4th corpus line
        for ds in al::day_selectors(1) {
            for ti in [0usize, 3, 6] {
                for m in [&mods[0], &mods[1]] {
                    push(&expr(vec![al::mk_rule(&ds, &ts[ti], m)]), &mut items);
                }
            }
        }
        for (i, s) in al::corpus(&cfg.repo).into_iter().enumerate() {
            if i % 4 != 0 {
                continue;
            }
            if let Ok(e) = opening_hours_syntax::parse(&s) {
                items.push(Item { text: s, feats: features::of_expr(&e), full: true, deep: true });
            }
        }
    }
    items
}

pub fn run(cfg: &Cfg) -> Outcome {
    let mut items = family(cfg);
    if let Ok(n) = std::env::var("OHMC_LIMIT") {
        items.truncate(n.parse().unwrap_or(usize::MAX));
    }
    // the synthetic calendar holds 1899-12-31, 1900-01-01, 9999-12-31 and 10000-01-01
    let ctxs = vec![ctx::empty(), ctx::synthetic()];
    let work: Vec<(usize, usize)> = (0..items.len()).flat_map(|i| (0..ctxs.len()).map(move |c| (i, c))).collect();
    let accs: Vec<Acc> = work
        .par_iter()
        .with_max_len(1)
        .map(|(i, c)| {
            let mut acc = Acc::new();
            if *c > 0 && !items[*i].feats.iter().any(|f| f == "holiday") {
                return acc;
            }
            let t0 = std::time::Instant::now();
            check_item(&items[*i], &ctxs[*c], if cfg.quick() { 4_000_000 } else { 12_000_000 }, &mut acc);
            if std::env::var("OHMC_SLOW").is_ok() && t0.elapsed().as_secs_f64() > 2.0 {
                eprintln!("slow item {:.1}s: {} [{}]", t0.elapsed().as_secs_f64(), items[*i].text, ctxs[*c].name);
            }
            acc.add("expression_contexts", 1);
            acc
        })
        .collect();
    let mut acc = Acc::new();
    for a in accs {
        acc.merge(a);
    }
    let nt = acc.get("nontrivial_ctx_exprs");
    acc.add("distinct_nontrivial", nt);
    for i in [0usize, items.len() / 3, items.len() / 2, items.len() - 1] {
        acc.sample(json!({"expr": items[i].text, "instants": instant_alphabet().len()}));
    }
    let skipped = acc.get("long_windows_skipped_after_budget") + acc.get("long_horizon_instants_skipped_after_budget");
    let tz_cov = crate::props::tzshape::run(crate::props::tzshape::Which::C08, cfg.quick(), &mut acc);
    check_tz_extremes(None, &mut acc);
    let mut o = Outcome::new("model_checking", acc);
    o.cov("time_zone_contexts", tz_cov);
    o.exhaustive = true;
    if skipped > 0 {
        o.caps_hit.push(format!("{skipped} long windows / long-horizon queries were skipped after the per-expression schedule_at budget (windows of at most 3 days inside the supported range are never skipped)"));
    }
    o.cov("family_size", json!(items.len()));
    o.cov("instant_alphabet", json!(instant_alphabet().iter().map(|t| fmt_dt(*t)).collect::<Vec<_>>()));
    o.cov("rule", json!("exhaustive over the boundary family × the 23-instant alphabet: schedule_at outside the range is closed; state/next_change at every instant against P over all 2 958 466 days (closed outside, never ≥ 10000-01-01, from before 1900 the first non-closed instant); every ordered pair of instants as an iter_range window (529 per expression-context) and iter_from from every instant: every interval inside [from, min(to, 10000-01-01)] and the first 60 intervals equal to P. states = (expr, ctx, instant), transitions = windows explored; non-trivial = P has more than one run"));
    o.assume("P uses the real schedule_at; NaiveDateTime::MAX itself is left to C04 (state adds one minute to its argument)");
    o
}

/// Time-zone contexts at the ends of representable time and of the supported range: the statement's
/// clauses with the wall-clock time of the instant computed here (UTC + offset, "before 1900" when
/// it underflows, "after 9999" when it overflows) and the location-free evaluation as the reference
/// for "the first instant from 1900-01-01T00:00 on at which the expression is not closed".
pub fn check_tz_extremes(only: Option<(&str, &str)>, acc: &mut Acc) {
    use chrono::{DateTime, Offset, TimeZone, Utc};
    use chrono_tz::Tz;
    use opening_hours::localization::TzLocation;
    use opening_hours::Context;
    let zones: [Tz; 6] = [chrono_tz::UTC, chrono_tz::America::New_York, chrono_tz::America::Adak, chrono_tz::Asia::Kolkata, chrono_tz::Pacific::Apia, chrono_tz::Pacific::Kiritimati];
    let exprs = ["24/7", "3000", "1900 Jan 02-1900 Jan 05", "Mo-Fr 10:00-18:00", "1900 Jan 01 00:00-00:30 unknown", "9999 Dec 31 22:00-26:00"];
    let min = DateTime::<Utc>::MIN_UTC.naive_utc();
    let max = DateTime::<Utc>::MAX_UTC.naive_utc();
    let d = |y, m, dd, h, mi| ymd(y, m, dd).and_hms_opt(h, mi, 0).unwrap();
    let instants: Vec<NaiveDateTime> = vec![
        min, min + Duration::minutes(1), min + Duration::hours(3), min + Duration::hours(14), min + Duration::days(2), d(-100000, 7, 1, 12, 30), d(1789, 7, 14, 12, 0), d(1899, 12, 31, 5, 0), d(1899, 12, 31, 23, 59), d(1900, 1, 1, 0, 0), d(1900, 1, 1, 12, 0),
        d(9999, 12, 31, 12, 0), d(9999, 12, 31, 23, 59), d(10000, 1, 1, 0, 0), d(10000, 1, 1, 13, 0), max - Duration::days(2), max - Duration::hours(14), max - Duration::hours(3), max,
    ];
    let start = date_start();
    for e in exprs {
        let Ok(oh_naive) = OpeningHours::parse(e) else { continue };
        // reference: location-free next_change from long before 1900 (C08's own location-free clause)
        let first_open_naive = oh_naive.next_change(d(1500, 1, 1, 0, 0));
        for tz in zones {
            if only.map(|(oe, oz)| oe != e || oz != tz.name()).unwrap_or(false) {
                continue;
            }
            let oh = oh_naive.clone().with_context(Context::default().with_locale(TzLocation::new(tz)));
            for u in &instants {
                acc.add("tz_extreme_points", 1);
                acc.add("evaluations", 1);
                let off = tz.offset_from_utc_datetime(u).fix().local_minus_utc() as i64;
                // wall-clock position relative to the supported range
                let (before, after) = match u.checked_add_signed(Duration::seconds(off)) {
                    Some(w) => (w < start, w >= DATE_END),
                    None => (off < 0, off > 0),
                };
                let t = Utc.from_utc_datetime(u).with_timezone(&tz);
                let case = json!({"tz_extreme": true, "expr": e, "tz": tz.name(), "utc": fmt_dt(*u)});
                let feats = vec!["tz_context".to_string()];
                let head = format!("[{}] `{e}` at {}Z", tz.name(), fmt_dt(*u));
                let r = catch(|| (oh.state(t), oh.next_change(t), oh.iter_range(t, tz.from_utc_datetime(&d(1900, 1, 3, 0, 0))).take(50).map(|r| (r.range.start.naive_utc(), r.range.end.naive_utc(), kind_code(r.kind))).collect::<Vec<_>>()));
                let (st, nc, ivs) = match r {
                    Ok(x) => x,
                    Err(p) => {
                        acc.violate(Violation::new("panic_in_tz_context", feats, case, format!("{head}: panicked: {} at {}", p.msg, p.loc)));
                        continue;
                    }
                };
                let mut ok = true;
                if (before || after) && st != RuleKind::Closed {
                    acc.violate(Violation::new("not_closed_outside_supported_range", feats.clone(), case.clone(), format!("{head}: state = {st:?} although the wall-clock time lies outside 1900..9999")));
                    ok = false;
                }
                if after && nc.is_some() {
                    acc.violate(Violation::new("next_change_beyond_date_end", feats.clone(), case.clone(), format!("{head}: next_change = {:?} from an instant at or after 10000-01-01", nc.map(|x| x.naive_utc()))));
                    ok = false;
                }
                if let Some(x) = nc {
                    let w = x.naive_utc() + Duration::seconds(tz.offset_from_utc_datetime(&x.naive_utc()).fix().local_minus_utc() as i64);
                    if w >= DATE_END {
                        acc.violate(Violation::new("next_change_beyond_date_end", feats.clone(), case.clone(), format!("{head}: next_change = {}Z, wall clock {} is at or beyond 10000-01-01", fmt_dt(x.naive_utc()), fmt_dt(w))));
                        ok = false;
                    }
                }
                if before {
                    // expected: the location-free answer, as an instant of the zone (1900 wall-clock times
                    // of these zones are unambiguous; anything else is left to C09)
                    let exp = match first_open_naive {
                        None => Some(None),
                        Some(n) => match tz.from_local_datetime(&n) {
                            chrono::LocalResult::Single(x) => Some(Some(x.naive_utc())),
                            _ => None,
                        },
                    };
                    if let Some(exp) = exp {
                        let got = nc.map(|x| x.naive_utc());
                        if got != exp {
                            acc.violate(Violation::new("next_change_from_before_1900_wrong", feats.clone(), case.clone(), format!("{head} (wall clock before 1900): next_change = {:?}Z, the first instant from 1900-01-01T00:00 on at which the expression is not closed is {:?}Z", got.map(fmt_dt), exp.map(fmt_dt))));
                            ok = false;
                        }
                    }
                    // the window [t, 1900-01-03T00:00 zone time): first interval starts at t, contiguous, ends at the window end
                    let to = d(1900, 1, 3, 0, 0);
                    if *u < to {
                        // (an instant whose wall-clock time is not representable is read as the earliest
                        // representable one, so the first interval may start up to the zone offset later)
                        let representable = u.checked_add_signed(Duration::seconds(off)).is_some();
                        let good = !ivs.is_empty() && ivs[0].0 >= *u && (ivs[0].0 == *u || !representable) && ivs.windows(2).all(|w| w[0].1 == w[1].0) && ivs.iter().all(|i| i.0 < i.1) && (ivs.len() == 50 || ivs.last().unwrap().1 == to);
                        if !good {
                            acc.violate(Violation::new("window_from_before_1900_not_covered", feats.clone(), case.clone(), format!("{head}: iter_range(t, 1900-01-03T00:00Z) yields {:?}", ivs.iter().take(4).map(|i| (fmt_dt(i.0), fmt_dt(i.1), i.2)).collect::<Vec<_>>())));
                            ok = false;
                        }
                    }
                }
                if ok {
                    acc.add("traces_validated_against_impl", 1);
                }
            }
        }
    }
}

pub fn replay(cfg: &Cfg, case: &Value) -> Vec<Violation> {
    if case.get("tz_extreme").is_some() {
        let mut acc = Acc::new();
        check_tz_extremes(Some((case.get("expr").and_then(|v| v.as_str()).unwrap_or(""), case.get("tz").and_then(|v| v.as_str()).unwrap_or(""))), &mut acc);
        return acc.groups.into_values().flat_map(|g| g.examples).collect();
    }
    if crate::props::tzshape::is_case(case) {
        return crate::props::tzshape::replay(crate::props::tzshape::Which::C08, case);
    }
    let mut acc = Acc::new();
    let Some(text) = case.get("expr").and_then(|v| v.as_str()) else { return vec![] };
    let c = ctx::by_name(&cfg.repo, case.get("ctx").and_then(|v| v.as_str()).unwrap_or("empty"));
    let it = Item { text: text.to_string(), feats: features::of_str(text), full: true, deep: true };
    check_item(&it, &c, u64::MAX, &mut acc);
    acc.groups.into_values().flat_map(|g| g.examples).collect()
}
