//! Date windows (DESIGN §2.2).

use crate::util::ymd;
use chrono::NaiveDate;

/// W_core: 1899-12-30..1902-12-31, 2016-01-01..2043-12-31 (a full 28-year Gregorian cycle),
/// 9997-01-01..10000-01-02. Returned as blocks of consecutive days [start, end].
pub fn w_core_blocks() -> Vec<(NaiveDate, NaiveDate)> {
    vec![
        (ymd(1899, 12, 30), ymd(1902, 12, 31)),
        (ymd(2016, 1, 1), ymd(2043, 12, 31)),
        (ymd(9997, 1, 1), ymd(10000, 1, 2)),
    ]
}

/// A reduced window for the cheapest tiers: 1899-12-30..1900-12-31, 2019..2025, 9999..10000-01-02.
pub fn w_small_blocks() -> Vec<(NaiveDate, NaiveDate)> {
    vec![
        (ymd(1899, 12, 30), ymd(1900, 12, 31)),
        (ymd(2019, 1, 1), ymd(2025, 12, 31)),
        (ymd(9999, 1, 1), ymd(10000, 1, 2)),
    ]
}

pub fn w_full_blocks() -> Vec<(NaiveDate, NaiveDate)> {
    vec![(ymd(1899, 12, 30), ymd(10000, 1, 2))]
}

pub fn days(blocks: &[(NaiveDate, NaiveDate)]) -> u64 {
    blocks.iter().map(|(a, b)| (*b - *a).num_days() as u64 + 1).sum()
}
