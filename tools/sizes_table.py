#!/usr/bin/env python3
"""Print the table of DESIGN §11.4 from the committed quick evidence and a thorough-run log.
usage: sizes_table.py <thorough log>..."""
import json, os, re, sys
V = os.path.dirname(os.path.dirname(os.path.abspath(__file__)))
th = {}
for path in sys.argv[1:]:
    for line in open(path, errors="replace"):
        m = re.match(r"(C\d+) thorough: level=\S+ states=(\S+) transitions=(\S+) validated=(\S+) evaluations=(\S+) distinct_nontrivial=(\S+) .* wall=([\d.]+)s", line)
        if m:
            th[m.group(1)] = m.groups()[1:]
def n(x):
    try:
        x = int(x)
    except Exception:
        return "–"
    if x >= 10**9: return "%.2f·10⁹" % (x / 1e9)
    if x >= 10**6: return "%.1f·10⁶" % (x / 1e6)
    if x >= 10**4: return "%.0f k" % (x / 1e3)
    return str(x)
print("| id | quick: states / transitions / evaluations / non-trivial | wall | thorough: states / transitions / evaluations / non-trivial | wall |")
print("|---|---|---|---|---|")
for i in range(1, 21):
    p = "C%02d" % i
    e = json.load(open(os.path.join(V, "evidence", p + ".json")))
    c = e["coverage"]
    q = "%s / %s / %s / %s" % (n(c.get("states")), n(c.get("transitions")), n(c.get("evaluations")), n(c.get("distinct_nontrivial")))
    t = th.get(p)
    tt = "%s / %s / %s / %s" % (n(t[0]), n(t[1]), n(t[3]), n(t[4])) if t else "not re-run on the final tree"
    print("| %s | %s | %.0f s | %s | %s |" % (p, q, e["wall_s"], tt, ("%.0f s" % float(t[5])) if t else "–"))
