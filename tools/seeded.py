#!/usr/bin/env python3
"""Seeded-change harness.

  seeded.py new <id> <property> <file> <old> <new> [--needs "..."]   create seeded/<id>/patch.diff from an in-place edit
  seeded.py run [id ...] [--tier quick]                              apply each patch to /repo, run its checks, revert
  seeded.py suite <id>                                               apply, run the repository's own suite, revert
  seeded.py lab-run [id ...]                                         the same as run, in a scratch copy under /tmp/mutlab (never touches /repo)
  seeded.py lab-remove                                               remove the scratch copy
"""
import json, os, subprocess, sys
VERIF = os.path.dirname(os.path.dirname(os.path.abspath(__file__)))
SEEDED = os.path.join(VERIF, "seeded")
REPO = "/repo"

def sh(cmd, **kw):
    return subprocess.run(cmd, shell=isinstance(cmd, str), text=True, capture_output=True, **kw)

def clean():
    r = sh(["git", "-C", REPO, "status", "--porcelain"])
    return r.stdout.strip() == ""

def new(args):
    sid, prop, path, old, new_ = args[:5]
    needs = ""
    if "--needs" in args:
        needs = args[args.index("--needs") + 1]
    assert clean(), "/repo has uncommitted changes"
    full = os.path.join(REPO, path)
    s = open(full).read()
    assert s.count(old) == 1, "old text occurs %d times" % s.count(old)
    open(full, "w").write(s.replace(old, new_))
    d = sh(["git", "-C", REPO, "diff"]).stdout
    sh(["git", "-C", REPO, "checkout", "--", "."])
    os.makedirs(os.path.join(SEEDED, sid), exist_ok=True)
    open(os.path.join(SEEDED, sid, "patch.diff"), "w").write(d)
    meta = {"id": sid, "breaks": prop, "checks": [prop], "file": path, "needs_to_manifest": needs,
            "origin": "own (design-time seeded change)", "suite": "not run yet", "detected_by": {}}
    mp = os.path.join(SEEDED, sid, "meta.json")
    if os.path.exists(mp):
        old_meta = json.load(open(mp)); old_meta.update({k: v for k, v in meta.items() if k not in ("suite", "detected_by", "origin")}); meta = old_meta
    json.dump(meta, open(mp, "w"), indent=1)
    print("created", sid)

def apply(sid):
    assert clean(), "/repo has uncommitted changes"
    r = sh(["git", "-C", REPO, "apply", os.path.join(SEEDED, sid, "patch.diff")])
    if r.returncode != 0:
        print("patch does not apply:", r.stderr); return False
    return True

def revert():
    sh(["git", "-C", REPO, "checkout", "--", "."])
    sh(["git", "-C", REPO, "clean", "-fdq", "--", "opening-hours", "opening-hours-syntax", "compact-calendar", "opening-hours-py"])

def run(ids, tier):
    if not ids:
        ids = sorted(os.listdir(SEEDED))
    rows = []
    for sid in ids:
        mp = os.path.join(SEEDED, sid, "meta.json")
        meta = json.load(open(mp))
        if not apply(sid):
            rows.append((sid, "PATCH-FAILS", "")); continue
        try:
            for prop in meta.get("checks", [meta["breaks"]]):
                r = sh([os.path.join(VERIF, "check"), prop, "--tier", tier], cwd=VERIF)
                viol = [l for l in r.stdout.splitlines() if l.startswith("VIOLATION")]
                first = ""
                for i, l in enumerate(r.stdout.splitlines()):
                    if l.startswith("VIOLATION"):
                        nxt = r.stdout.splitlines()[i + 1] if i + 1 < len(r.stdout.splitlines()) else ""
                        first = nxt.strip()[:160]; break
                status = "DETECTED" if (r.returncode == 1 and viol) else ("MACHINERY(%d)" % r.returncode if r.returncode not in (0, 1) else "MISSED")
                rows.append((sid, prop + ":" + status, first))
                meta.setdefault("detected_by", {})[prop + ":" + tier] = status
        finally:
            revert()
        json.dump(meta, open(mp, "w"), indent=1)
    # evidence files were rewritten by runs against a modified tree: restore committed ones
    sh(["git", "-C", VERIF, "checkout", "--", "evidence"])
    for r in rows:
        print("%-28s %-22s %s" % r)

LAB = "/tmp/mutlab"

def lab_setup():
    """A scratch copy of /verif next to a scratch worktree of /repo (both under /tmp/mutlab), so
    that seeded changes can be tried while a long run is reading /repo's working tree. The
    authoritative results are those of `run` (against /repo itself)."""
    os.makedirs(LAB, exist_ok=True)
    lrepo, lverif = os.path.join(LAB, "repo"), os.path.join(LAB, "verif")
    head = sh(["git", "-C", REPO, "rev-parse", "HEAD"]).stdout.strip()
    if not os.path.exists(lrepo):
        r = sh(["git", "-C", REPO, "worktree", "add", "--detach", lrepo, head])
        assert r.returncode == 0, r.stderr
    else:
        sh(["git", "-C", lrepo, "checkout", "--", "."])
        sh(["git", "-C", lrepo, "checkout", "--detach", head])
    r = sh(["rsync", "-a", "--delete", "--exclude", "target", "--exclude", ".git", "--exclude", "replays", VERIF + "/", lverif + "/"])
    assert r.returncode == 0, r.stderr
    for c in ("engine/Cargo.toml", "engine-loom/Cargo.toml"):
        f = os.path.join(lverif, c)
        if os.path.exists(f):
            t = open(f).read().replace('"/repo', '"%s' % lrepo)
            open(f, "w").write(t)
    return lrepo, lverif

def lab_run(ids):
    lrepo, lverif = lab_setup()
    if not ids:
        ids = sorted(os.listdir(SEEDED))
    env = dict(os.environ); env["OHRS_REPO"] = lrepo; env["RUST_BACKTRACE"] = "0"
    for sid in ids:
        meta = json.load(open(os.path.join(SEEDED, sid, "meta.json")))
        r = sh(["git", "-C", lrepo, "apply", os.path.join(SEEDED, sid, "patch.diff")])
        if r.returncode != 0:
            print("%-28s PATCH-FAILS %s" % (sid, r.stderr[:200])); continue
        try:
            for prop in meta.get("checks", [meta["breaks"]]):
                r = sh([os.path.join(lverif, "check"), prop, "--tier", "quick"], cwd=lverif, env=env)
                lines = r.stdout.splitlines()
                viol = [l for l in lines if l.startswith("VIOLATION")]
                first = ""
                for i, l in enumerate(lines):
                    if l.startswith("VIOLATION"):
                        first = (lines[i + 1] if i + 1 < len(lines) else "").strip()[:200]; break
                status = "DETECTED" if (r.returncode == 1 and viol) else ("MACHINERY(%d)" % r.returncode if r.returncode not in (0, 1) else "MISSED")
                print("%-28s %-22s %s" % (sid, prop + ":" + status + "(lab)", first), flush=True)
                if status.startswith("MACHINERY"):
                    print(r.stdout[-1500:])
        finally:
            sh(["git", "-C", lrepo, "checkout", "--", "."])
            sh(["git", "-C", lrepo, "clean", "-fdq", "--", "opening-hours", "opening-hours-syntax", "compact-calendar", "opening-hours-py"])

def lab_remove():
    sh(["git", "-C", REPO, "worktree", "remove", "--force", os.path.join(LAB, "repo")])
    sh(["rm", "-rf", LAB])

def suite(sid):
    if not apply(sid): return
    try:
        r = sh(["python3", os.path.join(VERIF, "tools", "baseline.py"), REPO])
        print(r.stdout[-600:])
        mp = os.path.join(SEEDED, sid, "meta.json")
        meta = json.load(open(mp))
        meta["suite"] = "passes (113/113 stable, no doc-test failure)" if r.returncode == 0 else "FAILS: " + r.stdout[-300:]
        json.dump(meta, open(mp, "w"), indent=1)
    finally:
        revert()

if __name__ == "__main__":
    a = sys.argv[1:]
    if a[0] == "new": new(a[1:])
    elif a[0] == "run":
        tier = "quick"
        if "--tier" in a: tier = a[a.index("--tier") + 1]; a = [x for i, x in enumerate(a) if x != "--tier" and (i == 0 or a[i - 1] != "--tier")]
        run(a[1:], tier)
    elif a[0] == "suite": suite(a[1])
    elif a[0] == "lab-run": lab_run(a[1:])
    elif a[0] == "lab-remove": lab_remove()
