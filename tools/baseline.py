#!/usr/bin/env python3
"""Run the repository's own test suite (guard OFF) and compare with the pinned baseline.

usage: tools/baseline.py [repo_dir]      exit 0 iff every stable_pass test of BASELINE.json passes.
"""
import json, os, re, subprocess, sys
repo = sys.argv[1] if len(sys.argv) > 1 else "/repo"
base = json.load(open("/root/.vp/BASELINE.json"))
stable = set(base["stable_pass"])
env = dict(os.environ)
env.pop("RUSTFLAGS", None)
env["RUST_BACKTRACE"] = "0"
env["CARGO_NET_OFFLINE"] = "true"
p = subprocess.run(["cargo", "test", "--workspace", "--no-fail-fast", "--offline"], cwd=repo, env=env,
                   stdout=subprocess.PIPE, stderr=subprocess.STDOUT, text=True)
crate = None
passed, failed = set(), set()
doc_fail = []
for line in p.stdout.splitlines():
    m = re.search(r"Running (?:unittests )?(\S+) \((\S+)\)", line)
    if m:
        b = os.path.basename(m.group(2))
        b = re.sub(r"-[0-9a-f]{16}$", "", b)
        crate = {"opening_hours": "opening-hours", "opening_hours_syntax": "opening-hours-syntax",
                 "compact_calendar": "compact-calendar", "fuzz": "fuzz"}.get(b, b)
        if "opening-hours-py" in m.group(1) or (b == "opening_hours" and "opening-hours-py" in line):
            crate = "opening-hours-py"
        continue
    m = re.search(r"Doc-tests (\S+)", line)
    if m:
        crate = "doc:" + m.group(1)
        continue
    m = re.match(r"test (\S+) (?:- should panic )?\.\.\. (ok|FAILED|ignored)", line)
    if m and crate:
        name = "%s::%s" % (crate, m.group(1))
        if crate.startswith("doc:"):
            if m.group(2) == "FAILED":
                doc_fail.append(line)
            continue
        (passed if m.group(2) == "ok" else failed).add(name)
# the py crate's lib is also called opening_hours: disambiguate by the test names it contains
fixed_passed = set()
for n in passed:
    if n.startswith("opening-hours::tests::bindings") or n.startswith("opening-hours::tests::doctests"):
        n = n.replace("opening-hours::", "opening-hours-py::", 1)
    fixed_passed.add(n)
missing = sorted(stable - fixed_passed)
print("stable baseline tests: %d, passing now: %d, missing/failing: %d; doc-test failures: %d" % (
    len(stable), len(stable & fixed_passed), len(missing), len(doc_fail)))
for m_ in missing[:40]:
    print("  NOT PASSING:", m_)
for d in doc_fail[:20]:
    print("  DOCTEST FAILED:", d)
sys.exit(0 if not missing and not doc_fail else 1)
