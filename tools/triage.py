#!/usr/bin/env python3
"""List violation groups of an engine result, optionally excluding groups having given features.
usage: triage.py result.json [-x feat1,feat2] [-n N] [-k kind]"""
import json, sys
args=sys.argv[1:]
path=args[0]; excl=set(); n=40; kind=None
i=1
while i < len(args):
    if args[i]=='-x': excl=set(args[i+1].split(',')); i+=1
    elif args[i]=='-n': n=int(args[i+1]); i+=1
    elif args[i]=='-k': kind=args[i+1]; i+=1
    i+=1
d=json.load(open(path))
print({k:v for k,v in d['coverage'].items() if k not in('samples','rule','alphabet')})
gs=[g for g in d['violation_groups'] if not (excl & set(g['features'])) and (kind is None or g['kind']==kind)]
print(len(d['violation_groups']),'groups total;',len(gs),'after exclusion; cases:',sum(g['count'] for g in gs))
skip={'kind_open','rules_1','day_selector','time_sel'}
for g in sorted(gs,key=lambda g:-g['count'])[:n]:
    print('-',g['kind'], g['count'], [f for f in g['features'] if f not in skip])
    for ex in g['examples'][:1]:
        print('     ', ex['detail'][:360])
