#!/usr/bin/env python3
"""Confirm seeded changes in a scratch worktree of /repo (outside /repo and /verif):
 for each seeded/<id> with a demonstration: (1) patch applies and the workspace builds, (2) the repository's
 own suite still passes (tools/baseline.py), (3) the demonstration FAILS with the change, (4) PASSES without.
 Results are written to seeded/<id>/meta.json under "confirmed". usage: confirm_seeded.py [id ...]"""
import json, os, shutil, subprocess, sys
VERIF = os.path.dirname(os.path.dirname(os.path.abspath(__file__)))
WT = "/tmp/confirm_wt"
def sh(cmd, cwd=None, env=None, timeout=3600):
    return subprocess.run(cmd, cwd=cwd, env=env, text=True, capture_output=True, timeout=timeout)
def demo_cmd(place):
    if place.endswith(".py"):
        return None
    if place.startswith("opening-hours-syntax/"): return ["cargo","test","--offline","-p","opening-hours-syntax","--test","demo_mut"]
    if place.startswith("compact-calendar/"): return ["cargo","test","--offline","-p","compact-calendar","--test","demo_mut"]
    return ["cargo","test","--offline","-p","opening-hours","--features","auto-timezone,auto-country","--test","demo_mut"]
def run_demo(place, env):
    if place.endswith(".py"):
        b = sh(["cargo","build","--offline","-p","opening-hours-py","--lib"], cwd=WT, env=dict(env, PYO3_PYTHON="/usr/bin/python3"))
        if b.returncode != 0: return None
        os.makedirs(os.path.join(WT,"pymod"), exist_ok=True)
        shutil.copy(os.path.join(WT,"target/debug/libopening_hours.so"), os.path.join(WT,"pymod/opening_hours.so"))
        src = open(os.path.join(WT, place)).read().replace("/tmp/mut/C12", WT)
        open(os.path.join(WT, place), "w").write(src)
        r = sh(["/usr/bin/python3", os.path.join(WT, place)], cwd=WT, env=env)
        return r.returncode == 0
    r = sh(demo_cmd(place), cwd=WT, env=env)
    return r.returncode == 0
def main():
    ids = sys.argv[1:] or sorted(os.listdir(os.path.join(VERIF,"seeded")))
    env = dict(os.environ); env.pop("RUSTFLAGS", None); env["RUST_BACKTRACE"]="0"; env["CARGO_NET_OFFLINE"]="true"
    if os.path.exists(WT): sh(["git","-C","/repo","worktree","remove","--force",WT])
    sh(["git","-C","/repo","worktree","add","--detach",WT,"HEAD"])
    shutil.copytree("/repo/target", os.path.join(WT,"target"), dirs_exist_ok=True)
    try:
        for sid in ids:
            d = os.path.join(VERIF,"seeded",sid); mp = os.path.join(d,"meta.json"); meta = json.load(open(mp))
            demo = meta.get("demo")
            res = {}
            sh(["git","checkout","--","."], cwd=WT); sh(["git","clean","-fdq","--","tests","opening-hours-syntax/tests","compact-calendar/tests","opening-hours-py/demo_mut.py"], cwd=WT)
            a = sh(["git","apply",os.path.join(d,"patch.diff")], cwd=WT)
            res["patch_applies"] = a.returncode == 0
            if a.returncode == 0:
                s = sh(["python3", os.path.join(VERIF,"tools","baseline.py"), WT], env=env)
                res["suite_passes_with_change"] = s.returncode == 0
                res["suite_line"] = (s.stdout.strip().splitlines() or [""])[0][:160]
                if demo:
                    place = demo["place_at"]; dst = os.path.join(WT, place); os.makedirs(os.path.dirname(dst), exist_ok=True)
                    shutil.copy(os.path.join(d, demo["file"] if os.path.exists(os.path.join(d, demo["file"])) else "demo_mut.rs"), dst)
                    res["demo_passes_with_change"] = run_demo(place, env)
                    sh(["git","apply","-R",os.path.join(d,"patch.diff")], cwd=WT)
                    res["demo_passes_without_change"] = run_demo(place, env)
                    os.remove(dst)
            meta["confirmed"] = res
            json.dump(meta, open(mp,"w"), indent=1)
            print(sid, res, flush=True)
    finally:
        sh(["git","-C","/repo","worktree","remove","--force",WT]); sh(["git","-C","/repo","worktree","prune"])
main()
