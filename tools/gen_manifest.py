#!/usr/bin/env python3
"""Regenerate /verif/MANIFEST.json from the table below (single source of truth)."""
import json, os, subprocess
VERIF = os.path.dirname(os.path.dirname(os.path.abspath(__file__)))

# id -> (level category, technique, level text, level note, design ref)
CHECKS = {
 "C01": ("model_checking", "bounded exhaustive enumeration of expressions x contexts x days on the real parser+evaluator against a minute-array reference model of the documented semantics",
         "Every expression of the bounded family (1-3 rules from collision-forcing alphabets, all separators/modifiers, plus the repository's sample corpus) is evaluated on every day of the window in every calendar context and compared with the reference model M; M abstains (counted) where the documentation is silent.",
         "Trusts M's transcription of the documented semantics (DESIGN §2.3; rows pinned to current behaviour are flagged), chrono date arithmetic. Expressions larger than the bound and days outside the window are not covered.", "DESIGN.md §3 C01"),
 "C02": ("model_checking", "the interval iterator explored as a transition system (every next() of every explored stream) on the real code against the pointwise run-length oracle P built from the real schedule_at over every day of the window, including streams consumed to exhaustion over all 2 958 466 days",
         "Run-length equality between the iterator's stream and the per-day schedules for every expression of the bounded family (incl. the shortcut family K: every sequence of <=3 rules the constant-expression shortcut can tell apart), from every derived start instant; the long-skip list is checked over the full supported range so that skips of months to millennia are covered.",
         "P uses the real schedule_at (consistency of two paths of the implementation; schedule_at itself is C01). Expressions beyond the bound are outside. Time-zone contexts: the shape clauses are explored in absolute time around every minute-aligned UTC-offset transition signature of the compiled tz database (DESIGN §11.8); two open known findings there (skipped hour, repeated hour).", "DESIGN.md §3 C02"),
 "C03": ("model_checking", "exhaustive enumeration of derived instants (every boundary of the pointwise oracle with minute/sub-minute offsets, range extremes) on the real state/is_*/next_change against the pointwise run-length oracle P",
         "state(t) and next_change(t) are compared with P at every derived instant of every expression of the bounded family (incl. the shortcut family K); oracle-free relations (next_change > t, equal inside one run) are checked on the same instants.",
         "P uses the real schedule_at. Long-horizon next_change queries are budgeted by a deterministic schedule_at-call counter (hook H1); skipped instants are counted in the evidence. Time-zone contexts: next_change against the absolute-time pointwise state around every minute-aligned transition signature (DESIGN §11.8); two open known findings there.", "DESIGN.md §3 C03"),
 "C04": ("exploration", "exhaustive enumeration of a stated finite string space (all <=4/5-token strings over a 47-token alphabet, all single-token edits of the expression family, numeric fields at their limits, inverted/degenerate ranges at every range position) through the real parser, and of every distinct parsed expression through an API battery in naive/holiday/time-zone/coordinate contexts, under catch_unwind and a deterministic work counter",
         "The property quantifies over all strings and all representable date-times, so no finite enumeration is complete: the check is exhaustive over the stated spaces only (level: exploration). No panic, and at most one schedule_at per day of the supported range per API call (hook H1).",
         "catch_unwind catches panics; aborts would surface as machinery failures. A call that does not return is reported by a watchdog thread (240 s per call; exit-code-3 protocol -> VIOLATION). Long-horizon unbounded calls are budgeted per expression (counted).", "DESIGN.md §3 C04"),
 "C05": ("model_checking", "exhaustive enumeration of the sentences of the grammar up to a size bound (every AST x every combination of documented syntactic variants) against the AST the sentence denotes; single-field corruptions must be rejected",
         "parse(sentence) must be == the generating AST for every rendering of every AST of the family by an independent printer (13 variant switches, full product on the relevant ones); negative family from the statement's list must be Err.",
         "Trusts the engine's printer/variant table as the definition of 'documented relaxations' (transcribed from grammar.pest comments); strings outside it are not judged.", "DESIGN.md §3 C05"),
 "C06": ("model_checking", "bounded exhaustive enumeration of parsed expressions and their normal forms through the real Display -> real parser round trip, with AST equality or else a differential evaluation by the real schedule_at over the window",
         "Every expression of the family (and its normal form) is printed and reparsed; equality of ASTs (modulo joined comments) or identical ranges/kinds/comment sets on every day of the window in every context.",
         "AST equality implies equal evaluation; the evaluation comparison is bounded by the window. Python str/repr is covered through the C12 driver.", "DESIGN.md §3 C06"),
 "C07": ("model_checking", "bounded exhaustive enumeration of the normalisation family (canonical x non-canonical rules, all kinds/operators) with a differential oracle: real schedule_at of e vs of normalize(e) on every day of the window",
         "Both sides are the real code; every expression of N, E2, E1 and the corpus is compared on every day of the window in two calendar contexts.",
         "Bounded by the family and the window. No open finding (the former one was resolved by fix df7c347).", "DESIGN.md §3 C07"),
 "C08": ("model_checking", "exhaustive enumeration of the boundary expression family x a 23-instant alphabet (around and far outside both ends of 1900..9999) x all ordered instant pairs as iteration windows, on the real code against the statement and the pointwise oracle P",
         "Every (expression, instant) and every (expression, from, to) combination of the boundary family is executed; closedness outside the range, window containment of every interval, next_change never at/after 10000-01-01 and its value from before 1900 are checked literally.",
         "P uses the real schedule_at over all 2 958 466 days. NaiveDateTime::MAX itself is left to C04. Time-zone contexts: window containment in absolute time around every minute-aligned transition signature (DESIGN §11.8); one open known finding there (requested end inside the first pass of a repeated hour).", "DESIGN.md §3 C08"),
 "C09": ("model_checking", "exhaustive enumeration of the UTC-offset transitions of every zone of the compiled tz database (1900..2040) x instants around each x input zones x expressions on the real TzLocation evaluation, against the location-free evaluation at the wall-clock time mapped back as the statement prescribes",
         "All 40 557 transitions of all 596 zones (thorough) or one per distinct offset/time signature (quick); every minute of T-90..T+90; state, next_change and iter_range compared with the naive evaluation; later instant on folds, first valid instant after gaps, bounds never going backwards.",
         "Trusts chrono-tz data and offset_from_utc_datetime (UTC->local is total and unambiguous). Transitions after 2040 follow the same signatures.", "DESIGN.md §3 C09"),
 "C10": ("model_checking", "complete enumeration of country x kind x date (1990..2085) on the real decoded calendars against an independent reader of the source text files; all [A-Za-z]{0,3} codes; PH/SH selectors through the real evaluator",
         "Exhaustive over a finite domain that strictly contains the data (1999..2075): every country, both calendars, every date, every short code string. Decides the property for the embedded data as built from the working tree.",
         "Trusts the source text files as ground truth, chrono date arithmetic, and flate2/LazyLock as used by the crate.", "DESIGN.md §3 C10"),
 "C11": ("exploration", "grid enumeration of coordinates x every day of 1900..2100 x events on the real sun-event and evaluation code against ordering/independent-solar-noon relations; complete enumeration of an IEEE-754 boundary set for coordinate acceptance; every date of the supported range for the coordinate-free defaults",
         "Floating-point coordinates are not finitely enumerable, hence level exploration: exhaustive over the stated grid, named points and date range only.",
         "The sunrise crate's astronomy is trusted up to the stated sanity relations; tzf-rs polygons up to a 6.5 h plausibility bound.", "DESIGN.md §3 C11"),
 "C12": ("model_checking", "exhaustive enumeration of the Python constructor-argument product (2688 combinations per expression) x expressions x datetimes x methods on the real extension module under CPython, differential against the Rust core evaluating the documented equivalent context",
         "Every constructor combination is executed in CPython and every observed value, zone, None and exception class is compared with the core; also validate/str/repr round trips (C06's Python clause).",
         "CPython 3.11 + its zoneinfo; nonexistent aware datetimes only checked for panics; one under-documented argument combination accepts two readings. intervals(start, end) is also driven with bounds of mixed awareness. Two open known findings: aware datetimes in a skipped hour, and aware datetimes with a fixed-offset tzinfo, are refused with TypeError.", "DESIGN.md §3 C12"),
 "C13": ("model_checking", "bounded exhaustive enumeration of the normalisation family on the real normalize(): idempotence, determinism across clones/reparses/equal spellings, and printability of the normal form",
         "normalize(normalize(e)) == normalize(e) by AST equality for every expression of N, E2, E1 and the corpus; equal ASTs reached through different spellings normalise equally; the normal form round-trips by C06's criterion.",
         "Bounded by the family.", "DESIGN.md §3 C13"),
 "C14": ("model_checking", "explicit-state breadth-first exploration of the real Schedule (from_ranges/addition histories over a time grid, from initial and non-initial states) against a per-cell overlay model",
         "Every reachable state up to the depth bound over the grid is visited and checked (structure, covered set, tiling, kinds). Exhaustive within grid x depth; arbitrary minute values outside the grid are represented by the grid's order types (equal, adjacent, nested, overlapping, disjoint).",
         "Trusts that Debug of Schedule renders its whole state (used for dedup); model is 30 lines of per-cell overlay.", "DESIGN.md §3 C14"),
 "C15": ("model_checking", "explicit-state exploration of the real CompactCalendar: every insertion history up to the depth bound over a collision-forcing date alphabet, full query battery and serialization round trips in every state, against a BTreeSet",
         "Every history (not only every state) up to the depth is executed; states merged by date set are shown observably equal on every history. Exhaustive within alphabet x depth; CompactMonth/CompactYear over all subsets of <=3 days x all queries.",
         "Trusts std BTreeSet and chrono NaiveDate. Serialisation also goes through writers that accept 1/3/16/47 bytes per write call.", "DESIGN.md §3 C15"),
 "C16": ("model_checking", "exhaustive enumeration of (expression, bound, derived instant) triples on the real bounded next_change/state against the exact answer from the pointwise oracle P",
         "For 8 bounds from one day to a century, every instant placed at B, B-24h (each +-1 min) before every oracle boundary, at run starts and surrounding midnights: exact-or-none, exact within B-24h, none beyond B, state unchanged.",
         "P uses the real schedule_at; for the one-kind family P covers 1899..2150 and only instants whose horizon lies inside it are used. Time-zone contexts: around the 2024 transitions of four zones (and Apia 2011) the bounded answer is compared with the unbounded answer of the same context (DESIGN §11.9).", "DESIGN.md §3 C16"),
 "C17": ("model_checking", "bounded exhaustive enumeration of commented rule pairs/triples x days x iteration starts on the real schedule_at/iter_range against the reference model M with provenance (writer per minute, own cover per rule)",
         "Well-formedness of every reported comment set, emptiness where no rule contributes, exact comments on periods written by exactly one isolated rule, and first-interval comments equal to the schedule period containing the start; what the statement leaves free (merging on overlap/coalescing) is not asserted.",
         "Provenance comes from M (DESIGN §2.3).", "DESIGN.md §3 C17"),
 "C18": ("model_checking", "explicit enumeration of operation histories on the real code (all sequences up to the depth bound over an 11-operation alphabet colliding on the lazily built tables and shared Arcs; every order of first use in its own subprocess) against single-operation reference runs; loom exploration of thread interleavings of first use through a cfg-switched LazyLock facade",
         "Every history up to the bound and every first-use order is executed and each observation compared with the operation run alone in a fresh process; the loom harness explores all interleavings of concurrent first use up to the preemption bound.",
         "std LazyLock/Arc/Once are trusted; plain memory accesses outside the LazyLock seam are not under a controlled scheduler (free-running threads are a smoke test only). The country lookup is additionally swept over a 3-degree grid sequentially, in threads and in a fresh process (all answers must agree).", "DESIGN.md §3 C18"),
 "C19": ("model_checking", "complete enumeration of the finite input space of the real ExtendedTime API against an integer-minute reference model",
         "Exhaustive: every (u8,u8), every u16, every valid time x every i16/i8 offset, every ordered pair; nothing is sampled, so within the stated API the property is decided, not estimated.",
         "Trusts chrono::NaiveTime accessors and the engine's 10-line integer model.", "DESIGN.md §3 C19"),
 "C20": ("model_checking", "exhaustive enumeration of all operand vectors/pairs up to the bound on the real UniqueSortedVec against a BTreeSet reference model",
         "Exhaustive for the stated bound (all vectors over a 4/5-symbol alphabet up to length 6, all ordered pairs; all pairs of subsets of {0..7}/{0..10}; Arc<str> operands). Longer operands are outside the bound except one deterministic 10^4-element case.",
         "Trusts std BTreeSet.", "DESIGN.md §3 C20"),
}
NOT_BUILT_REASON = "check not built yet in this session (work in progress; see DESIGN.md §9 build order)"
ALL = ["C%02d" % i for i in range(1, 21)]

def main():
    hooks_commits = []
    try:
        out = subprocess.run(["git", "-C", "/repo", "log", "--format=%H %s"], capture_output=True, text=True).stdout
        for line in out.splitlines():
            h, s = line.split(" ", 1)
            if s.startswith("verif hook"):
                hooks_commits.append(h)
    except Exception:
        pass
    checks = []
    for pid in ALL:
        if pid not in CHECKS:
            continue
        cat, tech, text, note, ref = CHECKS[pid]
        checks.append({
            "property_id": pid,
            "quick_cmd": "./check %s --tier quick" % pid,
            "thorough_cmd": "./check %s --tier thorough" % pid,
            "evidence_file": "/verif/evidence/%s.json" % pid,
            "replay_cmd_template": "./check %s --replay {path}" % pid,
            "engine": "ohmc",
            "level_claimed": {"category": cat, "text": text, "design_ref": ref},
            "level_note": note,
            "technique": tech,
        })
    na_path = os.path.join(VERIF, "tools", "not_applicable.json")
    na_extra = json.load(open(na_path)) if os.path.exists(na_path) else {}
    not_applicable = []
    for pid in ALL:
        if pid not in CHECKS:
            not_applicable.append({"property_id": pid, "reason": na_extra.get(pid, NOT_BUILT_REASON)})
    m = {
        "version": 1,
        "setup_cmd": "./check --setup",
        "hooks": {
            "guard": "--cfg ohrs_verif (rustc cfg, passed through RUSTFLAGS); --cfg ohrs_verif_loom additionally for the loom build",
            "enable": "RUSTFLAGS='--cfg ohrs_verif' cargo build --release --offline (done by ./check for the engine crate, which path-depends on /repo)",
            "baseline_off_cmd": "cd /repo && cargo test --workspace --no-fail-fast --offline",
            "source_commits": hooks_commits,
            "add_only": True,
        },
        "engines": [
            {"name": "ohmc", "path": "/verif/engine", "serves_properties": sorted(CHECKS.keys()),
             "kind_free_text": "Rust binary linking the real opening-hours crates from /repo's working tree; bounded exhaustive enumeration / explicit-state exploration with reference models; driven by /verif/check"},
        ],
        "checks": checks,
        "not_applicable": not_applicable,
        "notes": "Every check rebuilds the engine against /repo's working tree (cargo path dependency) before running. Exit 0 = held (KNOWN-FINDING lines for listed defects), 1 = unlisted violation (VIOLATION lines), 2 = machinery failure. known_findings.jsonl is never written at run time.",
    }
    json.dump(m, open(os.path.join(VERIF, "MANIFEST.json"), "w"), indent=1)
    try:
        import jsonschema
        jsonschema.validate(m, json.load(open("/root/.vp/MANIFEST.schema.json")))
        print("MANIFEST.json valid; %d checks, %d not_applicable" % (len(checks), len(not_applicable)))
    except ImportError:
        print("MANIFEST.json written (jsonschema not available for validation)")

if __name__ == "__main__":
    main()
