#!/usr/bin/env python3
"""collect_mut.py <seeded-id> <worktree> <property> <demo-relpath> "<needs>" : store an agent's change under /verif/seeded/<id>/"""
import json, os, shutil, subprocess, sys
sid, wt, prop, demo, needs = sys.argv[1:6]
out = os.path.join('/verif/seeded', sid)
os.makedirs(out, exist_ok=True)
diff = subprocess.run(['git', '-C', wt, 'diff'], capture_output=True, text=True).stdout
assert diff.strip(), 'no tracked change in ' + wt
open(os.path.join(out, 'patch.diff'), 'w').write(diff)
shutil.copy(os.path.join(wt, demo), os.path.join(out, 'demo_mut.rs'))
meta = {"id": sid, "breaks": prop, "checks": [prop], "needs_to_manifest": needs, "origin": "independent sub-agent given only the property text and a scratch worktree",
        "demo": {"file": "demo_mut.rs", "place_at": demo, "run": "cargo test --offline --test demo_mut (in the crate that holds the file)"}, "suite": "not re-run yet", "detected_by": {}}
json.dump(meta, open(os.path.join(out, 'meta.json'), 'w'), indent=1)
print('stored', sid, 'files:', [l[6:] for l in diff.splitlines() if l.startswith('+++ b/')])
