"""check-driver hooks for C18: build the loom harness (engine-loom) against /repo's working tree
with --cfg ohrs_verif_loom, explore the interleavings of concurrent first use, and hand the result
to the engine (env OHMC_C18_LOOM), which merges it into the evidence of C18."""
import os, shutil, subprocess

QUICK = ["0/1", "0,2/1,0", "3/3", "0/1/5", "0,3/3,1", "4/4", "0/1/5/2", "0,1/1,0/2,5"]
THOROUGH = ["0/1/5/2", "0,3/3,1/5", "3/3/3", "4/4", "0,1/1,0/2,5", "0,2,5/1,0/5,1", "2/2/2/2", "0,3/1,4", "0,1,5/1,5,0/5,0,1/2", "3,0/3,1/3,5/2"]

def _build(ctx):
    env = dict(ctx["env"])
    env["CARGO_TARGET_DIR"] = os.path.join(ctx["target"], "loom")
    env["RUSTFLAGS"] = env.get("RUSTFLAGS", "") + " --cfg ohrs_verif_loom"
    d = os.path.join(ctx["verif"], "engine-loom")
    p = subprocess.run(["cargo", "build", "--release", "--offline"], cwd=d, env=env, stdout=subprocess.PIPE,
                       stderr=subprocess.STDOUT, text=True)
    if p.returncode != 0:
        print(p.stdout[-3000:])
        ctx["fail"]("building the loom harness failed (not a verdict)")
    return os.path.join(ctx["target"], "loom", "release", "ohmc-loom")

def setup(ctx):
    _build(ctx)

def prepare(ctx):
    exe = _build(ctx)
    out = os.path.join(ctx["target"], "run", "c18_loom.%s.json" % ctx["tier"])
    if os.path.exists(out):
        os.remove(out)
    bound = "3" if ctx["tier"] == "quick" else "5"
    harnesses = QUICK if ctx["tier"] == "quick" else THOROUGH
    env = dict(os.environ)
    env["RUST_BACKTRACE"] = "0"
    p = subprocess.run([exe, out, bound] + harnesses, stdout=subprocess.PIPE, stderr=subprocess.STDOUT, text=True,
                       env=env, timeout=3600)
    if not os.path.exists(out):
        # loom aborts the process on a failed execution (deadlock, panic inside the model): that is
        # a finding about the code under test only if the harness itself is sound; report it as a
        # machinery failure with the output so that it is looked at, never as a silent pass
        print(p.stdout[-3000:])
        ctx["fail"]("the loom harness did not complete (exit %s)" % p.returncode)
    ctx["env"]["OHMC_C18_LOOM"] = out
