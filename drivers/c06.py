"""check-driver hooks for C06: the Python str/repr clause is observed through the real extension
module (same build and driver as C12, restricted to the validate/str/repr section)."""
import importlib.util, os

def _c12():
    spec = importlib.util.spec_from_file_location("drv_c12", os.path.join(os.path.dirname(__file__), "c12.py"))
    m = importlib.util.module_from_spec(spec)
    spec.loader.exec_module(m)
    return m

def prepare(ctx):
    c = dict(ctx)
    c["tier"] = "repr"
    _c12().prepare(c)
    ctx["env"]["OHMC_C12_OBS"] = c["env"]["OHMC_C12_OBS"]
