"""check-driver hooks for C12 (and C06's Python part): build the real extension module from
/repo's working tree, import it with CPython 3.11, run py/c12_driver.py to record observations."""
import os, shutil, subprocess

PY = "/usr/bin/python3"

def _build(ctx):
    env = dict(ctx["env"])
    env["CARGO_TARGET_DIR"] = os.path.join(ctx["target"], "py")
    env["PYO3_PYTHON"] = PY
    # hooks are compiled in as for the engine (the guard only adds a counter)
    p = subprocess.run(["cargo", "build", "--offline", "-p", "opening-hours-py", "--lib"], cwd=ctx["repo"], env=env,
                       stdout=subprocess.PIPE, stderr=subprocess.STDOUT, text=True)
    if p.returncode != 0:
        print(p.stdout[-3000:])
        ctx["fail"]("building the Python extension failed (not a verdict)")
    so = os.path.join(ctx["target"], "py", "debug", "libopening_hours.so")
    moddir = os.path.join(ctx["target"], "pymod")
    os.makedirs(moddir, exist_ok=True)
    shutil.copy(so, os.path.join(moddir, "opening_hours.so"))
    return moddir

def setup(ctx):
    _build(ctx)

def prepare(ctx):
    moddir = _build(ctx)
    out = os.path.join(ctx["target"], "run", "c12_obs.%s.jsonl" % ctx["tier"])
    if os.path.exists(out):
        os.remove(out)
    env = dict(os.environ)
    env["RUST_BACKTRACE"] = "0"
    env["RUST_LOG"] = "off"
    p = subprocess.run([PY, os.path.join(ctx["verif"], "py", "c12_driver.py"), moddir, out, ctx["tier"]],
                       stdout=subprocess.PIPE, stderr=subprocess.STDOUT, text=True, env=env)
    if p.returncode != 0 or not os.path.exists(out):
        print(p.stdout[-3000:])
        ctx["fail"]("the CPython driver failed (not a verdict)")
    ctx["env"]["OHMC_C12_OBS"] = out


def replay(ctx, path):
    """A C12 observation comes from CPython: a recorded violation is replayed by re-running the
    whole (quick) differential, which re-observes the same constructor call."""
    import subprocess, sys
    print("C12 replay of %s: re-running the differential" % path)
    return subprocess.run([os.path.join(ctx["verif"], "check"), "C12", "--tier", "quick"]).returncode
