//! C18 (B): thread interleavings of the *first use* of the embedded databases, under loom.
//!
//! Built with `--cfg ohrs_verif_loom`: the five `LazyLock` statics of opening-hours then go through
//! `loom::lazy_static::Lazy` (hook H2), which is re-initialised for every explored execution and
//! lets racing threads both run the initialiser. Every thread's observation must equal the
//! sequential reference, in every explored execution.
//!
//! usage: ohmc-loom <out.json> <preemption bound> <harness> [<harness> …]
//!   harness = comma separated op indices per thread, threads separated by '/', e.g. "0,1/1,0"

use chrono::NaiveDate;
use std::sync::Arc;
use opening_hours::localization::{Coordinates, Country, TzLocation};
use opening_hours::{Context, OpeningHours};
use std::sync::atomic::{AtomicU64, Ordering};
use std::sync::Mutex;

static EXECUTIONS: AtomicU64 = AtomicU64::new(0);

fn ymd(y: i32, m: u32, d: u32) -> NaiveDate {
    NaiveDate::from_ymd_opt(y, m, d).unwrap()
}

fn holidays_summary(c: Country) -> String {
    let h = c.holidays();
    format!(
        "{:?}: public={} first={:?} school={} first={:?} 2024-07-14:{} 2024-07-04:{}",
        c,
        h.get_public().count(),
        h.get_public().iter().next(),
        h.get_school().count(),
        h.get_school().iter().next(),
        h.get_public().contains(ymd(2024, 7, 14)),
        h.get_public().contains(ymd(2024, 7, 4)),
    )
}

/// Operations that touch a lazily built table.
fn op(i: usize) -> String {
    match i {
        0 => holidays_summary(Country::FR),
        1 => holidays_summary(Country::US),
        2 => {
            let oh = OpeningHours::parse("Mo-Fr 10:00-18:00; PH off ; SH unknown").unwrap().with_context(Context::default().with_holidays(Country::US.holidays()));
            let t = ymd(2024, 7, 4).and_hms_opt(12, 0, 0).unwrap();
            format!("{:?} {:?} {:?}", oh.state(t), oh.next_change(t), oh.schedule_at(ymd(2024, 7, 5)).into_iter().map(|r| (r.range.start.mins_from_midnight(), r.kind)).collect::<Vec<_>>())
        }
        3 => format!("{:?} {:?}", Country::try_from_coords(Coordinates::new(48.8535, 2.34839).unwrap()), Country::try_from_coords(Coordinates::new(40.71, -74.0).unwrap())),
        4 => format!("{:?}", TzLocation::from_coords(Coordinates::new(40.71, -74.0).unwrap()).get_timezone()),
        _ => {
            let h = Country::MX.holidays();
            format!("MX public={} school={}", h.get_public().count(), h.get_school().count())
        }
    }
}

fn main() {
    let args: Vec<String> = std::env::args().collect();
    let out = args.get(1).cloned().unwrap_or_else(|| "/dev/stdout".into());
    let bound: usize = args.get(2).and_then(|s| s.parse().ok()).unwrap_or(2);
    let harnesses: Vec<Vec<Vec<usize>>> = args[3..].iter().map(|h| h.split('/').map(|t| t.split(',').filter_map(|x| x.parse().ok()).collect()).collect()).collect();

    // sequential reference, through the same facade (one loom thread)
    let reference: Arc<Mutex<Vec<String>>> = Arc::new(Mutex::new(Vec::new()));
    {
        let r = reference.clone();
        let mut b = loom::model::Builder::new();
        b.preemption_bound = Some(0);
        b.check(move || {
            let r = r.clone();
            loom::thread::Builder::new()
                .stack_size(1 << 23)
                .spawn(move || {
                    let v: Vec<String> = (0..6).map(op).collect();
                    *r.lock().unwrap() = v;
                })
                .unwrap()
                .join()
                .unwrap();
        });
    }
    let reference: Vec<String> = reference.lock().unwrap().clone();
    let mut results = Vec::new();
    let mut total_exec = 0u64;
    let mut violations: Vec<serde_json::Value> = Vec::new();
    for h in &harnesses {
        EXECUTIONS.store(0, Ordering::SeqCst);
        let bad: Arc<Mutex<Vec<(usize, usize, String)>>> = Arc::new(Mutex::new(Vec::new()));
        let outcomes: Arc<Mutex<std::collections::BTreeSet<String>>> = Arc::new(Mutex::new(Default::default()));
        let (bad2, out2, h2, ref2) = (bad.clone(), outcomes.clone(), h.clone(), reference.clone());
        let mut b = loom::model::Builder::new();
        b.preemption_bound = Some(bound);
        let started = std::time::Instant::now();
        b.check(move || {
            EXECUTIONS.fetch_add(1, Ordering::SeqCst);
            let mut handles = Vec::new();
            for (ti, ops) in h2.iter().enumerate() {
                let (ops, bad, out, reference) = (ops.clone(), bad2.clone(), out2.clone(), ref2.clone());
                handles.push(
                    loom::thread::Builder::new()
                        .stack_size(1 << 23)
                        .spawn(move || {
                            for o in ops {
                                let obs = op(o);
                                if obs != reference[o] {
                                    bad.lock().unwrap().push((ti, o, obs.clone()));
                                }
                                out.lock().unwrap().insert(format!("{o}:{obs}"));
                            }
                        })
                        .unwrap(),
                );
            }
            for hd in handles {
                hd.join().unwrap();
            }
        });
        let n = EXECUTIONS.load(Ordering::SeqCst);
        total_exec += n;
        let bad = bad.lock().unwrap().clone();
        for (ti, o, obs) in bad.iter().take(3) {
            violations.push(serde_json::json!({"harness": h, "thread": ti, "op": o, "observed": obs, "expected": reference[*o]}));
        }
        results.push(serde_json::json!({"harness": h, "executions": n, "mismatches": bad.len(), "distinct_observations": outcomes.lock().unwrap().len(), "wall_s": started.elapsed().as_secs_f64()}));
    }
    let doc = serde_json::json!({"preemption_bound": bound, "executions": total_exec, "harnesses": results, "violations": violations, "reference": reference});
    std::fs::write(&out, serde_json::to_string_pretty(&doc).unwrap()).unwrap();
    eprintln!("ohmc-loom: {} executions over {} harnesses, {} mismatching observations", total_exec, harnesses.len(), violations.len());
}
