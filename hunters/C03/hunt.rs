//! Hunt for violations of property C03: state and next_change are mutually consistent.
#![allow(dead_code)]

use std::sync::Arc;

use chrono::{Duration, NaiveDate, NaiveDateTime, NaiveTime, TimeZone, Utc};
use chrono_tz::Tz;
use compact_calendar::CompactCalendar;
use opening_hours::localization::{Coordinates, Country, Localize, NoLocation, TzLocation};
use opening_hours::{Context, ContextHolidays, OpeningHours, RuleKind};
use opening_hours_syntax::ExtendedTime;

fn dt(s: &str) -> NaiveDateTime {
    NaiveDateTime::parse_from_str(s, "%Y-%m-%d %H:%M:%S")
        .or_else(|_| NaiveDateTime::parse_from_str(s, "%Y-%m-%d %H:%M"))
        .unwrap_or_else(|e| panic!("bad datetime {s}: {e}"))
}

fn date_end() -> NaiveDateTime {
    NaiveDate::from_ymd_opt(10000, 1, 1)
        .unwrap()
        .and_hms_opt(0, 0, 0)
        .unwrap()
}

/// State given by the schedule of t's day to t (the property's own definition).
fn oracle_state<L: Localize>(oh: &OpeningHours<L>, t: NaiveDateTime) -> RuleKind {
    if t >= date_end() || t < dt("1900-01-01 00:00") {
        return RuleKind::Closed;
    }
    let et: ExtendedTime = t.time().into();
    for tr in oh.schedule_at(t.date()) {
        if tr.range.start <= et && et < tr.range.end {
            return tr.kind;
        }
    }
    RuleKind::Closed
}

/// Change points `(instant, new state)` over `days` days starting at `from`.
fn timeline<L: Localize>(
    oh: &OpeningHours<L>,
    from: NaiveDate,
    days: u32,
) -> Vec<(NaiveDateTime, RuleKind)> {
    let mut res: Vec<(NaiveDateTime, RuleKind)> = Vec::new();
    let mut date = from;
    for _ in 0..days {
        if date >= date_end().date() {
            if res.last().map(|x| x.1) != Some(RuleKind::Closed) {
                res.push((date_end(), RuleKind::Closed));
            }
            break;
        }
        let mut covered = ExtendedTime::MIDNIGHT_00;
        for tr in oh.schedule_at(date) {
            assert_eq!(tr.range.start, covered, "schedule has a hole/overlap at {date}");
            covered = tr.range.end;
            let start: NaiveTime = tr.range.start.try_into().unwrap();
            if res.last().map(|x| x.1) != Some(tr.kind) {
                res.push((NaiveDateTime::new(date, start), tr.kind));
            }
        }
        if date >= dt("1900-01-01 00:00").date() {
            assert_eq!(covered, ExtendedTime::MIDNIGHT_24, "schedule not covering {date}");
        } else if res.last().map(|x| x.1) != Some(RuleKind::Closed) {
            res.push((date.and_hms_opt(0, 0, 0).unwrap(), RuleKind::Closed));
        }
        date = date.succ_opt().unwrap();
    }
    res
}

fn default_probes(start: NaiveDate, ndays: i64) -> Vec<NaiveDateTime> {
    let times = [
        (0, 0, 0),
        (0, 0, 1),
        (0, 1, 0),
        (1, 59, 59),
        (2, 0, 0),
        (5, 30, 0),
        (9, 59, 30),
        (10, 0, 0),
        (11, 59, 59),
        (12, 0, 0),
        (17, 59, 0),
        (18, 0, 0),
        (21, 59, 59),
        (22, 0, 0),
        (23, 59, 0),
        (23, 59, 59),
    ];
    let mut res = vec![];
    for d in 0..ndays {
        let date = start + Duration::days(d);
        for (i, (h, m, s)) in times.iter().enumerate() {
            // thin out to keep it fast
            if (d as usize + i) % 3 == 0 || d < 10 {
                res.push(date.and_hms_opt(*h, *m, *s).unwrap());
            }
        }
    }
    res
}

/// Check the property for a naive-time context. Returns the list of violations.
fn check_naive(
    expr: &str,
    ctx: Context<NoLocation>,
    probes: &[NaiveDateTime],
    horizon_days: u32,
) -> Vec<String> {
    let Ok(oh) = OpeningHours::parse(expr) else {
        eprintln!("SKIPPED (does not parse): {expr}");
        return vec![];
    };
    let oh = oh.with_context(ctx);
    let first = probes.iter().min().unwrap().date();
    let tl = timeline(&oh, first, horizon_days);
    let horizon_end = (first + Duration::days(horizon_days as i64))
        .and_hms_opt(0, 0, 0)
        .unwrap();
    let mut errs = vec![];

    for &t in probes {
        let st = oracle_state(&oh, t);
        let got = oh.state(t);
        if got != st {
            errs.push(format!("[{expr}] state({t}) = {got:?}, schedule says {st:?}"));
        }
        let flags = (oh.is_open(t), oh.is_closed(t), oh.is_unknown(t));
        let want = (
            got == RuleKind::Open,
            got == RuleKind::Closed,
            got == RuleKind::Unknown,
        );
        if flags != want {
            errs.push(format!("[{expr}] is_* at {t} = {flags:?} but state = {got:?}"));
        }

        let idx = tl.partition_point(|(x, _)| *x <= t);
        let want_nc = tl.get(idx).map(|x| x.0).filter(|x| *x < date_end());
        let got_nc = oh.next_change(t);
        if let Some(g) = got_nc {
            if g <= t {
                errs.push(format!("[{expr}] next_change({t}) = {g} is not after t"));
            }
        }
        match (want_nc, got_nc) {
            (Some(w), g) if g != Some(w) => {
                errs.push(format!("[{expr}] next_change({t}) = {g:?}, expected Some({w})"))
            }
            (None, Some(g)) if g < horizon_end => errs.push(format!(
                "[{expr}] next_change({t}) = {g}, but no change before {horizon_end}"
            )),
            _ => {}
        }
    }
    errs
}

fn report(name: &str, errs: Vec<String>) {
    if !errs.is_empty() {
        // at most 3 per expression
        let mut counts = std::collections::HashMap::new();
        let shown: Vec<_> = errs
            .iter()
            .filter(|e| {
                let key = e.split(']').next().unwrap_or("").to_string();
                let c = counts.entry(key).or_insert(0);
                *c += 1;
                *c <= 3
            })
            .take(40)
            .cloned()
            .collect();
        panic!("{name}: {} violations, e.g.\n{}", errs.len(), shown.join("\n"));
    }
}

fn sweep(name: &str, exprs: &[&str], ctx: Context<NoLocation>, start: &str, ndays: i64, horizon: u32) {
    let start = NaiveDate::parse_from_str(start, "%Y-%m-%d").unwrap();
    let probes = default_probes(start, ndays);
    let mut errs = vec![];
    for e in exprs {
        errs.extend(check_naive(e, ctx.clone(), &probes, horizon));
    }
    report(name, errs);
}

// ---------------------------------------------------------------------------------------------
// Naive contexts
// ---------------------------------------------------------------------------------------------

#[test]
fn s01_basic_weekdays_and_wrap() {
    sweep(
        "s01",
        &[
            "Mo-Fr 10:00-18:00",
            "22:00-26:00",
            "Mo 22:00-26:00; Tu closed",
            "Mo 22:00-26:00; Tu 01:00-01:30 closed",
            "Fr-Mo 22:00-05:00",
            "Mo-Fr 10:00-18:00 unknown; Sa 10:00-12:00 \"x\"",
            "10:00-12:00 open \"a\", 12:00-14:00 open \"b\"",
            "10:00-12:00 open, 12:00-14:00 unknown, 14:00-15:00 closed \"c\"",
            "Mo 00:00-24:00",
            "Mo,We 00:00-24:00; Tu 10:00-12:00",
            "Mo 00:00-48:00",
            "Mo 12:00-36:00; Tu off",
            "Su 23:59-24:01",
            "00:01-24:00",
            "00:00-23:59",
        ],
        Context::default(),
        "2024-02-20",
        30,
        800,
    );
}

#[test]
fn s02_fallback_and_additional() {
    sweep(
        "s02",
        &[
            "Mo-Fr 10:00-12:00 || 08:00-20:00 unknown",
            "Mo 22:00-26:00 || Tu 00:00-24:00 unknown",
            "Mo-Fr 10:00-12:00 || Sa unknown || closed \"z\"",
            "Mo-Fr 10:00-18:00, Sa 22:00-27:00; Su off",
            "Mo-Su 08:00-12:00; We off, Th 06:00-07:00",
            "Mo 20:00-28:00 unknown; Tu 02:00-03:00 open",
        ],
        Context::default(),
        "2024-02-20",
        30,
        400,
    );
}

#[test]
fn s03_months_dates_years() {
    sweep(
        "s03",
        &[
            "Feb 29",
            "Feb 29 10:00-12:00",
            "Feb 29-Mar 1 10:00-12:00",
            "Feb 30",
            "Jan 31-Feb 2",
            "Dec 25-Jan 5",
            "Dec 25-Jan 5 22:00-26:00",
            "2025 Mar-Jun 10:00-12:00",
            "Jan-Dec",
            "Mar-Feb 10:00-11:00",
            "Nov-Feb",
            "2020-2030/3",
            "2020-2030/3 10:00-12:00",
            "2025,2027 Jan 10:00-12:00",
            "2026",
            "2025 Jan 1-2026 Feb 3",
            "2025 Dec 30-Jan 2 23:00-25:00",
            "Dec 31 22:00-26:00",
            "Jan 1 00:00-24:00",
            "Jan 1-Dec 31",
            "Jan 2-Jan 1",
        ],
        Context::default(),
        "2023-12-20",
        420,
        4500,
    );
}

#[test]
fn s04_weeks() {
    sweep(
        "s04",
        &[
            "week 1-53/2 Mo 10:00-12:00",
            "week 1-53/2",
            "week 53",
            "week 52-02",
            "week 52-02 22:00-26:00",
            "week 1",
            "week 2-52/10 We",
            "week 1-53",
            "week 10-20 Mo-Fr 08:00-12:00; week 15 off",
            "week 53 Su 22:00-26:00",
        ],
        Context::default(),
        "2020-12-15",
        20,
        4500,
    );
}

#[test]
fn s05_easter_and_offsets() {
    sweep(
        "s05",
        &[
            "easter",
            "easter +1 day",
            "easter -2 days-easter +3 days 10:00-12:00",
            "easter-Dec 25",
            "Dec 25-easter",
            "2025 easter-2025 Dec 1",
            "easter -1 day 22:00-26:00",
            "Su[1]",
            "Mo[-1] 10:00-12:00",
            "Sa[1] +2 days",
            "Fr[2,4] -1 day 22:00-26:00",
            "Mo[1-2,-1]",
        ],
        Context::default(),
        "2024-03-01",
        420,
        4500,
    );
}

fn holiday_ctx() -> Context<NoLocation> {
    let mut public = CompactCalendar::default();
    let mut school = CompactCalendar::default();
    for (y, m, d) in [
        (2024, 3, 1),
        (2024, 3, 2),
        (2024, 3, 10),
        (2024, 12, 31),
        (2025, 1, 1),
        (2026, 5, 1),
        (2031, 7, 14),
    ] {
        public.insert(NaiveDate::from_ymd_opt(y, m, d).unwrap());
    }
    for d in 0..20 {
        school.insert(NaiveDate::from_ymd_opt(2024, 3, 5).unwrap() + Duration::days(d));
    }
    school.insert(NaiveDate::from_ymd_opt(2029, 2, 1).unwrap());
    Context::default().with_holidays(ContextHolidays::new(Arc::new(public), Arc::new(school)))
}

#[test]
fn s06_holidays_custom_calendar() {
    sweep(
        "s06",
        &[
            "PH",
            "PH 10:00-12:00",
            "PH +1 day",
            "PH -1 day",
            "PH -1 day 22:00-26:00",
            "PH +2 days 10:00-12:00",
            "SH",
            "SH 22:00-26:00",
            "SH Mo-Fr 10:00-12:00",
            "Mo-Fr 10:00-18:00; PH off",
            "Mo-Fr 10:00-18:00; PH -1 day 10:00-12:00",
            "PH,SH 00:00-24:00",
            "PH 00:00-24:00; Mo 10:00-12:00",
            "SH off; PH 12:00-13:00 unknown || 10:00-11:00",
        ],
        holiday_ctx(),
        "2024-02-20",
        60,
        4500,
    );
}

#[test]
fn s07_holidays_country_calendars() {
    for country in [Country::FR, Country::DE, Country::US, Country::JP] {
        sweep(
            "s07",
            &[
                "PH",
                "PH -1 day 22:00-26:00",
                "Mo-Fr 10:00-18:00; PH off",
                "SH 10:00-12:00",
                "PH +1 day 00:00-24:00",
            ],
            Context::default().with_holidays(country.holidays()),
            "2024-12-01",
            60,
            4500,
        );
    }
}

#[test]
fn s08_constant_expressions_none() {
    let probes = [
        dt("1900-01-01 00:00"),
        dt("2024-06-01 12:00:30"),
        dt("9999-12-31 23:59:59"),
        dt("1800-01-01 00:00"),
    ];
    let mut errs = vec![];
    for e in ["24/7", "24/7 closed", "off", "unknown", "00:00-24:00", "Mo-Su", "Jan-Dec", "24/7 open \"c\""] {
        let oh = OpeningHours::parse(e).unwrap();
        for t in probes {
            let nc = oh.next_change(t);
            let st = oh.state(t);
            let closed_outside = t < dt("1900-01-01 00:00");
            // The state is constant on 1900..10000 ; before 1900 it is closed.
            let expected = if closed_outside && oracle_state(&oh, dt("1900-01-01 00:00")) != RuleKind::Closed {
                Some(dt("1900-01-01 00:00"))
            } else {
                None
            };
            if nc != expected {
                errs.push(format!("[{e}] next_change({t}) = {nc:?}, expected {expected:?} (state {st:?})"));
            }
            if st != oracle_state(&oh, t) {
                errs.push(format!("[{e}] state({t}) = {st:?}"));
            }
        }
    }
    report("s08", errs);
}

#[test]
fn s09_range_lower_end_1900() {
    sweep(
        "s09",
        &[
            "Mo-Fr 10:00-18:00",
            "22:00-26:00",
            "1900 Jan 1 00:00-01:00",
            "Jan 1",
            "Dec 31 22:00-26:00",
            "1900",
            "1900-1901 10:00-12:00",
            "week 1",
            "easter",
            "Su[1] -3 days",
        ],
        Context::default(),
        "1899-12-28",
        12,
        800,
    );
}

#[test]
fn s10_range_upper_end_9999() {
    sweep(
        "s10",
        &[
            "Mo-Fr 10:00-18:00",
            "22:00-26:00",
            "Dec 31 22:00-26:00",
            "9999 Dec 31 10:00-12:00",
            "9999 Dec 31 23:00-24:00",
            "9999",
            "9990-9999/3 10:00-12:00",
            "week 52-53",
            "Dec",
            "Dec 00:00-24:00",
            "Fr 23:00-25:00",
            "9999 Dec 31",
            "Feb 29",
            "easter",
            "9998-9999",
        ],
        Context::default(),
        "9999-12-20",
        14,
        30,
    );
}

#[test]
fn s11_far_future_start() {
    // next_change from a recent instant towards a far event
    let mut errs = vec![];
    for (e, t, want) in [
        ("9999 Dec 31 10:00-12:00", "2024-01-01 00:00", Some("9999-12-31 10:00")),
        ("9999 Dec 31 23:00-24:00", "9999-12-31 23:30", None),
        ("9999 Dec 31 23:00-24:00 unknown", "9999-12-31 23:30", None),
        ("9999 Dec 31 22:00-26:00", "9999-12-31 23:30", None),
        ("9999 Dec 31 22:00-26:00", "9999-12-31 21:30", Some("9999-12-31 22:00")),
        ("2020,8000-9000 10:00-22:00", "2021-02-09 21:00", Some("8000-01-01 10:00")),
        ("1950", "2024-01-01 00:00", None),
        ("1950 10:00-12:00", "2024-01-01 00:00", None),
        ("2023 Dec 31 22:00-26:00", "2024-01-01 01:00", Some("2024-01-01 02:00")),
        ("2023 Dec 31 22:00-26:00", "2024-01-01 02:00", None),
        ("Feb 29", "2096-03-01 00:00", Some("2104-02-29 00:00")),
        ("Feb 29", "1896-03-01 00:00", Some("1904-02-29 00:00")),
        ("Feb 29 10:00-12:00", "2096-03-01 00:00", Some("2104-02-29 10:00")),
        ("2024-9999", "2024-01-01 00:00", None),
        ("2025-9999", "2024-01-01 00:00", Some("2025-01-01 00:00")),
        ("2024-9999/5", "2025-06-01 00:00", Some("2029-01-01 00:00")),
        ("2024-2100/50 Feb 29", "2025-06-01 00:00", None),
        ("2024-2100/4 Feb 29", "2025-06-01 00:00", Some("2028-02-29 00:00")),
        ("2030-2100/12 Feb 29", "2025-06-01 00:00", Some("2054-02-29 00:00")),
        ("week 53 Fr", "2021-01-03 00:00", Some("2027-01-01 00:00")),
        ("week 53 Mo[1]", "2021-01-05 00:00", None),
        ("2100 Feb 29", "2025-06-01 00:00", None),
        ("Jan 1 Fr[1] 10:00-12:00", "2021-01-02 00:00", Some("2027-01-01 10:00")),
        ("easter Apr 25", "2011-04-26 00:00", Some("2038-04-25 00:00")),
        ("easter Mar 22", "2024-01-01 00:00", Some("2285-03-22 00:00")),
    ] {
        let Ok(oh) = OpeningHours::parse(e) else {
            eprintln!("SKIPPED (does not parse): {e}");
            continue;
        };
        let got = oh.next_change(dt(t));
        let want = want.map(dt);
        if got != want {
            errs.push(format!("[{e}] next_change({t}) = {got:?}, expected {want:?}"));
        }
    }
    report("s11", errs);
}

#[test]
fn s12_same_inside_interval_minute_sweep() {
    // next_change identical for all t inside one interval, minute by minute (and sub-minute)
    let mut errs = vec![];
    for e in [
        "Mo-Fr 10:00-18:00; Sa 22:00-26:00",
        "10:00-12:00 open, 12:00-14:00 unknown",
        "Mo 23:00-24:00; Tu 00:00-01:00",
        "Mo 23:00-24:00 unknown; Tu 00:00-01:00 unknown \"k\"",
    ] {
        let oh = OpeningHours::parse(e).unwrap();
        let mut t = dt("2024-06-07 00:00:00");
        let end = dt("2024-06-12 00:00:00");
        let mut prev: Option<(RuleKind, Option<NaiveDateTime>)> = None;
        while t < end {
            let st = oh.state(t);
            let nc = oh.next_change(t);
            if st != oracle_state(&oh, t) {
                errs.push(format!("[{e}] state({t}) = {st:?}"));
            }
            if let Some((pst, pnc)) = prev {
                if pnc.is_some_and(|p| p > t) && (pst != st || pnc != nc) {
                    errs.push(format!("[{e}] at {t}: state {st:?} nc {nc:?} but before {pst:?} {pnc:?}"));
                }
                if pnc == Some(t) && pst == st {
                    errs.push(format!("[{e}] next_change = {t} but state unchanged {st:?}"));
                }
            }
            prev = Some((st, nc));
            t += Duration::seconds(30);
        }
    }
    report("s12", errs);
}

#[test]
fn s13_approx_bound_interval_size() {
    let mut errs = vec![];
    for (bound_days, exprs) in [
        (365, vec!["2024 Jan 1 10:00-12:00; 2026 Jun 1 10:00-12:00", "Feb 29", "Mo-Fr 10:00-18:00", "2020-2030/3"]),
        (30, vec!["Jan", "Feb 29", "Mo-Fr 10:00-18:00", "week 1-53/2", "Jan-Jun"]),
        (2, vec!["Mo 10:00-12:00", "Mo-Fr 10:00-18:00", "Jan"]),
        (0, vec!["Mo 10:00-12:00", "Mo-Fr 10:00-18:00"]),
    ] {
        let ctx = Context::default().approx_bound_interval_size(Duration::days(bound_days));
        let start = NaiveDate::from_ymd_opt(2024, 1, 1).unwrap();
        let probes = default_probes(start, 200);
        for e in exprs {
            let v = check_naive(e, ctx.clone(), &probes, 4500);
            errs.extend(v.into_iter().take(3).map(|x| format!("bound {bound_days}d {x}")));
        }
    }
    report("s13", errs);
}

#[test]
fn s14_sun_events_naive() {
    sweep(
        "s14",
        &[
            "sunrise-sunset",
            "(sunset+02:00)-(sunrise-01:00)",
            "dusk-dawn",
            "(dusk+24:00)-26:00",
            "(sunrise-08:00)-(sunrise-07:30)",
            "(sunset+05:30)-(sunset+06:00)",
            "Mo (dusk+04:00)-(dawn+20:00)",
            "sunset-sunrise; Tu off",
        ],
        Context::default(),
        "2024-06-01",
        3,
        100,
    );
}

// ---------------------------------------------------------------------------------------------
// Time zone contexts
// ---------------------------------------------------------------------------------------------

fn tz_oracle_state(oh: &OpeningHours<TzLocation<Tz>>, tz: Tz, t: chrono::DateTime<Utc>) -> RuleKind {
    let local = t.with_timezone(&tz).naive_local();
    oracle_state(oh, local)
}

/// Check the property in absolute time: step `step` over `[from, to]`, oracle next change scans
/// second by second / minute by minute up to `scan` ahead.
fn check_tz(
    expr: &str,
    tz: Tz,
    coords: Option<Coordinates>,
    from: chrono::DateTime<Utc>,
    to: chrono::DateTime<Utc>,
    step: Duration,
    scan_step: Duration,
    scan: Duration,
) -> Vec<String> {
    let mut loc = TzLocation::new(tz);
    if let Some(c) = coords {
        loc = loc.with_coords(c);
    }
    let oh = OpeningHours::parse(expr)
        .unwrap()
        .with_context(Context::default().with_locale(loc));
    let mut errs = vec![];
    let mut t = from;
    while t <= to {
        let tl = t.with_timezone(&tz);
        let want_st = tz_oracle_state(&oh, tz, t);
        let st = oh.state(tl.clone());
        if st != want_st {
            errs.push(format!("[{expr} @{tz}] state({tl}) = {st:?}, schedule says {want_st:?}"));
        }
        // oracle next change
        let mut x = t + scan_step;
        // align on scan_step grid
        let ss = scan_step.num_seconds();
        let rem = x.timestamp().rem_euclid(ss);
        x = x - Duration::seconds(rem);
        if x <= t {
            x = x + scan_step;
        }
        let mut want_nc = None;
        while x <= t + scan {
            if x.with_timezone(&tz).naive_local() >= date_end() {
                break;
            }
            if tz_oracle_state(&oh, tz, x) != want_st {
                want_nc = Some(x);
                break;
            }
            x = x + scan_step;
        }
        let got = oh.next_change(tl.clone()).map(|g| g.with_timezone(&Utc));
        if let Some(g) = got {
            if g <= t {
                errs.push(format!("[{expr} @{tz}] next_change({tl}) = {} not after t", g.with_timezone(&tz)));
            }
        }
        match (want_nc, got) {
            (Some(w), g) if g != Some(w) => errs.push(format!(
                "[{expr} @{tz}] next_change({tl}) = {:?}, expected {} (state {want_st:?})",
                g.map(|g| g.with_timezone(&tz).to_string()),
                w.with_timezone(&tz)
            )),
            (None, Some(g)) if g <= t + scan && (t + scan).with_timezone(&tz).naive_local() < date_end() => errs.push(format!(
                "[{expr} @{tz}] next_change({tl}) = {} but state constant until {}",
                g.with_timezone(&tz),
                (t + scan).with_timezone(&tz)
            )),
            _ => {}
        }
        t = t + step;
    }
    errs
}

fn utc(s: &str) -> chrono::DateTime<Utc> {
    Utc.from_utc_datetime(&dt(s))
}

#[test]
fn t01_paris_spring_forward_gap() {
    // 2024-03-31 02:00 -> 03:00 local (01:00 UTC)
    let mut errs = vec![];
    for e in [
        "02:00-02:30",
        "02:30-03:30",
        "01:00-02:30",
        "Mo-Su 10:00-18:00",
        "00:00-02:00",
        "03:00-04:00",
        "02:15-02:45 unknown; 02:45-03:00 open",
    ] {
        errs.extend(check_tz(
            e,
            chrono_tz::Europe::Paris,
            None,
            utc("2024-03-30 22:00"),
            utc("2024-03-31 04:00"),
            Duration::minutes(5),
            Duration::minutes(1),
            Duration::hours(30),
        ));
    }
    report("t01", errs);
}

#[test]
fn t02_paris_fall_back_overlap() {
    // 2024-10-27 03:00 -> 02:00 local (01:00 UTC)
    let mut errs = vec![];
    for e in [
        "02:00-02:30",
        "02:30-03:30",
        "01:00-02:30",
        "Mo-Su 10:00-18:00",
        "00:00-02:00",
        "03:00-04:00",
    ] {
        errs.extend(check_tz(
            e,
            chrono_tz::Europe::Paris,
            None,
            utc("2024-10-26 22:00"),
            utc("2024-10-27 04:00"),
            Duration::minutes(5),
            Duration::minutes(1),
            Duration::hours(30),
        ));
    }
    report("t02", errs);
}

#[test]
fn t03_lord_howe_half_hour_dst() {
    // Australia/Lord_Howe: 30 min DST; 2024-04-07 02:00 LHDT -> 01:30 LHST ; 2024-10-06 02:00 -> 02:30
    let mut errs = vec![];
    for (from, to) in [
        ("2024-04-06 12:00", "2024-04-06 18:00"),
        ("2024-10-05 12:00", "2024-10-05 18:00"),
    ] {
        for e in ["01:30-02:00", "02:00-02:30", "01:45-02:15", "Mo-Su 10:00-18:00"] {
            errs.extend(check_tz(
                e,
                chrono_tz::Australia::Lord_Howe,
                None,
                utc(from),
                utc(to),
                Duration::minutes(5),
                Duration::minutes(1),
                Duration::hours(30),
            ));
        }
    }
    report("t03", errs);
}

#[test]
fn t04_apia_skipped_day() {
    // Pacific/Apia skipped 2011-12-30 entirely (local 2011-12-29 24:00 -> 2011-12-31 00:00)
    let mut errs = vec![];
    for e in ["Fr 10:00-12:00", "10:00-12:00", "Dec 30", "Dec 29 22:00-26:00", "Dec 30-31 08:00-09:00"] {
        errs.extend(check_tz(
            e,
            chrono_tz::Pacific::Apia,
            None,
            utc("2011-12-30 00:00"),
            utc("2011-12-30 20:00"),
            Duration::minutes(30),
            Duration::minutes(1),
            Duration::hours(60),
        ));
    }
    report("t04", errs);
}

#[test]
fn t05_no_dst_zone_and_sub_minute_instants() {
    let mut errs = vec![];
    for e in ["Mo-Fr 10:00-18:00", "22:00-26:00"] {
        errs.extend(check_tz(
            e,
            chrono_tz::Asia::Tokyo,
            None,
            utc("2024-06-07 00:00:17"),
            utc("2024-06-08 00:00:17"),
            Duration::seconds(1801),
            Duration::minutes(1),
            Duration::hours(80),
        ));
    }
    report("t05", errs);
}

#[test]
fn t06_non_minute_aligned_offset_zone() {
    // Europe/Amsterdam before 1937 has offset +0:19:32 ; Africa/Monrovia -0:44:30 until 1972-01-07
    let mut errs = vec![];
    for (tz, from, to) in [
        (chrono_tz::Europe::Amsterdam, "1930-06-10 08:00:00", "1930-06-10 12:00:00"),
        (chrono_tz::Africa::Monrovia, "1972-01-06 20:00:00", "1972-01-07 03:00:00"),
        (chrono_tz::Europe::Amsterdam, "1937-06-30 20:00:00", "1937-07-01 03:00:00"),
    ] {
        for e in ["10:00-12:00", "00:00-01:00", "23:00-24:30"] {
            errs.extend(check_tz(
                e,
                tz,
                None,
                utc(from),
                utc(to),
                Duration::seconds(601),
                Duration::seconds(1),
                Duration::hours(26),
            ));
        }
    }
    report("t06", errs);
}

#[test]
fn t07_sun_events_with_coords() {
    let mut errs = vec![];
    let paris = Coordinates::new(48.8535, 2.34839).unwrap();
    let tromso = Coordinates::new(69.65, 18.96).unwrap();
    for (tz, c, from, to) in [
        (chrono_tz::Europe::Paris, paris, "2024-06-07 00:00", "2024-06-08 06:00"),
        (chrono_tz::Europe::Paris, paris, "2024-03-30 12:00", "2024-03-31 12:00"),
        (chrono_tz::Europe::Oslo, tromso, "2024-06-20 00:00", "2024-06-21 06:00"),
        (chrono_tz::Europe::Oslo, tromso, "2024-12-20 00:00", "2024-12-21 06:00"),
        (chrono_tz::Europe::Oslo, tromso, "2024-05-16 00:00", "2024-05-19 06:00"),
    ] {
        for e in ["sunrise-sunset", "dusk-dawn", "(sunset+02:00)-(sunrise-01:00)", "sunrise-12:00; 12:00-sunset unknown"] {
            errs.extend(check_tz(
                e,
                tz,
                Some(c),
                utc(from),
                utc(to),
                Duration::minutes(47),
                Duration::minutes(1),
                Duration::hours(50),
            ));
        }
    }
    report("t07", errs);
}

#[test]
fn t08_tz_range_ends() {
    // around DATE_END and 1900 in zones ahead of/behind UTC
    let mut errs = vec![];
    for tz in [chrono_tz::Pacific::Kiritimati, chrono_tz::Pacific::Pago_Pago, chrono_tz::Europe::Paris] {
        for e in ["Mo-Fr 10:00-18:00", "22:00-26:00", "Dec 31 22:00-26:00", "24/7"] {
            errs.extend(check_tz(
                e,
                tz,
                None,
                utc("9999-12-30 00:00"),
                utc("9999-12-31 09:00"),
                Duration::minutes(181),
                Duration::minutes(1),
                Duration::hours(30),
            ));
        }
    }
    report("t08", errs);
}

#[test]
fn t09_tz_strictly_after_and_differs() {
    // next_change(t) must be > t and state(next_change(t)) != state(t), sweeping a whole year of
    // DST transitions hourly
    let mut errs = vec![];
    for tz in [chrono_tz::Europe::Paris, chrono_tz::America::New_York, chrono_tz::Australia::Lord_Howe, chrono_tz::America::Havana] {
        for e in ["00:00-02:00", "02:00-03:00", "01:30-02:30", "00:30-01:00", "23:00-25:00"] {
            let oh = OpeningHours::parse(e)
                .unwrap()
                .with_context(Context::default().with_locale(TzLocation::new(tz)));
            for (from, to) in [("2024-03-09 00:00", "2024-04-08 00:00"), ("2024-10-04 00:00", "2024-11-05 00:00")] {
                let mut t = utc(from);
                while t < utc(to) {
                    let tl = t.with_timezone(&tz);
                    let st = oh.state(tl.clone());
                    if let Some(nc) = oh.next_change(tl.clone()) {
                        if nc <= tl {
                            errs.push(format!("[{e} @{tz}] next_change({tl}) = {nc} not after"));
                        }
                        let st2 = oh.state(nc.clone());
                        if st2 == st {
                            errs.push(format!("[{e} @{tz}] next_change({tl}) = {nc} but state there still {st:?}"));
                        }
                    } else {
                        errs.push(format!("[{e} @{tz}] next_change({tl}) = None"));
                    }
                    t = t + Duration::minutes(15);
                }
            }
        }
    }
    report("t09", errs);
}

// ---------------------------------------------------------------------------------------------
// Minimal reproductions of the confirmed violations
// ---------------------------------------------------------------------------------------------

fn paris(expr: &str) -> OpeningHours<TzLocation<Tz>> {
    OpeningHours::parse(expr)
        .unwrap()
        .with_context(Context::default().with_locale(TzLocation::new(chrono_tz::Europe::Paris)))
}

/// "02:00-02:30" in Europe/Paris: on 2024-03-31 the local hour 02:00-03:00 does not exist, so the
/// place stays closed from 2024-03-30 02:30 CET to 2024-04-01 02:00 CEST.
#[test]
fn v1_gap_next_change_without_state_change() {
    let tz = chrono_tz::Europe::Paris;
    let oh = paris("02:00-02:30");
    let t = tz.with_ymd_and_hms(2024, 3, 30, 23, 0, 0).unwrap();
    let nc = oh.next_change(t).unwrap();
    assert_eq!(oh.state(t), RuleKind::Closed);
    // the state at the returned instant must differ from state(t)
    assert_ne!(oh.state(nc), oh.state(t), "next_change({t}) = {nc}, state there is unchanged");
}

#[test]
fn v1b_gap_next_change_expected_value() {
    let tz = chrono_tz::Europe::Paris;
    let oh = paris("02:00-02:30");
    let t = tz.with_ymd_and_hms(2024, 3, 30, 23, 0, 0).unwrap();
    assert_eq!(
        oh.next_change(t),
        Some(tz.with_ymd_and_hms(2024, 4, 1, 2, 0, 0).unwrap())
    );
}

/// "02:00-02:30" in Europe/Paris on 2024-10-27: local 02:00-03:00 happens twice (CEST then CET).
#[test]
fn v2_overlap_next_change_too_late() {
    let tz = chrono_tz::Europe::Paris;
    let oh = paris("02:00-02:30");
    let t = Utc.with_ymd_and_hms(2024, 10, 26, 22, 0, 0).unwrap().with_timezone(&tz); // 00:00 CEST
    let first_pass = Utc.with_ymd_and_hms(2024, 10, 27, 0, 0, 0).unwrap().with_timezone(&tz); // 02:00 CEST
    assert_eq!(oh.state(t), RuleKind::Closed);
    assert_eq!(oh.state(first_pass), RuleKind::Open); // state differs already here
    let nc = oh.next_change(t).unwrap();
    assert!(nc <= first_pass, "next_change({t}) = {nc} is later than {first_pass} where the state already differs");
}

/// Same day, from inside the first pass: closed at 02:45 CEST, open again at 02:00 CET (15 minutes
/// later in absolute time).
#[test]
fn v2b_overlap_second_pass_ignored() {
    let tz = chrono_tz::Europe::Paris;
    let oh = paris("02:00-02:30");
    let t = Utc.with_ymd_and_hms(2024, 10, 27, 0, 45, 0).unwrap().with_timezone(&tz); // 02:45 CEST
    let second_pass = Utc.with_ymd_and_hms(2024, 10, 27, 1, 0, 0).unwrap().with_timezone(&tz); // 02:00 CET
    assert_eq!(oh.state(t), RuleKind::Closed);
    assert_eq!(oh.state(second_pass), RuleKind::Open);
    let nc = oh.next_change(t).unwrap();
    assert!(nc <= second_pass, "next_change({t}) = {nc} is later than {second_pass} where the state already differs");
}

/// Pacific/Apia skipped the whole local day 2011-12-30 (a Friday).
#[test]
fn v3_apia_skipped_day_next_change_without_state_change() {
    let tz = chrono_tz::Pacific::Apia;
    let oh = OpeningHours::parse("Fr 10:00-12:00")
        .unwrap()
        .with_context(Context::default().with_locale(TzLocation::new(tz)));
    let t = tz.with_ymd_and_hms(2011, 12, 29, 14, 0, 0).unwrap();
    let nc = oh.next_change(t).unwrap();
    assert_ne!(oh.state(nc.clone()), oh.state(t), "next_change({t}) = {nc}, state there is unchanged");
}

/// With an interval-size bound, next_change is not the same for all t of one interval and is
/// none although the state changes before 10000-01-01.
#[test]
fn v4_approx_bound_next_change_differs_inside_interval() {
    let oh = OpeningHours::parse("Jan")
        .unwrap()
        .with_context(Context::default().approx_bound_interval_size(Duration::days(30)));
    let a = dt("2024-01-01 00:00");
    let b = dt("2024-01-20 00:00");
    assert_eq!(oh.state(a), RuleKind::Open);
    assert_eq!(oh.state(b), RuleKind::Open);
    assert_eq!(oh.state(dt("2024-02-01 00:00")), RuleKind::Closed);
    assert_eq!(oh.next_change(b), Some(dt("2024-02-01 00:00")));
    assert_eq!(oh.next_change(a), oh.next_change(b));
}
