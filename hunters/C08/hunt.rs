//! Defect hunt for the "supported date range" property.
#![allow(dead_code)]

use chrono::{Duration, NaiveDate, NaiveDateTime, NaiveTime, TimeDelta};
use opening_hours::localization::Localize;
use opening_hours::{Context, OpeningHours, RuleKind, DATE_END};

fn d(y: i32, m: u32, day: u32) -> NaiveDate {
    NaiveDate::from_ymd_opt(y, m, day).unwrap()
}

fn dt(y: i32, m: u32, day: u32, h: u32, mi: u32) -> NaiveDateTime {
    d(y, m, day).and_hms_opt(h, mi, 0).unwrap()
}

/// Most exploration tests run a reduced version unless `HUNT_THOROUGH=1` is set (the thorough
/// versions were run with `--release` during the hunt and take many minutes).
fn thorough() -> bool {
    std::env::var("HUNT_THOROUGH").is_ok()
}

fn date_start() -> NaiveDateTime {
    dt(1900, 1, 1, 0, 0)
}

/// Oracle: first instant >= 1900-01-01T00:00 at which the expression is not closed, computed
/// day by day from `schedule_at` (independent from the `next_change_hint` machinery), searching
/// at most `max_days` days.
fn first_non_closed<L: Localize>(oh: &OpeningHours<L>, max_days: u64) -> Option<NaiveDateTime> {
    let mut date = date_start().date();

    for _ in 0..max_days {
        if date >= DATE_END.date() {
            return None;
        }

        for tr in oh.schedule_at(date) {
            if tr.kind != RuleKind::Closed {
                let time: NaiveTime = tr.range.start.try_into().unwrap();
                return Some(NaiveDateTime::new(date, time));
            }
        }

        date = date.succ_opt().unwrap();
    }

    None
}

fn probe_instants() -> Vec<NaiveDateTime> {
    let mut res = vec![
        NaiveDateTime::MIN,
        NaiveDateTime::MIN + Duration::minutes(1),
        dt(-262_000, 6, 15, 12, 0),
        dt(-1, 12, 31, 23, 59),
        dt(0, 1, 1, 0, 0),
        dt(0, 2, 29, 12, 0),
        dt(1, 1, 1, 0, 0),
        dt(1582, 10, 10, 0, 0),
        dt(1789, 7, 14, 12, 0),
        dt(1899, 1, 1, 0, 0),
        dt(1899, 12, 24, 0, 0),
        dt(1899, 12, 30, 23, 59),
        dt(1899, 12, 31, 0, 0),
        dt(1899, 12, 31, 12, 0),
        dt(1899, 12, 31, 23, 58),
        dt(1899, 12, 31, 23, 59),
        d(1899, 12, 31).and_hms_opt(23, 59, 59).unwrap(),
        d(1899, 12, 31).and_hms_nano_opt(23, 59, 59, 999_999_999).unwrap(),
        d(1899, 12, 31).and_hms_nano_opt(23, 59, 59, 1_999_999_999).unwrap(),
        dt(1900, 1, 1, 0, 0),
        d(1900, 1, 1).and_hms_opt(0, 0, 1).unwrap(),
        dt(1900, 1, 1, 0, 1),
        dt(1900, 1, 1, 1, 0),
        dt(1900, 1, 1, 12, 0),
        dt(1900, 1, 2, 0, 0),
        dt(1900, 2, 28, 23, 0),
        dt(1900, 3, 1, 0, 0),
        dt(1900, 12, 31, 23, 0),
        dt(1901, 1, 1, 0, 0),
        dt(2024, 6, 15, 12, 0),
        dt(9998, 12, 31, 23, 0),
        dt(9999, 1, 1, 0, 0),
        dt(9999, 12, 24, 0, 0),
        dt(9999, 12, 30, 23, 59),
        dt(9999, 12, 31, 0, 0),
        dt(9999, 12, 31, 12, 0),
        dt(9999, 12, 31, 23, 0),
        dt(9999, 12, 31, 23, 58),
        dt(9999, 12, 31, 23, 59),
        d(9999, 12, 31).and_hms_opt(23, 59, 30).unwrap(),
        d(9999, 12, 31).and_hms_opt(23, 59, 59).unwrap(),
        d(9999, 12, 31).and_hms_nano_opt(23, 59, 59, 999_999_999).unwrap(),
        d(9999, 12, 31).and_hms_nano_opt(23, 59, 59, 1_999_999_999).unwrap(),
        dt(10_000, 1, 1, 0, 0),
        d(10_000, 1, 1).and_hms_opt(0, 0, 1).unwrap(),
        dt(10_000, 1, 1, 0, 1),
        dt(10_000, 1, 1, 12, 0),
        dt(10_000, 1, 2, 0, 0),
        dt(10_000, 12, 31, 0, 0),
        dt(10_001, 1, 1, 0, 0),
        dt(65_535, 1, 1, 0, 0),
        dt(65_536, 1, 1, 0, 0),
        dt(65_537, 6, 1, 0, 0),
        dt(67_436, 1, 1, 10, 0), // 65536 + 1900
        dt(67_560, 6, 15, 10, 0), // 65536 + 2024
        dt(75_535, 12, 31, 10, 0), // 65536 + 9999
        dt(-63_636, 6, 15, 10, 0), // 1900 - 65536
        dt(-63_512, 6, 15, 10, 0), // 2024 - 65536
        dt(262_000, 1, 1, 0, 0),
        NaiveDateTime::MAX - Duration::minutes(1),
        NaiveDateTime::MAX,
    ];
    if !thorough() {
        let keep = [
            NaiveDateTime::MIN,
            dt(1789, 7, 14, 12, 0),
            dt(1899, 12, 31, 23, 59),
            d(1899, 12, 31).and_hms_nano_opt(23, 59, 59, 1_999_999_999).unwrap(),
            dt(1900, 1, 1, 0, 0),
            dt(1900, 1, 1, 0, 1),
            dt(9999, 12, 24, 0, 0),
            dt(9999, 12, 31, 23, 59),
            d(9999, 12, 31).and_hms_nano_opt(23, 59, 59, 1_999_999_999).unwrap(),
            dt(10_000, 1, 1, 0, 0),
            dt(10_000, 1, 1, 0, 1),
            dt(67_560, 6, 15, 10, 0),
            NaiveDateTime::MAX,
        ];
        res.retain(|t| keep.contains(t));
    }

    res.sort();
    res
}

fn probe_ends() -> Vec<NaiveDateTime> {
    vec![
        NaiveDateTime::MIN,
        dt(1789, 7, 14, 12, 0),
        dt(1899, 12, 31, 23, 59),
        dt(1900, 1, 1, 0, 0),
        dt(1900, 1, 1, 0, 1),
        dt(1900, 1, 2, 0, 0),
        dt(1901, 1, 1, 0, 0),
        dt(9999, 12, 31, 0, 0),
        dt(9999, 12, 31, 23, 59),
        d(9999, 12, 31).and_hms_opt(23, 59, 30).unwrap(),
        dt(10_000, 1, 1, 0, 0),
        dt(10_000, 1, 1, 0, 1),
        dt(10_001, 1, 1, 0, 0),
        NaiveDateTime::MAX,
    ]
    .into_iter()
    .enumerate()
    .filter(|(i, _)| thorough() || i % 3 == 0)
    .map(|(_, t)| t)
    .collect()
}

/// Returns a list of violations of the property for an expression.
fn check<L>(raw: &str, oh: &OpeningHours<L>, oracle_days: u64, contiguity: bool) -> Vec<String>
where
    L: Localize<DateTime = NaiveDateTime>,
{
    let mut violations = Vec::new();
    let instants = probe_instants();
    let first = first_non_closed(oh, oracle_days);

    let timer = std::time::Instant::now();

    for &t in &instants {
        if timer.elapsed().as_secs() > 15 {
            eprintln!("TRUNCATED [{raw}] at {t}");
            break;
        }

        let outside = t < date_start() || t >= DATE_END;

        // 1. closed outside
        let state = oh.state(t);
        if outside && state != RuleKind::Closed {
            violations.push(format!("[{raw}] state({t}) = {state:?}"));
        }
        if outside && (!oh.is_closed(t) || oh.is_open(t) || oh.is_unknown(t)) {
            violations.push(format!("[{raw}] is_closed({t}) is false"));
        }

        // 3. next_change
        let nc = oh.next_change(t);
        if let Some(nc) = nc {
            if nc >= DATE_END {
                violations.push(format!("[{raw}] next_change({t}) = {nc} >= DATE_END"));
            }
            if nc <= t {
                violations.push(format!("[{raw}] next_change({t}) = {nc} <= t"));
            }
        }
        if t >= DATE_END && nc.is_some() {
            violations.push(format!("[{raw}] next_change({t}) = {nc:?} from beyond the end"));
        }
        if t < date_start() {
            // Only compare when the oracle is conclusive
            let conclusive = first.is_some() || oracle_days >= 2_958_465;
            if conclusive && nc != first {
                violations.push(format!(
                    "[{raw}] next_change({t}) = {nc:?} but first non closed instant is {first:?}"
                ));
            }
        }

        // 2. intervals
        for &to in instants.iter().filter(|to| probe_ends().contains(to)) {
            let limit = std::cmp::min(to, DATE_END);
            let mut prev_end = None;

            for (i, itv) in oh.iter_range(t, to).take(6).enumerate() {
                if itv.range.start < t {
                    violations.push(format!(
                        "[{raw}] iter_range({t}, {to})[{i}] starts at {} < from",
                        itv.range.start
                    ));
                }
                if itv.range.end > limit {
                    violations.push(format!(
                        "[{raw}] iter_range({t}, {to})[{i}] ends at {} > limit {limit}",
                        itv.range.end
                    ));
                }
                if itv.range.start >= itv.range.end {
                    violations.push(format!(
                        "[{raw}] iter_range({t}, {to})[{i}] is empty or reversed: {:?}",
                        itv.range
                    ));
                }
                if (itv.range.end <= date_start() || itv.range.start >= DATE_END)
                    && itv.kind != RuleKind::Closed
                {
                    violations.push(format!(
                        "[{raw}] iter_range({t}, {to})[{i}] = {:?} is {:?} outside",
                        itv.range, itv.kind
                    ));
                }
                if itv.kind != RuleKind::Closed
                    && (itv.range.start < date_start() || itv.range.end > DATE_END)
                {
                    violations.push(format!(
                        "[{raw}] iter_range({t}, {to})[{i}] = {:?} is {:?} and leaves the bounds",
                        itv.range, itv.kind
                    ));
                }
                if let Some(prev_end) = prev_end {
                    if contiguity && prev_end != itv.range.start {
                        violations.push(format!(
                            "[{raw}] iter_range({t}, {to})[{i}] starts at {} but previous ended at {prev_end}",
                            itv.range.start
                        ));
                    }
                }
                prev_end = Some(itv.range.end);
            }
        }

        // iter_from
        for (i, itv) in oh.iter_from(t).take(4).enumerate() {
            if itv.range.start < t || itv.range.end > DATE_END {
                violations.push(format!(
                    "[{raw}] iter_from({t})[{i}] = {:?} leaves the bounds",
                    itv.range
                ));
            }
        }
    }

    violations
}

const EXPRESSIONS: &[&str] = &[
    "24/7",
    "24/7 open",
    "24/7 unknown",
    "24/7 closed",
    "24/7 off \"comment\"",
    "open",
    "unknown",
    "\"only a comment\"",
    "00:00-24:00",
    "00:00-24:00 unknown",
    "00:00-48:00",
    "22:00-26:00",
    "22:00-02:00",
    "23:59-24:01",
    "00:00-00:01",
    "23:59-24:00",
    "23:59-48:00",
    "00:01-48:00",
    "12:00-12:00",
    "12:00+",
    "10:00-12:00",
    "sunrise-sunset",
    "dusk-dawn",
    "(sunset+04:59)-(sunrise-06:59)",
    "Mo",
    "Su",
    "Su 22:00-26:00",
    "Mo 00:00-24:00",
    "Su 00:00-24:00",
    "Mo-Fr 10:00-12:00",
    "Mo[1]",
    "Su[-1]",
    "Su[-1] 22:00-30:00",
    "Fr[5]",
    "Mo[1] +1 day",
    "Su[-1] +1 day",
    "Mo[1] -1 day",
    "Mo[1] -3 days",
    "1900",
    "1900 unknown",
    "1900-1901",
    "1901",
    "1900+",
    "1950+",
    "9999",
    "9999+",
    "9998-9999",
    "1900-9999",
    "1900-9999/2",
    "1901-9999/2",
    "1900-9999/8099",
    "1900-9999/9999",
    "1900-9999/65535",
    "1901-9999/8098",
    "9999-1900",
    "2000-1950",
    "9999-1901",
    "1900,9999",
    "1900,9999 22:00-26:00",
    "9999 Dec 31",
    "9999 Dec 31 22:00-26:00",
    "9999 Dec 31 00:00-48:00",
    "9999 Dec 31 23:59-24:00",
    "1900 Jan 01",
    "1900 Jan 01 00:00-00:01",
    "1900 Jan 1-9999 Dec 31",
    "1900 Jan 1-Dec 31",
    "9999 Jan 1-Dec 31",
    "9999 Dec 1-Jan 31",
    "9999 Dec 31-Jan 01",
    "9999 Dec 31+",
    "9999 Jan 01+",
    "1900 Jan 01+",
    "9999Dec",
    "9999Dec-Feb",
    "9999Nov-Jan",
    "1900Jan",
    "1900Jan-Dec",
    "1900Dec-Jan",
    "Jan",
    "Dec",
    "Dec-Jan",
    "Jan-Dec",
    "Feb-Jan",
    "Jan 01",
    "Dec 31",
    "Dec 31-Jan 01",
    "Dec 25-Jan 06",
    "Jan 01-Dec 31",
    "Jan 02-Jan 01",
    "Jan 01 -1 day",
    "Jan 01 -1 day 22:00-26:00",
    "Dec 31 +1 day",
    "Dec 31 +1 day-Jan 05",
    "Jan 01 -7 days-Jan 01 +7 days",
    "Jan 01 -366 days",
    "Jan 01 -367 days",
    "Jan 01 -400 days",
    "Dec 31 +366 days",
    "Dec 31 +400 days",
    "Jan 01 -1000000 days",
    "Dec 31 +1000000 days",
    "Jan 01 -1000000 days-Dec 31 +1000000 days",
    "Jan 01 +99999999999 days",
    "Jan 01 -99999999999 days-Jan 02",
    "1900 Jan 01 -1 day",
    "1900 Jan 01 -1 day-1900 Jan 01",
    "1900 Jan 01 -10 days-Jan 01 +10 days",
    "9999 Dec 31 +1 day",
    "9999 Dec 31 -1 day-Dec 31 +10 days",
    "9999 Dec 31 +1 day-9999 Dec 31 +2 days",
    "1900 Jan 01-Su",
    "1900 Jan 01-Su-1900 Jan 01+Su",
    "9999 Dec 31+Su",
    "9999 Dec 31-Mo-Dec 31+Su",
    "Jan 01-Su",
    "Dec 31+Su",
    "Jan 01-Su -8 days",
    "Feb 29",
    "Feb 29 -1 day",
    "Feb 29 +1 day",
    "Feb 29-Mar 01",
    "Feb 28-Feb 29",
    "Feb 30",
    "Feb 30-Mar 02",
    "Feb 29 -59 days",
    "Feb 29 -60 days",
    "Feb 29 -61 days 22:00-26:00",
    "Feb 29 +306 days",
    "Feb 29 +307 days",
    "1900 Feb 29",
    "1900 Feb 29-1900 Mar 01",
    "1900 Feb 29+",
    "9999 Feb 29+",
    "9996 Feb 29+",
    "easter",
    "easter -100 days",
    "easter -120 days",
    "easter +280 days",
    "easter +300 days",
    "easter-Jan 15",
    "easter -1 day-Jan 15",
    "Dec 25-easter",
    "easter +1 day-easter",
    "easter-easter -1 day",
    "1900 easter",
    "1900 easter -120 days",
    "1900 easter -120 days-easter",
    "1900 easter-Jan 15",
    "9999 easter",
    "9999 easter-Jan 15",
    "9999 easter +300 days",
    "9999 easter +300 days-easter +310 days",
    "9999 easter-easter +300 days",
    "week 01",
    "week 01 Mo",
    "week 52",
    "week 53",
    "week 52-53",
    "week 52-01",
    "week 53-01",
    "week 01-53",
    "week 01-53/2",
    "week 02-53/2",
    "week 01-53/52",
    "week 01-53/53",
    "week 52 Su 22:00-26:00",
    "week 01 00:00-24:00",
    "week 52 Fr",
    "week 52 Fr 22:00-27:00",
    "1900 week 01",
    "1900 week 52",
    "1900 week 53",
    "9999 week 52",
    "9999 week 52 Fr 22:00-28:00",
    "9999 week 53",
    "9999 week 01",
    "1900 week 01 Mo 00:00-00:01",
    "Jan week 01",
    "Dec week 01",
    "Dec week 52 Fr",
    "PH",
    "SH",
    "PH off",
    "PH 22:00-26:00",
    "PH -1 day",
    "PH +1 day",
    "PH -1 day 22:00-26:00",
    "Mo-Su,PH",
    "PH,Mo 10:00-12:00",
    "24/7; PH off",
    "24/7; 1900 off",
    "24/7; 9999 off",
    "24/7; 1900 Jan 01 off",
    "24/7; 9999 Dec 31 off",
    "24/7; 9999 Dec 31 22:00-26:00 off",
    "24/7; 9999 Dec 31 22:00-26:00 unknown",
    "24/7; Su 22:00-26:00 off",
    "24/7; Su 22:00-26:00 unknown",
    "24/7 unknown; 1900-9998 open",
    "1900-9998 open; 9999 unknown",
    "1901-9999 open; 1900 unknown",
    "Mo-Fr 10:00-12:00; 9999 Dec 31 off",
    "Mo-Fr 10:00-12:00, 9999 Dec 31 23:00-27:00",
    "Mo-Fr 10:00-12:00 || unknown",
    "off || unknown",
    "off || open",
    "1901+ || unknown",
    "1900-9998 || unknown",
    "1900-9998 || 22:00-26:00 unknown",
    "Mo-Fr 10:00-12:00 || \"call us\"",
    "10:00-12:00 open, 12:00-14:00 unknown",
    "Jan-Feb; Mar-Dec off",
    "Jan, easter off",
    "3000",
    "3000-4000/7",
    "2999 Dec 31 22:00-26:00",
    "5000 Feb 29",
    "5001 Feb 29",
    "9999 Feb 29",
    "1900-9999Feb 29",
    "9000-9999/4Feb 29",
    "9996-9999Feb 29",
    "9997-9999Feb 29",
    "9990+Feb 29",
    "9990-9999/3Mar-Feb week 10-20/3 Mo[2],PH 10:00-26:00",
];

/// Other expressions without an efficient hint (skipped by the quick mode).
const QUICK_SKIP: &[&str] = &[
    "Jan 01-Dec 31",
    "Jan 02-Jan 01",
    "Jan 01 -367 days",
    "Jan 01 -400 days",
    "Jan 01 -99999999999 days-Jan 02",
    "easter +1 day-easter",
    "easter-easter -1 day",
    "1900 easter -120 days-easter",
    "1900 easter-Jan 15",
    "1900 week 52",
    "9999 week 52",
];

fn run_all<L>(ctx: Context<L>, oracle_days: u64, contiguity: bool) -> Vec<String>
where
    L: Localize<DateTime = NaiveDateTime>,
{
    let mut violations = Vec::new();

    for raw in EXPRESSIONS {
        if !thorough() && (slow::SLOW_EXPRESSIONS.contains(raw) || QUICK_SKIP.contains(raw)) {
            continue; // evaluated day by day over 8100 years, see `mod slow`
        }

        let oh = match OpeningHours::parse(raw) {
            Ok(oh) => oh.with_context(ctx.clone()),
            Err(err) => {
                eprintln!("SKIP (does not parse): {raw}: {err}");
                continue;
            }
        };

        let timer = std::time::Instant::now();
        let res = std::panic::catch_unwind(std::panic::AssertUnwindSafe(|| {
            let mut v = check(raw, &oh, oracle_days, contiguity);
            let norm = oh.normalize();
            v.extend(check(&format!("normalized {raw} => {norm}"), &norm, oracle_days, contiguity));
            v
        }));

        if timer.elapsed().as_secs_f64() > 2.0 {
            eprintln!("SLOW {raw}: {:?}", timer.elapsed());
        }

        match res {
            Ok(v) => violations.extend(v),
            Err(_) => violations.push(format!("[{raw}] PANIC")),
        }
    }

    violations
}

fn report(violations: Vec<String>) {
    for v in violations.iter().take(200) {
        eprintln!("VIOLATION {v}");
    }
    assert!(violations.is_empty(), "{} violations", violations.len());
}

#[test]
fn explore_default_context() {
    report(run_all(Context::default(), 800, true));
}

#[test]
fn explore_bounded_context() {
    let _ = TimeDelta::days(1);
    report(run_all(
        Context::default().approx_bound_interval_size(TimeDelta::days(366)),
        0,
        false,
    ));
}

// ---------------------------------------------------------------------------------------------
// Time zones
// ---------------------------------------------------------------------------------------------

mod tz {
    use super::*;
    use chrono::{DateTime, TimeZone, Utc};
    use opening_hours::localization::TzLocation;

    pub fn tz_instants<Tz: TimeZone>(tz: &Tz) -> Vec<DateTime<Tz>> {
        let mut res = Vec::new();

        for naive in probe_instants() {
            let local = tz.from_local_datetime(&naive);
            res.extend(local.clone().earliest());
            res.extend(local.latest());
            // Also interpret the probe as UTC
            if naive >= DateTime::<Utc>::MIN_UTC.naive_utc()
                && naive <= DateTime::<Utc>::MAX_UTC.naive_utc()
            {
                res.push(Utc.from_utc_datetime(&naive).with_timezone(tz));
            }
        }

        for h in -30..=30 {
            for base in [dt(1900, 1, 1, 0, 0), dt(10_000, 1, 1, 0, 0)] {
                res.push(
                    Utc.from_utc_datetime(&(base + Duration::minutes(h * 30)))
                        .with_timezone(tz),
                );
            }
        }

        res.push(DateTime::<Utc>::MIN_UTC.with_timezone(tz));
        res.push(DateTime::<Utc>::MAX_UTC.with_timezone(tz));
        // Leap seconds are covered by a dedicated test
        res.retain(|dt| chrono::Timelike::nanosecond(dt) < 1_000_000_000);
        res.sort();
        res.dedup();
        res
    }

    pub fn check_tz<Tz>(raw: &str, tz: Tz, bound: Option<TimeDelta>) -> Vec<String>
    where
        Tz: TimeZone + Send + Sync + std::fmt::Debug,
        Tz::Offset: Send + Sync + std::fmt::Display,
    {
        let mut violations = Vec::new();
        let locale = TzLocation::new(tz.clone());
        let mut ctx = Context::default().with_locale(locale.clone());
        if let Some(bound) = bound {
            ctx = ctx.approx_bound_interval_size(bound);
        }
        let oh = OpeningHours::parse(raw).unwrap().with_context(ctx);
        let instants = tz_instants(&tz);
        let ends: Vec<_> = instants.iter().step_by(7).cloned().collect();
        let abs_end = locale.datetime(DATE_END);
        let timer = std::time::Instant::now();

        for t in &instants {
            if timer.elapsed().as_secs() > 20 {
                eprintln!("TRUNCATED [{raw}] {tz:?} at {t}");
                break;
            }

            let naive = locale.naive(t.clone());
            let outside = naive < date_start() || naive >= DATE_END;
            let state = oh.state(t.clone());

            if outside && state != RuleKind::Closed {
                violations.push(format!("[{raw}] {tz:?} state({t}) = {state:?}"));
            }

            let nc = oh.next_change(t.clone());
            if let Some(nc) = &nc {
                if locale.naive(nc.clone()) >= DATE_END || *nc >= abs_end {
                    violations.push(format!("[{raw}] {tz:?} next_change({t}) = {nc}"));
                }
                if nc <= t {
                    violations.push(format!("[{raw}] {tz:?} next_change({t}) = {nc} <= t"));
                }
            }
            if naive >= DATE_END && nc.is_some() {
                violations.push(format!("[{raw}] {tz:?} next_change({t}) = {nc:?} beyond"));
            }

            for to in &ends {
                let limit = std::cmp::min(to.clone(), abs_end.clone());

                for (i, itv) in oh.iter_range(t.clone(), to.clone()).take(5).enumerate() {
                    if itv.range.start < *t {
                        violations.push(format!(
                            "[{raw}] {tz:?} iter_range({t}, {to})[{i}] starts at {} < from",
                            itv.range.start
                        ));
                    }
                    if itv.range.end > limit {
                        violations.push(format!(
                            "[{raw}] {tz:?} iter_range({t}, {to})[{i}] ends at {} > limit {limit}",
                            itv.range.end
                        ));
                    }
                    if itv.kind != RuleKind::Closed
                        && (locale.naive(itv.range.start.clone()) < date_start()
                            || locale.naive(itv.range.end.clone()) > DATE_END)
                    {
                        violations.push(format!(
                            "[{raw}] {tz:?} iter_range({t}, {to})[{i}] = {:?} is {:?} and leaves the bounds",
                            itv.range, itv.kind
                        ));
                    }
                }
            }
        }

        violations
    }

    const TZ_EXPRESSIONS: &[&str] = &[
        "24/7",
        "Mo-Fr 10:00-12:00",
        "22:00-26:00",
        "1900",
        "9999",
        "9999 Dec 31 22:00-26:00",
        "Su 22:00-26:00",
        "1900 Jan 01 00:00-00:01",
        "24/7; 1900 off",
        "off || unknown",
    ];

    fn run_tz<Tz>(tz: Tz) -> Vec<String>
    where
        Tz: TimeZone + Send + Sync + std::fmt::Debug,
        Tz::Offset: Send + Sync + std::fmt::Display,
    {
        let mut violations = Vec::new();

        for raw in TZ_EXPRESSIONS {
            for bound in [None, Some(TimeDelta::days(366))] {
                let tz = tz.clone();
                let res = std::panic::catch_unwind(std::panic::AssertUnwindSafe(|| {
                    check_tz(raw, tz, bound)
                }));

                match res {
                    Ok(v) => violations.extend(v),
                    Err(_) => violations.push(format!("[{raw}] PANIC")),
                }
            }
        }

        violations
    }

    #[test]
    fn explore_tz_paris() {
        report(run_tz(chrono_tz::Europe::Paris));
    }

    #[test]
    fn explore_tz_new_york() {
        report(run_tz(chrono_tz::America::New_York));
    }

    #[test]
    fn explore_tz_kiritimati() {
        report(run_tz(chrono_tz::Pacific::Kiritimati));
    }

    #[test]
    fn explore_tz_gmt_plus_12() {
        report(run_tz(chrono_tz::Etc::GMTPlus12));
    }

    #[test]
    fn explore_tz_lord_howe() {
        report(run_tz(chrono_tz::Australia::Lord_Howe));
    }

    #[test]
    fn explore_tz_monrovia() {
        report(run_tz(chrono_tz::Africa::Monrovia));
    }

    #[test]
    fn explore_tz_utc() {
        report(run_tz(Utc));
    }

    #[test]
    fn explore_tz_fixed_odd() {
        report(run_tz(chrono::FixedOffset::east_opt(86_399).unwrap()));
        report(run_tz(chrono::FixedOffset::west_opt(86_399).unwrap()));
        report(run_tz(chrono::FixedOffset::east_opt(31).unwrap()));
    }
}

// ---------------------------------------------------------------------------------------------
// Holidays around the bounds
// ---------------------------------------------------------------------------------------------

mod holidays {
    use super::*;
    use compact_calendar::CompactCalendar;
    use opening_hours::ContextHolidays;
    use std::sync::Arc;

    fn ctx() -> Context {
        let public: CompactCalendar = [
            d(-5, 6, 1),
            d(1899, 12, 30),
            d(1899, 12, 31),
            d(1900, 1, 1),
            d(1900, 1, 3),
            d(1900, 12, 31),
            d(2024, 7, 14),
            d(9999, 1, 1),
            d(9999, 12, 29),
            d(9999, 12, 31),
            d(10_000, 1, 1),
            d(10_000, 1, 2),
            d(20_000, 1, 2),
        ]
        .into_iter()
        .collect();

        let school: CompactCalendar = (0..20)
            .map(|i| d(1899, 12, 25) + Duration::days(i))
            .chain((0..20).map(|i| d(9999, 12, 20) + Duration::days(i)))
            .collect();

        Context::default().with_holidays(ContextHolidays::new(Arc::new(public), Arc::new(school)))
    }

    const HOLIDAY_EXPRESSIONS: &[&str] = &[
        "PH",
        "SH",
        "PH off",
        "PH 22:00-26:00",
        "SH 22:00-26:00",
        "PH -1 day",
        "PH +1 day",
        "PH -2 days",
        "PH +2 days",
        "PH -1 day 22:00-26:00",
        "PH +1 day 22:00-26:00",
        "PH +365 days",
        "PH -365 days",
        "PH +2958465 days",
        "PH -2958465 days",
        "PH +99999999999 days",
        "PH -99999999999 days",
        "PH,SH",
        "PH,Mo 10:00-12:00",
        "24/7; PH off",
        "24/7; SH off",
        "24/7; PH -1 day off",
        "24/7; PH +1 day 22:00-26:00 off",
        "Mo-Su; PH unknown",
        "1900 PH",
        "9999 PH",
        "9999 PH +1 day",
        "9999 Dec 31 PH 23:00-25:00",
        "Jan 01 PH",
        "week 01 PH",
        "week 52 SH",
        "PH || unknown",
        "SH off || unknown",
    ];

    #[test]
    fn explore_holidays() {
        let mut violations = Vec::new();

        for bound in [None, Some(TimeDelta::days(366))] {
            for raw in HOLIDAY_EXPRESSIONS {
                let mut ctx = ctx();
                if let Some(bound) = bound {
                    ctx = ctx.approx_bound_interval_size(bound);
                }
                let oh = OpeningHours::parse(raw).unwrap().with_context(ctx);
                let oracle_days = if bound.is_some() { 0 } else { 800 };
                let res = std::panic::catch_unwind(std::panic::AssertUnwindSafe(|| {
                    check(raw, &oh, oracle_days, bound.is_none())
                }));

                match res {
                    Ok(v) => violations.extend(v),
                    Err(_) => violations.push(format!("[{raw}] PANIC")),
                }
            }
        }

        report(violations);
    }
}

// ---------------------------------------------------------------------------------------------
// Dedicated tests for suspected defects
// ---------------------------------------------------------------------------------------------

mod suspects {
    use super::*;
    use chrono::{DateTime, FixedOffset, TimeZone, Utc};
    use opening_hours::localization::TzLocation;

    fn oh_tz<Tz>(raw: &str, tz: Tz) -> OpeningHours<TzLocation<Tz>>
    where
        Tz: TimeZone + Send + Sync,
        Tz::Offset: Send + Sync,
    {
        OpeningHours::parse(raw)
            .unwrap()
            .with_context(Context::default().with_locale(TzLocation::new(tz)))
    }

    /// A leap second (as chrono represents it) which belongs to 1899-12-31 in local time is
    /// before 1900-01-01T00:00, so the expression must be closed.
    #[test]
    fn leap_second_before_1900_negative_offset_is_closed() {
        let tz = FixedOffset::west_opt(3600).unwrap();
        let utc_leap = d(1900, 1, 1)
            .and_hms_nano_opt(0, 59, 59, 1_500_000_000)
            .unwrap();
        let t: DateTime<FixedOffset> = Utc.from_utc_datetime(&utc_leap).with_timezone(&tz);
        let bound = tz.from_local_datetime(&date_start()).unwrap();

        // Sanity: for chrono this instant is on 1899-12-31 and strictly before the bound
        assert_eq!(t.naive_local().date(), d(1899, 12, 31));
        assert!(t < bound);
        assert!(t.naive_local() < date_start());

        let oh = oh_tz("24/7", tz);
        assert_eq!(oh.state(t), RuleKind::Closed, "state at {t}");
    }

    /// From the same instant (before 1900), next_change must return 1900-01-01T00:00.
    #[test]
    fn leap_second_before_1900_negative_offset_next_change() {
        let tz = FixedOffset::west_opt(3600).unwrap();
        let utc_leap = d(1900, 1, 1)
            .and_hms_nano_opt(0, 59, 59, 1_500_000_000)
            .unwrap();
        let t: DateTime<FixedOffset> = Utc.from_utc_datetime(&utc_leap).with_timezone(&tz);
        let bound = tz.from_local_datetime(&date_start()).unwrap();
        assert!(t < bound);

        let oh = oh_tz("24/7", tz);
        assert_eq!(oh.next_change(t), Some(bound), "next_change from {t}");
    }

    /// Same with a real time zone.
    #[test]
    fn leap_second_before_1900_new_york_is_closed() {
        let tz = chrono_tz::America::New_York;
        let utc_leap = d(1900, 1, 1)
            .and_hms_nano_opt(4, 59, 59, 1_500_000_000)
            .unwrap();
        let t = Utc.from_utc_datetime(&utc_leap).with_timezone(&tz);
        let bound = tz.from_local_datetime(&date_start()).unwrap();
        assert_eq!(t.naive_local().date(), d(1899, 12, 31));
        assert!(t < bound);

        let oh = oh_tz("24/7", tz);
        assert_eq!(oh.state(t), RuleKind::Closed, "state at {t}");
        assert_eq!(oh.next_change(t), Some(bound), "next_change from {t}");
    }

    /// No reported interval may start before the requested start (leap second, positive offset).
    #[test]
    fn leap_second_start_positive_offset_not_before_from() {
        let tz = chrono_tz::Europe::Paris;
        let utc_leap = d(2016, 12, 31)
            .and_hms_nano_opt(23, 59, 59, 1_500_000_000)
            .unwrap();
        let from = Utc.from_utc_datetime(&utc_leap).with_timezone(&tz);
        let to = from.clone() + Duration::hours(5);
        let oh = oh_tz("24/7", tz);
        let first = oh.iter_range(from, to).next().unwrap();
        assert!(
            first.range.start >= from,
            "interval starts at {} < requested start {from}",
            first.range.start
        );
    }

    /// No reported interval may end after the requested end (leap second, negative offset).
    #[test]
    fn leap_second_end_negative_offset_not_after_to() {
        let tz = chrono_tz::America::New_York;
        let utc_leap = d(2016, 12, 31)
            .and_hms_nano_opt(23, 59, 59, 1_500_000_000)
            .unwrap();
        let to = Utc.from_utc_datetime(&utc_leap).with_timezone(&tz);
        let from = to.clone() - Duration::hours(5);
        let oh = oh_tz("24/7", tz);
        let last = oh.iter_range(from, to).last().unwrap();
        assert!(
            last.range.end <= to,
            "interval ends at {} > requested end {to}",
            last.range.end
        );
    }

    /// No reported interval may end after the requested end: the end is the first occurrence of
    /// an ambiguous local time (clocks turned backward).
    #[test]
    fn ambiguous_requested_end_is_respected() {
        let tz = chrono_tz::Europe::Paris;
        let from = tz.with_ymd_and_hms(2024, 10, 27, 0, 0, 0).unwrap();
        let to = tz
            .from_local_datetime(&dt(2024, 10, 27, 2, 30))
            .earliest()
            .unwrap(); // 02:30 CEST = 00:30 UTC
        let oh = oh_tz("24/7", tz);

        for itv in oh.iter_range(from, to) {
            assert!(itv.range.start >= from);
            assert!(
                itv.range.end <= to,
                "interval ends at {} > requested end {to}",
                itv.range.end
            );
        }
    }

    /// Same, for an interval which ends (in local time) before the requested end.
    #[test]
    fn ambiguous_interval_end_before_requested_end() {
        let tz = chrono_tz::Europe::Paris;
        let from = tz.with_ymd_and_hms(2024, 10, 27, 0, 0, 0).unwrap();
        let to = tz
            .from_local_datetime(&dt(2024, 10, 27, 2, 45))
            .earliest()
            .unwrap(); // 02:45 CEST = 00:45 UTC
        let oh = oh_tz("00:00-02:30", tz);

        for itv in oh.iter_range(from, to) {
            assert!(
                itv.range.end <= to,
                "interval {:?} ends at {} > requested end {to}",
                itv.kind,
                itv.range.end
            );
        }
    }

    /// From before 1900, next_change must be the *first* instant at which the expression is not
    /// closed (as told by `state`), even if its local time happens twice.
    #[test]
    fn first_opening_at_ambiguous_local_time_from_before_1900() {
        let tz = chrono_tz::Europe::Paris;
        let oh = oh_tz("2024 Oct 27 02:30-02:45", tz);
        let before = tz.with_ymd_and_hms(1789, 7, 14, 12, 0, 0).unwrap();
        let first = tz
            .from_local_datetime(&dt(2024, 10, 27, 2, 30))
            .earliest()
            .unwrap(); // 02:30 CEST
        let just_before = first.clone() - Duration::minutes(1);

        // The library agrees that this is the first instant which is not closed
        assert_eq!(oh.state(first), RuleKind::Open);
        assert_eq!(oh.state(just_before), RuleKind::Closed);
        assert!(oh.iter_range(before, just_before).all(|itv| itv.kind == RuleKind::Closed));

        assert_eq!(oh.next_change(before), Some(first));
    }

    /// The only opening of the expression is skipped by the clocks: it is never "not closed",
    /// yet an instant at which it is closed is returned.
    #[test]
    fn first_opening_in_skipped_local_time_from_before_1900() {
        let tz = chrono_tz::Europe::Paris;
        let oh = oh_tz("2024 Mar 31 02:15-02:45", tz);
        let before = tz.with_ymd_and_hms(1789, 7, 14, 12, 0, 0).unwrap();

        if let Some(change) = oh.next_change(before) {
            assert_ne!(
                oh.state(change),
                RuleKind::Closed,
                "next_change returned {change} at which the expression is closed"
            );
        }
    }

    /// With an approximated context the first change after 1900 is lost.
    #[test]
    fn bounded_context_next_change_from_before_1900() {
        let ctx = Context::default().approx_bound_interval_size(TimeDelta::days(366));
        let oh = OpeningHours::parse("24/7").unwrap().with_context(ctx);
        assert_eq!(oh.next_change(dt(1789, 7, 14, 12, 0)), Some(date_start()));
    }

    /// Still within a year of the bound
    #[test]
    fn bounded_context_next_change_from_1899() {
        let ctx = Context::default().approx_bound_interval_size(TimeDelta::days(366));
        let oh = OpeningHours::parse("24/7").unwrap().with_context(ctx);
        assert_eq!(oh.next_change(dt(1899, 7, 14, 12, 0)), Some(date_start()));
        let oh = OpeningHours::parse("Mo-Fr 10:00-12:00").unwrap().with_context(oh_ctx());
        assert_eq!(oh.next_change(dt(1899, 7, 14, 12, 0)), Some(dt(1900, 1, 1, 10, 0)));
    }

    fn oh_ctx() -> Context {
        Context::default().approx_bound_interval_size(TimeDelta::days(366))
    }

    /// A huge bound must not break evaluation outside of the range.
    #[test]
    fn huge_bound_is_closed_outside() {
        let ctx = Context::default().approx_bound_interval_size(TimeDelta::MAX);
        let oh = OpeningHours::parse("Mo-Fr 10:00-12:00").unwrap().with_context(ctx);
        assert_eq!(oh.state(dt(1789, 7, 14, 12, 0)), RuleKind::Closed);
        assert_eq!(oh.next_change(dt(1789, 7, 14, 12, 0)), Some(dt(1900, 1, 1, 10, 0)));
    }
}

// ---------------------------------------------------------------------------------------------
// Expressions that are evaluated day by day (no hint): reduced set of probes
// ---------------------------------------------------------------------------------------------

mod slow {
    use super::*;

    pub const SLOW_EXPRESSIONS: &[&str] = &[
        "00:00-48:00",
        "23:59-48:00",
        "00:01-48:00",
        "12:00-12:00",
        "9999-1900",
        "2000-1950",
        "9999-1901",
        "week 01-53",
        "1900 week 53",
        "9999 week 53",
        "9999 week 52 Fr 22:00-28:00",
        "1900 week 01 Mo 00:00-00:01",
        "Mo-Su,PH",
        "1900-9998 || 22:00-26:00 unknown",
        "9990-9999/3Mar-Feb week 10-20/3 Mo[2],PH 10:00-26:00",
        "Jan 01 PH",
        "Mo-Su; PH unknown",
    ];

    #[test]
    fn explore_slow_expressions() {
        let mut violations = Vec::new();

        for raw in SLOW_EXPRESSIONS {
            let oh = OpeningHours::parse(raw).unwrap();
            let first = first_non_closed(&oh, if thorough() { 4_000_000 } else { 1500 });

            for t in [dt(1789, 7, 14, 12, 0), dt(1899, 12, 31, 23, 59)] {
                if oh.state(t) != RuleKind::Closed {
                    violations.push(format!("[{raw}] state({t})"));
                }
                if !thorough() && first.is_none() {
                    continue; // would scan the whole range, day by day
                }
                let nc = oh.next_change(t);
                if nc != first {
                    violations.push(format!("[{raw}] next_change({t}) = {nc:?}, expected {first:?}"));
                }
            }

            for t in [
                dt(9999, 12, 20, 0, 0),
                dt(9999, 12, 31, 0, 0),
                dt(9999, 12, 31, 23, 59),
                dt(10_000, 1, 1, 0, 0),
                dt(10_000, 1, 1, 0, 1),
                dt(65_537, 6, 1, 0, 0),
            ] {
                let nc = oh.next_change(t);
                if nc.is_some_and(|nc| nc >= DATE_END || nc <= t) || (t >= DATE_END && nc.is_some()) {
                    violations.push(format!("[{raw}] next_change({t}) = {nc:?}"));
                }
                if t >= DATE_END && oh.state(t) != RuleKind::Closed {
                    violations.push(format!("[{raw}] state({t})"));
                }
                for to in [dt(9999, 12, 31, 23, 59), DATE_END, dt(10_000, 1, 1, 0, 1), NaiveDateTime::MAX] {
                    for itv in oh.iter_range(t, to) {
                        if itv.range.start < t || itv.range.end > std::cmp::min(to, DATE_END) {
                            violations.push(format!("[{raw}] iter_range({t}, {to}) -> {:?}", itv.range));
                        }
                    }
                }
            }
        }

        report(violations);
    }
}

mod full_oracle {
    use super::*;

    /// next_change from before 1900 against an exhaustive day by day oracle over 1900..=9999.
    #[test]
    fn explore_next_change_from_before_1900_full_oracle() {
        let mut violations = Vec::new();

        for raw in EXPRESSIONS {
            let Ok(oh) = OpeningHours::parse(raw) else { continue };
            let first = first_non_closed(&oh, if thorough() { 4_000_000 } else { 1500 });

            if !thorough()
                && first.is_none()
                && (slow::SLOW_EXPRESSIONS.contains(raw) || QUICK_SKIP.contains(raw))
            {
                continue; // would scan the whole range, day by day
            }

            for t in [NaiveDateTime::MIN, dt(1789, 7, 14, 12, 0), dt(1899, 12, 31, 23, 59)] {
                if !thorough() && first.is_none() {
                    // Inconclusive oracle: only check that the result is in the bounds
                    let nc = oh.next_change(t);
                    if nc.is_some_and(|nc| nc < date_start() + Duration::days(1500) || nc >= DATE_END) {
                        violations.push(format!("[{raw}] next_change({t}) = {nc:?}, expected after 1500 days"));
                    }
                    continue;
                }

                let nc = oh.next_change(t);
                if nc != first {
                    violations.push(format!("[{raw}] next_change({t}) = {nc:?}, expected {first:?}"));
                }
                let nc = oh.normalize().next_change(t);
                if nc != first {
                    violations.push(format!("[{raw}] normalized: next_change({t}) = {nc:?}, expected {first:?}"));
                }
            }
        }

        report(violations);
    }
}

// ---------------------------------------------------------------------------------------------
// Random expressions
// ---------------------------------------------------------------------------------------------

mod random {
    use super::*;
    use compact_calendar::CompactCalendar;
    use opening_hours::ContextHolidays;
    use std::sync::Arc;

    struct Rng(u64);

    impl Rng {
        fn next(&mut self) -> u64 {
            self.0 ^= self.0 << 13;
            self.0 ^= self.0 >> 7;
            self.0 ^= self.0 << 17;
            self.0
        }

        fn pick<'a>(&mut self, items: &[&'a str]) -> &'a str {
            // Half of the time, leave the component empty
            if items[0].is_empty() && self.next() % 2 == 0 {
                return "";
            }

            items[(self.next() % items.len() as u64) as usize]
        }
    }

    const YEARS: &[&str] = &[
        "", "", "", "1900", "1901", "1900-1901", "1900-9999/3", "1901-9999/2", "1901+", "1900+",
        "9999", "9998-9999", "9990-9999/4", "9999-1900", "1900,9999", "9999+", "1900-9999/8099",
    ];
    const MONTHDAYS: &[&str] = &[
        "", "", "", "Jan", "Dec", "Dec-Jan", "Jan 01", "Dec 31", "Dec 31-Jan 02", "Feb 29",
        "easter -100 days", "easter +280 days-easter +300 days", "Jan 01 -1 day", "Dec 31 +1 day",
        "Jan 01 -1 day-Jan 01 +1 day", "Dec 25-easter", "easter-Jan 02", "Jan 01+", "Dec 31+",
        "Jan 01-Su", "Dec 31+Mo", "Jan 01-Su-Jan 01+Su", "Feb 29 -60 days", "Feb 29 +307 days",
        "Jan 02-Jan 01", "Dec 30-31", "Jan 01-02", "Mar-Feb", "Jan 01 -400 days", "Dec 31 +400 days",
    ];
    const WEEKS: &[&str] = &[
        "", "", "", "", "week 01", "week 52", "week 53", "week 52-01", "week 01-53/2", "week 02-52/2",
        "week 01-53", "week 53-01", "week 01,52",
    ];
    const WEEKDAYS: &[&str] = &[
        "", "", "", "Mo", "Su", "Su-Mo", "Mo[1]", "Su[-1]", "Mo[1] +1 day", "Su[-1] +1 day",
        "Mo[1] -1 day", "PH", "PH -1 day", "PH +1 day", "SH", "Mo,PH", "Fr[5]", "Su[5] +2 days",
    ];
    const TIMES: &[&str] = &[
        "", "", "00:00-24:00", "22:00-26:00", "00:00-00:01", "23:59-24:00", "23:59-24:01",
        "00:00-48:00", "12:00-36:00", "10:00-12:00", "dusk-dawn", "18:00+", "00:01-24:00",
    ];
    const MODIFIERS: &[&str] = &["", "", "", "open", "off", "unknown", "closed \"c\"", "\"c\""];
    const SEPARATORS: &[&str] = &["; ", "; ", ", ", " || "];

    fn rule(rng: &mut Rng) -> String {
        loop {
            let year = rng.pick(YEARS);
            let monthday = rng.pick(MONTHDAYS);
            let week = rng.pick(WEEKS);
            let weekday = rng.pick(WEEKDAYS);
            let time = rng.pick(TIMES);
            let modifier = rng.pick(MODIFIERS);

            let mut res = String::new();
            res.push_str(year);
            if !year.is_empty() && !monthday.is_empty() && !monthday.starts_with(|c: char| c.is_ascii_uppercase()) {
                res.push(' ');
            }
            if !year.is_empty() && !monthday.is_empty() && year.len() == 4 {
                // "1900 Jan 01" is a dated range, "1900Jan" a month of a year
            }
            res.push_str(monthday);
            for part in [week, weekday, time, modifier] {
                if !part.is_empty() {
                    if !res.is_empty() {
                        res.push(' ');
                    }
                    res.push_str(part);
                }
            }

            if !res.is_empty() && OpeningHours::parse(&res).is_ok() {
                return res;
            }
        }
    }

    fn ctx() -> Context {
        let public: CompactCalendar = [
            d(1899, 12, 31),
            d(1900, 1, 1),
            d(1900, 1, 3),
            d(1900, 12, 31),
            d(9999, 12, 29),
            d(9999, 12, 31),
            d(10_000, 1, 1),
        ]
        .into_iter()
        .collect();

        let school: CompactCalendar = (0..20)
            .map(|i| d(1899, 12, 25) + Duration::days(i))
            .chain((0..20).map(|i| d(9999, 12, 20) + Duration::days(i)))
            .collect();

        Context::default().with_holidays(ContextHolidays::new(Arc::new(public), Arc::new(school)))
    }

    fn light_check(raw: &str, oh: &OpeningHours, violations: &mut Vec<String>) {
        let first = first_non_closed(oh, 1500);

        for t in [dt(1789, 7, 14, 12, 0), dt(1899, 12, 31, 23, 59)] {
            if oh.state(t) != RuleKind::Closed {
                violations.push(format!("[{raw}] state({t})"));
            }
            if first.is_some() {
                let nc = oh.next_change(t);
                if nc != first {
                    violations.push(format!("[{raw}] next_change({t}) = {nc:?}, expected {first:?}"));
                }
            }
        }

        for t in [
            dt(9999, 12, 20, 0, 0),
            dt(9999, 12, 31, 0, 0),
            dt(9999, 12, 31, 23, 59),
            dt(10_000, 1, 1, 0, 0),
            dt(10_000, 1, 1, 0, 1),
            dt(10_000, 1, 2, 1, 0),
        ] {
            let nc = oh.next_change(t);
            if nc.is_some_and(|nc| nc >= DATE_END || nc <= t) || (t >= DATE_END && nc.is_some()) {
                violations.push(format!("[{raw}] next_change({t}) = {nc:?}"));
            }
            if t >= DATE_END && oh.state(t) != RuleKind::Closed {
                violations.push(format!("[{raw}] state({t})"));
            }
            for to in [dt(9999, 12, 31, 23, 59), DATE_END, dt(10_000, 1, 2, 0, 1)] {
                let mut prev_end = None;
                for itv in oh.iter_range(t, to) {
                    if itv.range.start < t || itv.range.end > std::cmp::min(to, DATE_END) {
                        violations.push(format!("[{raw}] iter_range({t}, {to}) -> {:?}", itv.range));
                    }
                    if prev_end.is_some_and(|e| e != itv.range.start) {
                        violations.push(format!("[{raw}] iter_range({t}, {to}) not contiguous"));
                    }
                    prev_end = Some(itv.range.end);
                }
                // state() must agree with intervals over the last days (minute sampling is too
                // slow, sample the interval bounds)
            }
        }

        // Intervals straddling the lower bound
        for from in [dt(1789, 7, 14, 12, 0), dt(1899, 12, 31, 23, 59)] {
            for to in [dt(1899, 12, 31, 23, 59), date_start(), dt(1900, 1, 1, 0, 1), dt(1900, 1, 5, 0, 0)] {
                for itv in oh.iter_range(from, to) {
                    if itv.range.start < from || itv.range.end > to {
                        violations.push(format!("[{raw}] iter_range({from}, {to}) -> {:?}", itv.range));
                    }
                    if itv.kind != RuleKind::Closed && itv.range.start < date_start() {
                        violations.push(format!("[{raw}] iter_range({from}, {to}) -> {:?} {:?}", itv.range, itv.kind));
                    }
                }
            }
        }
    }

    /// Compare the intervals over a window with the concatenation of daily schedules.
    fn daily_check(raw: &str, oh: &OpeningHours, from: NaiveDateTime, to: NaiveDateTime, violations: &mut Vec<String>) {
        let mut expected: Vec<(NaiveDateTime, NaiveDateTime, RuleKind)> = Vec::new();
        let mut date = from.date();
        let requested_to = to;
        let to = std::cmp::min(to, DATE_END); // nothing is reported after the bound

        while date.and_time(NaiveTime::MIN) < to {
            let midnight = date.and_time(NaiveTime::MIN);
            let in_range = date >= date_start().date() && date < DATE_END.date();
            let ranges: Vec<_> = if in_range {
                oh.schedule_at(date)
                    .into_iter()
                    .map(|tr| {
                        let start = midnight + Duration::minutes(i64::from(tr.range.start.mins_from_midnight()));
                        let end = midnight + Duration::minutes(i64::from(tr.range.end.mins_from_midnight()));
                        (start, end, tr.kind)
                    })
                    .collect()
            } else {
                vec![(midnight, midnight + Duration::days(1), RuleKind::Closed)]
            };

            for (start, end, kind) in ranges {
                let start = std::cmp::max(start, from);
                let end = std::cmp::min(end, to);
                if start >= end {
                    continue;
                }
                match expected.last_mut() {
                    Some(last) if last.2 == kind && last.1 == start => last.1 = end,
                    _ => expected.push((start, end, kind)),
                }
            }

            date = date.succ_opt().unwrap();
        }

        let got: Vec<_> = oh
            .iter_range(from, requested_to)
            .map(|itv| (itv.range.start, itv.range.end, itv.kind))
            .collect();

        if got != expected {
            let pos = got.iter().zip(&expected).position(|(a, b)| a != b).unwrap_or(std::cmp::min(got.len(), expected.len()));
            violations.push(format!(
                "[{raw}] iter_range({from}, {to}) differs from daily schedules at #{pos}: got {:?}, expected {:?}",
                got.get(pos), expected.get(pos)
            ));
        }
    }

    #[test]
    fn explore_random_expressions() {
        let count: u64 = std::env::var("HUNT_RANDOM_COUNT")
            .ok()
            .and_then(|x| x.parse().ok())
            .unwrap_or(150);
        let mut rng = Rng(0x9E37_79B9_7F4A_7C15);
        let mut violations = Vec::new();

        for _ in 0..count {
            let mut raw = rule(&mut rng);
            for _ in 0..(rng.next() % 3) {
                raw.push_str(rng.pick(SEPARATORS));
                raw.push_str(&rule(&mut rng));
            }

            let Ok(oh) = OpeningHours::parse(&raw) else { continue };
            let oh = oh.with_context(ctx());
            if std::env::var("HUNT_VERBOSE").is_ok() {
                eprintln!("EXPR {raw} => first {:?}", first_non_closed(&oh, 1500));
            }
            let timer = std::time::Instant::now();
            let res = std::panic::catch_unwind(std::panic::AssertUnwindSafe(|| {
                let mut v = Vec::new();
                light_check(&raw, &oh, &mut v);
                light_check(&format!("normalized {raw}"), &oh.normalize(), &mut v);
                daily_check(&raw, &oh, dt(1899, 12, 25, 13, 0), dt(1903, 1, 1, 0, 0), &mut v);
                daily_check(&raw, &oh, dt(9997, 1, 1, 0, 0), dt(10_000, 1, 5, 0, 0), &mut v);
                v
            }));
            if timer.elapsed().as_secs() > 5 {
                eprintln!("SLOW {raw} {:?}", timer.elapsed());
            }

            match res {
                Ok(v) => violations.extend(v),
                Err(_) => violations.push(format!("[{raw}] PANIC")),
            }
        }

        report(violations);
    }
}

// ---------------------------------------------------------------------------------------------
// Round trip of instants through the local time of every time zone
// ---------------------------------------------------------------------------------------------

mod tz_scan {
    use super::*;
    use chrono::{Offset, TimeZone, Utc};
    use opening_hours::localization::TzLocation;

    /// Reported start = datetime(naive(from)): it must never be before `from`.
    #[test]
    fn explore_round_trip_never_goes_backward() {
        let mut backward = Vec::new();
        let mut forward_not_fold = 0u64;
        let first_day = d(1850, 1, 1);
        let days = if std::env::var("HUNT_FULL_TZ_SCAN").is_ok() { 73_000 } else { 0 };

        for tz in chrono_tz::TZ_VARIANTS {
            let locale = TzLocation::new(tz);
            let mut prev_offset = None;

            for i in 0..days {
                let day = first_day + Duration::days(i);
                let utc = day.and_hms_opt(0, 0, 0).unwrap();
                let offset = tz.offset_from_utc_datetime(&utc).fix().local_minus_utc();

                if prev_offset.is_some_and(|prev| prev != offset) {
                    // scan the previous and current day, minute by minute (with an odd second)
                    for m in -1440..1440 {
                        for s in [0, 29] {
                            let t = Utc
                                .from_utc_datetime(&(utc + Duration::minutes(m) + Duration::seconds(s)))
                                .with_timezone(&tz);
                            let back = locale.datetime(locale.naive(t));
                            if back < t {
                                backward.push(format!("{tz}: {t} -> {back}"));
                            } else if back > t {
                                forward_not_fold += 1;
                            }
                        }
                    }
                }

                prev_offset = Some(offset);
            }
        }

        eprintln!("forward: {forward_not_fold}");
        for b in backward.iter().take(50) {
            eprintln!("BACKWARD {b}");
        }
        assert!(backward.is_empty(), "{} instants go backward", backward.len());
    }
}

// ---------------------------------------------------------------------------------------------
// Sun events with coordinates
// ---------------------------------------------------------------------------------------------

mod coords {
    use super::*;
    use chrono::TimeZone;
    use opening_hours::localization::{Coordinates, TzLocation};

    #[test]
    fn explore_sun_events_around_bounds() {
        let mut violations = Vec::new();

        let all_coords = [(48.85, 2.35), (89.9, 0.0), (-89.9, 179.9), (66.6, -179.9), (0.0, 0.0), (78.2, 15.6)];
        let all_tz = [chrono_tz::Europe::Paris, chrono_tz::Pacific::Kiritimati, chrono_tz::Etc::GMTPlus12];
        let (coords, tzs) = if thorough() { (&all_coords[..], &all_tz[..]) } else { (&all_coords[..2], &all_tz[..2]) };

        for &(lat, lon) in coords {
            for &tz in tzs {
                let locale = TzLocation::new(tz).with_coords(Coordinates::new(lat, lon).unwrap());
                let ctx = Context::default().with_locale(locale.clone());

                for raw in [
                    "sunrise-sunset",
                    "dusk-dawn",
                    "sunset-sunrise",
                    "(sunset+04:59)-(sunrise-06:59)",
                    "(dusk+23:59)-(dawn+23:59)",
                    "(dawn-23:59)-(dusk+23:59)",
                    "dawn-48:00",
                    "sunset+",
                    "9999 Dec 31 dusk-dawn",
                    "1900 Jan 01 dawn-dusk",
                    "Su dusk-dawn",
                ] {
                    if !thorough()
                        && (raw.starts_with("9999")
                            || raw.starts_with("1900")
                            || raw.contains("48:00")
                            || raw.contains("23:59"))
                    {
                        continue; // scans the whole range, day by day, with sun computations
                    }

                    let oh = OpeningHours::parse(raw).unwrap().with_context(ctx.clone());
                    let abs_end = locale.datetime(DATE_END);
                    let abs_start = locale.datetime(date_start());

                    let res = std::panic::catch_unwind(std::panic::AssertUnwindSafe(|| {
                        let mut v = Vec::new();
                        for naive in [
                            dt(1789, 7, 14, 12, 0),
                            dt(1899, 12, 31, 0, 30),
                            dt(1899, 12, 31, 23, 59),
                            dt(1900, 1, 1, 0, 0),
                            dt(9999, 12, 30, 23, 0),
                            dt(9999, 12, 31, 23, 59),
                            dt(10_000, 1, 1, 0, 0),
                            dt(10_000, 1, 1, 3, 0),
                        ] {
                            let t = tz.from_local_datetime(&naive).earliest().unwrap();
                            let outside = naive < date_start() || naive >= DATE_END;
                            if outside && oh.state(t) != RuleKind::Closed {
                                v.push(format!("[{raw}] ({lat},{lon}) {tz} state({t})"));
                            }
                            let nc = oh.next_change(t);
                            if nc.is_some_and(|nc| nc >= abs_end || nc <= t) {
                                v.push(format!("[{raw}] ({lat},{lon}) {tz} next_change({t}) = {nc:?}"));
                            }
                            if naive < date_start() && nc.is_some_and(|nc| nc < abs_start) {
                                v.push(format!("[{raw}] ({lat},{lon}) {tz} next_change({t}) = {nc:?}"));
                            }
                            for itv in oh.iter_from(t).take(5) {
                                if itv.range.start < t || itv.range.end > abs_end {
                                    v.push(format!("[{raw}] ({lat},{lon}) {tz} iter_from({t}) {:?}", itv.range));
                                }
                                if itv.kind != RuleKind::Closed && itv.range.start < abs_start {
                                    v.push(format!("[{raw}] ({lat},{lon}) {tz} iter_from({t}) {:?} {:?}", itv.range, itv.kind));
                                }
                            }
                        }
                        v
                    }));

                    match res {
                        Ok(v) => violations.extend(v),
                        Err(_) => violations.push(format!("[{raw}] ({lat},{lon}) {tz} PANIC")),
                    }
                }
            }
        }

        report(violations);
    }
}

mod tz_bounds {
    use super::*;
    use chrono::{LocalResult, TimeZone};
    use opening_hours::localization::TzLocation;

    /// In every time zone, "24/7" must become open exactly at the first instant whose local time
    /// is 1900-01-01T00:00 or later, and nothing must be reported after the local upper bound.
    #[test]
    fn explore_every_time_zone_at_the_bounds() {
        let mut violations = Vec::new();

        for tz in chrono_tz::TZ_VARIANTS {
            let locale = TzLocation::new(tz);
            let oh = OpeningHours::parse("24/7")
                .unwrap()
                .with_context(Context::default().with_locale(locale.clone()));

            for bound in [date_start(), DATE_END] {
                if !matches!(tz.from_local_datetime(&bound), LocalResult::Single(_)) {
                    eprintln!("{tz}: {bound} is {:?}", tz.from_local_datetime(&bound));
                }
            }

            let start = tz.from_local_datetime(&date_start()).earliest().unwrap();
            let end = tz.from_local_datetime(&DATE_END).earliest().unwrap();

            for delta in [1, 30, 60, 3600, 86_400, 86_400 * 400] {
                let before = start - Duration::seconds(delta);
                let local = before.naive_local();

                if local < date_start() {
                    if oh.state(before) != RuleKind::Closed {
                        violations.push(format!("{tz}: state({before}) is not closed"));
                    }
                    if oh.next_change(before) != Some(start) {
                        violations.push(format!(
                            "{tz}: next_change({before}) = {:?}, expected {start}",
                            oh.next_change(before)
                        ));
                    }
                } else {
                    eprintln!("{tz}: {before} is before {start} but local time is not");
                }

                let after = end + Duration::seconds(delta - 1);
                if after.naive_local() >= DATE_END {
                    if oh.state(after) != RuleKind::Closed {
                        violations.push(format!("{tz}: state({after}) is not closed"));
                    }
                    if oh.next_change(after).is_some() {
                        violations.push(format!("{tz}: next_change({after}) is some"));
                    }
                }

                let before_end = end - Duration::seconds(delta);
                if oh.next_change(before_end).is_some() {
                    violations.push(format!(
                        "{tz}: next_change({before_end}) = {:?}",
                        oh.next_change(before_end)
                    ));
                }
                for itv in oh.iter_range(before_end, after) {
                    if itv.range.start < before_end || itv.range.end > end {
                        violations.push(format!("{tz}: iter_range({before_end}, {after}) -> {:?}", itv.range));
                    }
                }
            }
        }

        report(violations);
    }
}

// ---------------------------------------------------------------------------------------------
// Side finding, NOT a violation of the date range property (hence ignored): a range with a
// dated start and an undated easter end is open outside of its interval, and the hint used by
// the iterator disagrees with the daily schedule. Found by `explore_random_expressions` in the
// window 9997..10000 (`9999Dec 25-easter`).
// ---------------------------------------------------------------------------------------------

mod out_of_scope {
    use super::*;

    #[test]
    #[ignore = "side finding, outside of the date range property"]
    fn dated_start_with_easter_end_is_open_years_before() {
        let oh = OpeningHours::parse("2030Dec 25-easter").unwrap();
        assert_eq!(oh.state(dt(2024, 2, 1, 12, 0)), RuleKind::Closed);
    }
}
