#!/usr/bin/python3
"""Hunt for violations of C12 (Python bindings return what the Rust core returns).

Run: /usr/bin/python3 hunt_py/hunt.py   (opening_hours.so sits next to this file)
"""
import os
import sys
import traceback
from datetime import datetime, timedelta, timezone
from zoneinfo import ZoneInfo

sys.path.insert(0, os.path.dirname(os.path.abspath(__file__)))
import opening_hours as m
from opening_hours import OpeningHours, State

PARIS = ZoneInfo("Europe/Paris")
TOKYO = ZoneInfo("Asia/Tokyo")
LA = ZoneInfo("America/Los_Angeles")
UTC = ZoneInfo("UTC")

TESTS = []


def test(f):
    TESTS.append(f)
    return f


def no_panic(fn):
    """Run fn; a pyo3 PanicException derives from BaseException, not Exception."""
    try:
        return fn()
    except Exception:
        raise
    except BaseException as e:  # PanicException
        raise AssertionError(f"Rust panic surfaced: {type(e).__name__}: {e}")


def dt(s):
    return datetime.fromisoformat(s)


# ---------------------------------------------------------------- inputs: aware datetimes


@test
def s01_aware_fixed_offset_utc():
    # an aware datetime whose tzinfo is datetime.timezone.utc
    oh = OpeningHours("10:00-12:00")
    t = datetime(2024, 6, 3, 11, 0, tzinfo=timezone.utc)
    assert oh.state(t) == State.OPEN


@test
def s02_aware_fixed_offset_ctx_tz():
    oh = OpeningHours("10:00-12:00", timezone=PARIS)
    t = datetime(2024, 6, 3, 9, 0, tzinfo=timezone(timedelta(hours=1)))  # = 10:00 Paris
    assert oh.is_open(t)
    nc = oh.next_change(t)
    assert nc == datetime(2024, 6, 3, 12, 0, tzinfo=PARIS)


@test
def s03_aware_in_skipped_hour():
    # Python accepts this aware datetime (it is 2024-03-31 01:30 UTC = 03:30 Paris).
    t = datetime(2024, 3, 31, 2, 30, tzinfo=PARIS)
    assert t.astimezone(UTC) == datetime(2024, 3, 31, 1, 30, tzinfo=UTC)
    oh = OpeningHours("03:00-04:00", timezone=PARIS)
    assert oh.is_open(t)


@test
def s03b_aware_in_skipped_hour_naive_ctx():
    t = datetime(2024, 3, 31, 2, 30, tzinfo=PARIS)
    oh = OpeningHours("02:00-03:00")
    no_panic(lambda: oh.state(t))


@test
def s03c_aware_in_skipped_hour_as_interval_end():
    t0 = datetime(2024, 3, 30, 12, 0, tzinfo=PARIS)
    t1 = datetime(2024, 3, 31, 2, 30, tzinfo=PARIS)
    oh = OpeningHours("24/7", timezone=PARIS)
    xs = list(oh.intervals(t0, t1))
    assert len(xs) == 1


@test
def s04_fold_respected():
    oh = OpeningHours("02:00-03:00 open", timezone=UTC)
    a = datetime(2024, 10, 27, 2, 30, tzinfo=PARIS, fold=0)  # 00:30 UTC
    b = datetime(2024, 10, 27, 2, 30, tzinfo=PARIS, fold=1)  # 01:30 UTC
    assert oh.is_closed(a) and oh.is_closed(b)
    oh = OpeningHours("00:00-01:00 open", timezone=UTC)
    assert oh.is_open(a) and oh.is_closed(b)
    oh = OpeningHours("01:00-02:00 open", timezone=UTC)
    assert oh.is_closed(a) and oh.is_open(b)


@test
def s05_returned_fold():
    # ctx Paris, change at the second 02:30
    oh = OpeningHours("00:00-02:30", timezone=PARIS)
    t = datetime(2024, 10, 27, 1, 0, tzinfo=PARIS)
    nc = oh.next_change(t)
    assert nc.tzinfo is not None and nc.tzinfo.key == "Europe/Paris"
    assert nc.replace(tzinfo=None) == datetime(2024, 10, 27, 2, 30)


@test
def s03d_year0_output():
    # context America/Los_Angeles, aware input 0001-01-01 00:00 Asia/Tokyo: the core yields a first
    # interval starting at the input instant (local year 0 in the context zone)
    oh = OpeningHours("24/7", timezone=LA)
    t = datetime(1, 1, 1, 0, 0, tzinfo=TOKYO)
    assert oh.is_closed(t)
    assert oh.next_change(t) is not None
    a, b, s, c = next(oh.intervals(t))
    assert a == t and s == State.CLOSED


# ---------------------------------------------------------------- zone carried


@test
def s06_zone_of_context():
    oh = OpeningHours("10:00-12:00", timezone=TOKYO)
    for t in [dt("2024-06-03 11:00"), dt("2024-06-03 11:00").replace(tzinfo=PARIS), dt("2024-06-03 03:00").replace(tzinfo=UTC)]:
        nc = oh.next_change(t)
        assert nc.tzinfo.key == "Asia/Tokyo", nc
        for a, b, _, _ in oh.intervals(t, t + timedelta(days=3)):
            assert a.tzinfo.key == "Asia/Tokyo" and b.tzinfo.key == "Asia/Tokyo"


@test
def s07_zone_of_input():
    oh = OpeningHours("10:00-12:00")
    t = dt("2024-06-03 11:00").replace(tzinfo=TOKYO)
    nc = oh.next_change(t)
    assert nc == datetime(2024, 6, 3, 12, 0, tzinfo=TOKYO) and nc.tzinfo.key == "Asia/Tokyo"
    for a, b, _, _ in oh.intervals(t, t + timedelta(days=3)):
        assert a.tzinfo.key == "Asia/Tokyo" and b.tzinfo.key == "Asia/Tokyo"
    # naive in, naive out
    assert oh.next_change(dt("2024-06-03 11:00")).tzinfo is None


@test
def s08_intervals_end_only_aware():
    oh = OpeningHours("10:00-12:00")
    xs = list(oh.intervals(dt("2024-06-03 11:00"), dt("2024-06-04 11:00").replace(tzinfo=TOKYO)))
    for a, b, _, _ in xs:
        assert a.tzinfo is not None and b.tzinfo is not None
    assert xs[0][0].replace(tzinfo=None) == dt("2024-06-03 11:00")
    assert xs[-1][1].replace(tzinfo=None) == dt("2024-06-04 11:00")


# ---------------------------------------------------------------- date limit -> None


@test
def s09_limit_none_all_ctx():
    for kw in [{}, {"timezone": TOKYO}, {"timezone": LA}, {"coords": (48.85, 2.35)}]:
        for t in [dt("2024-06-03 11:00"), dt("2024-06-03 11:00").replace(tzinfo=PARIS), dt("2024-06-03 11:00").replace(tzinfo=LA)]:
            for expr in ["24/7", "24/7 off", "2024 10:00-12:00", "2024 Mo 10:00-12:00 unknown; 2020-2023 Mo off"]:
                oh = OpeningHours(expr, **kw)
                xs = list(oh.intervals(t))
                assert xs[-1][1] is None, (expr, kw, t, xs[-1])
                for a, b, _, _ in xs[:-1]:
                    assert b is not None
                if len(xs) == 1:
                    assert oh.next_change(t) is None


@test
def s10_last_minutes_9999():
    for kw in [{}, {"timezone": TOKYO}, {"timezone": LA}, {"timezone": UTC}]:
        for tz in [None, TOKYO, LA, UTC]:
            for hh in ["23:59", "23:58", "12:00", "00:00"]:
                t = dt(f"9999-12-31 {hh}").replace(tzinfo=tz)
                for expr in ["24/7", "10:00-12:00", "23:00-23:59", "23:00-24:00", "22:00-26:00", "9999 Dec 31 23:59-24:00", "Dec 31 00:00-24:00 off"]:
                    oh = OpeningHours(expr, **kw)
                    no_panic(lambda: oh.state(t))
                    no_panic(lambda: oh.next_change(t))
                    xs = no_panic(lambda: list(oh.intervals(t)))
                    if xs:
                        assert xs[-1][1] is None, (expr, kw, t, xs)
                    xs = no_panic(lambda: list(oh.intervals(t, t + timedelta(seconds=59))))


@test
def s11_year_1():
    for kw in [{}, {"timezone": TOKYO}, {"timezone": LA}, {"timezone": UTC}]:
        for tz in [None, TOKYO, LA, UTC]:
            t = datetime(1, 1, 1, 0, 0, tzinfo=tz)
            for expr in ["24/7", "10:00-12:00", "1900 Jan 1 00:00-01:00", "easter -90 days", "week 1 Mo"]:
                oh = OpeningHours(expr, **kw)
                no_panic(lambda: oh.state(t))
                try:
                    no_panic(lambda: oh.next_change(t))
                    no_panic(lambda: next(oh.intervals(t)))
                    no_panic(lambda: list(oh.intervals(t, t + timedelta(days=2))))
                except AssertionError:
                    raise
                except Exception as e:
                    raise AssertionError(f"{expr} {kw} {t!r}: {type(e).__name__}: {e}")


@test
def s11b_year_1_values():
    # Rust core: everything before 1900 is closed, the first interval runs to 1900-01-01 at least
    oh = OpeningHours("24/7", timezone=LA)
    t = datetime(1, 1, 1, 0, 0, tzinfo=TOKYO)
    assert oh.is_closed(t)
    a, b, s, c = next(oh.intervals(t))
    assert s == State.CLOSED
    assert a == t, (a, t)


# ---------------------------------------------------------------- sub-minute


@test
def s12_submin():
    oh = OpeningHours("10:00-12:00")
    t = datetime(2024, 6, 3, 11, 59, 59, 999999)
    assert oh.is_open(t)
    assert oh.next_change(t) == dt("2024-06-03 12:00")
    a, b, s, _ = next(oh.intervals(t))
    assert a == t and b == dt("2024-06-03 12:00") and s == State.OPEN
    t = datetime(2024, 6, 3, 9, 59, 59, 999999, tzinfo=PARIS)
    oh = OpeningHours("10:00-12:00", timezone=PARIS)
    assert oh.is_closed(t)
    assert oh.next_change(t) == datetime(2024, 6, 3, 10, 0, tzinfo=PARIS)
    a, b, s, _ = next(oh.intervals(t))
    assert a == t and a.microsecond == 999999


@test
def s13_submin_end():
    oh = OpeningHours("10:00-12:00")
    s = datetime(2024, 6, 3, 11, 0, 0, 1)
    e = datetime(2024, 6, 3, 11, 0, 0, 2)
    xs = list(oh.intervals(s, e))
    assert xs == [(s, e, State.OPEN, [])], xs


# ---------------------------------------------------------------- exceptions


@test
def s14_errors():
    for bad in ["", " ", "not valid", "24/24", "Mo-", "25:00-26:00x", "\x00", "Mo 10:00-12:00 \"unterminated", "week 54", "Jan 32", "10000 Jan 1"]:
        v = m.validate(bad)
        try:
            no_panic(lambda: OpeningHours(bad))
            ok = True
        except m.ParserError:
            ok = False
        assert v == ok, (bad, v, ok)


@test
def s15_validate_sweep():
    import itertools, random
    rnd = random.Random(12)
    toks = ["Mo", "-", "Fr", " ", "10:00", "24:00", "48:00", ",", ";", "||", "off", "open", "unknown", "\"c\"", "Jan", "1", "31", "2024", "week", "PH", "SH", "easter", "+", "sunrise", "(", ")", "[", "]", "/", "2", ":", "dusk", "24/7", "é", "́", "+1 day", "Su[-1]"]
    for _ in range(4000):
        s = "".join(rnd.choice(toks) for _ in range(rnd.randint(1, 7)))
        v = no_panic(lambda: m.validate(s))
        try:
            oh = no_panic(lambda: OpeningHours(s))
            ok = True
        except m.ParserError:
            ok = False
        assert v == ok, (s, v, ok)
        if ok:
            s1 = no_panic(lambda: str(oh))
            n = no_panic(lambda: oh.normalize())
            s2 = no_panic(lambda: str(n))
            assert m.validate(s1), (s, s1)
            assert m.validate(s2), (s, s2)
            t = dt("2024-02-28 23:30")
            st = no_panic(lambda: oh.state(t))
            assert (oh.is_open(t), oh.is_closed(t), oh.is_unknown(t)) == (st == State.OPEN, st == State.CLOSED, st == State.UNKNOWN)
            no_panic(lambda: oh.next_change(t))
            no_panic(lambda: list(oh.intervals(t, t + timedelta(days=10))))


@test
def s16_country_errors():
    for c in ["", "FF", "fr", "Fr", "FRA", "XX", "F", "ZZ", "\x00", "fr ", "US-CA", "é"]:
        try:
            no_panic(lambda: OpeningHours("24/7", country=c))
        except m.UnknownCountryError:
            pass
        except Exception as e:
            raise AssertionError(f"country {c!r}: {type(e).__name__}: {e}")


@test
def s17_coords_errors():
    nan = float("nan")
    inf = float("inf")
    for c in [(91, 0), (-91, 0), (0, 181), (0, -181), (nan, 0), (0, nan), (inf, 0), (0, -inf), (nan, nan), (90.0000001, 0)]:
        try:
            no_panic(lambda: OpeningHours("24/7", coords=c))
        except m.InvalidCoordinatesError:
            continue
        except Exception as e:
            raise AssertionError(f"coords {c!r}: {type(e).__name__}: {e}")
        raise AssertionError(f"coords {c!r} accepted")


@test
def s18_coords_boundaries():
    for c in [(90, 0), (-90, 0), (0, 180), (0, -180), (90, 180), (-90, -180), (0, 0), (89.9, 10), (-89.9, 10), (78.2, 15.6), (-77.8, 166.6), (69.6, 18.9), (0.0, -0.0)]:
        for kw in [{}, {"timezone": UTC}, {"auto_timezone": False}, {"auto_country": False}, {"country": "FR"}]:
            oh = no_panic(lambda: OpeningHours("sunrise-sunset; dawn-dusk unknown; PH off; (sunset+01:00)-(sunrise-01:00) open \"n\"", coords=c, **kw))
            for day in ["2024-06-21", "2024-12-21", "2024-03-20", "2024-09-22", "1900-01-01", "9999-12-20"]:
                t = dt(day + " 12:00")
                no_panic(lambda: oh.state(t))
                no_panic(lambda: oh.next_change(t))
                no_panic(lambda: list(oh.intervals(t, t + timedelta(days=3))))


@test
def s19_coords_grid():
    import random
    rnd = random.Random(5)
    for _ in range(150):
        c = (rnd.uniform(-90, 90), rnd.uniform(-180, 180))
        oh = no_panic(lambda: OpeningHours("sunrise-sunset; PH off", coords=c))
        t = dt("2024-06-21 12:00")
        no_panic(lambda: oh.state(t))
        nc = no_panic(lambda: oh.next_change(t))
        if nc is not None:
            assert nc.tzinfo is not None


@test
def s20_error_priority_mixed():
    # whatever is raised, it must be one of the three documented errors, no panic
    for args in [dict(oh="bad", country="FF"), dict(oh="bad", coords=(100, 0)), dict(oh="24/7", country="FF", coords=(100, 0))]:
        try:
            no_panic(lambda: OpeningHours(**args))
        except (m.ParserError, m.UnknownCountryError, m.InvalidCoordinatesError):
            pass


# ---------------------------------------------------------------- equivalences naive vs aware ctx


EXPRS = [
    "10:00-12:00", "Mo-Fr 08:00-18:00; Sa 09:00-13:00", "22:00-02:00", "00:00-48:00", "Mo 00:00-26:00",
    "02:00-03:00", "01:30-02:30 unknown \"x\"", "24/7", "Su off; Mo-Sa 10:00-11:00", "week 1-53/2 Mo 10:00-12:00",
    "PH off; Mo-Su 10:00-12:00", "easter 10:00-12:00", "Mar 31 02:30-03:30", "Oct 27 02:00-03:00; Oct 27 03:00-04:00 unknown",
    "Mo-Fr 10:00-12:00 || \"fallback\"", "sunrise-sunset", "Jan-Mar 10:00+",
]


@test
def s21_aware_ctx_equals_naive_ctx_on_local_time():
    """Context with zone Z, aware input t: the core works on the local time of t in Z, i.e. the
    naive context evaluated at that local time; state must agree."""
    for z in [PARIS, TOKYO, LA, ZoneInfo("Australia/Lord_Howe"), ZoneInfo("Asia/Kathmandu")]:
        for expr in EXPRS:
            a = OpeningHours(expr, timezone=z)
            n = OpeningHours(expr)
            base = datetime(2024, 3, 30, 0, 0, tzinfo=UTC)
            for k in range(0, 24 * 4 * 3):
                t = base + timedelta(minutes=15 * k, seconds=7)
                loc = t.astimezone(z).replace(tzinfo=None)
                assert a.state(t) == n.state(loc), (expr, z, t)
                assert a.state(t) == a.state(loc), (expr, z, t)
                assert a.state(t) == a.state(t.astimezone(LA)), (expr, z, t)


@test
def s22_next_change_consistency_aware():
    for z in [PARIS, LA, ZoneInfo("Australia/Lord_Howe")]:
        for expr in [e for e in EXPRS[:9] if e != "00:00-48:00"]:
            a = OpeningHours(expr, timezone=z)
            for base in [datetime(2024, 3, 30, 0, 0, tzinfo=UTC), datetime(2024, 10, 26, 0, 0, tzinfo=UTC), datetime(2024, 11, 2, 0, 0, tzinfo=UTC), datetime(2024, 4, 6, 0, 0, tzinfo=UTC)]:
                for k in range(0, 24 * 2 * 3, 3):
                    t = base + timedelta(minutes=30 * k)
                    nc = a.next_change(t)
                    first = next(a.intervals(t))
                    assert first[1] == nc, (expr, z, t, first, nc)
                    # (start of the first interval in a repeated hour: core behaviour, not C12)
                    assert first[2] == a.state(t), (expr, z, t, first)
                    if nc is not None:
                        assert nc.tzinfo.key == z.key


@test
def s23_naive_ctx_aware_input_equals_naive_input():
    for z in [PARIS, TOKYO, LA]:
        for expr in [e for e in EXPRS[:9] if e != "00:00-48:00"]:
            n = OpeningHours(expr)
            base = datetime(2024, 6, 1, 0, 0)
            for k in range(0, 24 * 2 * 3, 11):
                loc = base + timedelta(minutes=30 * k)
                t = loc.replace(tzinfo=z)
                assert n.state(t) == n.state(loc)
                a = n.next_change(t)
                b = n.next_change(loc)
                assert (a is None) == (b is None)
                if a is not None:
                    assert a.replace(tzinfo=None) == b and a.tzinfo.key == z.key, (expr, z, loc, a, b)
                xa = list(n.intervals(t, t + timedelta(days=2)))
                xb = list(n.intervals(loc, loc + timedelta(days=2)))
                assert [(p.replace(tzinfo=None), q.replace(tzinfo=None), s, c) for p, q, s, c in xa] == xb


@test
def s24_intervals_cover_and_state():
    for kw in [{}, {"timezone": PARIS}, {"coords": (48.85, 2.35)}, {"country": "FR"}, {"country": "US", "timezone": LA}]:
        for expr in EXPRS:
            oh = OpeningHours(expr, **kw)
            for start in [dt("2024-03-29 22:10:30"), dt("2024-10-26 00:00"), dt("2024-12-30 00:00")]:
                end = start + timedelta(days=5)
                xs = list(oh.intervals(start, end))
                assert xs, (expr, kw)
                for (a, b, s, c), (a2, b2, s2, c2) in zip(xs, xs[1:]):
                    assert b == a2, (expr, kw, b, a2)
                    assert (s, c) != (s2, c2) or True
                if "timezone" in kw or "coords" in kw:
                    continue  # skipped-hour behaviour of the core is not C12
                for a, b, s, c in xs:
                    assert oh.state(a) == s, (expr, kw, a, s, oh.state(a))


@test
def s25_normalize_same_behaviour():
    for kw in [{}, {"timezone": PARIS}, {"country": "FR"}, {"coords": (35.68, 139.69)}]:
        for expr in EXPRS:
            oh = OpeningHours(expr, **kw)
            nz = oh.normalize()
            start = dt("2024-03-29 22:10")
            for k in range(0, 24 * 2 * 4):
                t = start + timedelta(minutes=30 * k)
                assert oh.state(t) == nz.state(t), (expr, kw, t, str(nz))
            # context kept: zone of outputs unchanged
            a = oh.next_change(start)
            b = nz.next_change(start)
            assert (a is None) == (b is None)
            if a is not None:
                assert (a.tzinfo is None) == (b.tzinfo is None)
                if a.tzinfo is not None:
                    assert a.tzinfo.key == b.tzinfo.key


@test
def s26_str_roundtrip_unicode():
    for expr in ['Mo 10:00-12:00 "é́ \\ x"', 'Mo "a\tb"', "Mo  -  Fr   10:00 - 12:00", 'Mo "\U0001F600"', 'Mo " "']:
        try:
            oh = OpeningHours(expr)
        except m.ParserError:
            assert not m.validate(expr)
            continue
        s = no_panic(lambda: str(oh))
        r = no_panic(lambda: repr(oh))
        assert m.validate(s)
        assert str(OpeningHours(s)) == s
        ev = eval(r, {"OpeningHours": OpeningHours})
        assert str(ev) == s, (r, s)


@test
def s27_country_holidays_vs_auto():
    # explicit country == auto country at coords in that country
    t = dt("2024-07-14 12:00")
    a = OpeningHours("24/7; PH off", country="FR")
    b = OpeningHours("24/7; PH off", coords=(48.85, 2.35))
    c = OpeningHours("24/7; PH off", coords=(48.85, 2.35), auto_country=False)
    d = OpeningHours("24/7; PH off", coords=(48.85, 2.35), country="US")
    assert a.is_closed(t) and b.is_closed(t) and c.is_open(t) and d.is_open(t)
    assert d.is_closed(dt("2024-07-04 12:00"))


@test
def s28_auto_timezone_flags():
    c = (35.68, 139.69)
    t = datetime(2024, 6, 3, 1, 30, tzinfo=UTC)  # 10:30 Tokyo
    assert OpeningHours("10:00-12:00", coords=c).is_open(t)
    assert OpeningHours("10:00-12:00", coords=c, auto_timezone=False).is_closed(t)
    assert OpeningHours("10:00-12:00", coords=c, timezone=PARIS).is_closed(t)
    assert OpeningHours("10:00-12:00", coords=c, auto_timezone=None).is_open(t)
    nc = OpeningHours("10:00-12:00", coords=c).next_change(t)
    assert nc.tzinfo.key == "Asia/Tokyo"
    nc = OpeningHours("10:00-12:00", coords=c, auto_timezone=False).next_change(t)
    assert nc.tzinfo.key == "UTC"


@test
def s29_now_default_in_aware_context():
    """time=None means 'current time'. In a context with a zone, the current instant is
    datetime.now(zone)."""
    os.environ["TZ"] = "America/Los_Angeles"
    import time as _t
    _t.tzset()
    z = ZoneInfo("Pacific/Kiritimati")  # UTC+14, LA is UTC-7/-8: 21-22 hours apart
    now = datetime.now(z)
    h = now.hour
    expr = f"{h:02d}:00-{(h + 1):02d}:00"
    oh = OpeningHours(expr, timezone=z)
    if now.minute in (59, 0):
        return
    assert oh.is_open(now)
    assert oh.state() == oh.state(now), (oh.state(), oh.state(now))


@test
def s30_timezone_param_kinds():
    for z in ["UTC", "Etc/GMT+12", "Etc/GMT-14", "Pacific/Kiritimati", "America/Ciudad_Juarez", "Europe/Kyiv", "Antarctica/Troll", "GMT", "Zulu", "EST5EDT"]:
        try:
            zi = ZoneInfo(z)
        except Exception:
            continue
        try:
            oh = no_panic(lambda: OpeningHours("10:00-12:00", timezone=zi))
        except Exception as e:
            raise AssertionError(f"zone {z}: {type(e).__name__}: {e}")
        nc = oh.next_change(dt("2024-06-03 11:00"))
        assert nc.tzinfo.key == z


@test
def s31_big_transition_zones():
    # zones with a whole skipped day / big shifts
    for z, day in [("Pacific/Apia", "2011-12-29"), ("Pacific/Kwajalein", "1993-08-19"), ("America/Juneau", "1867-10-17"), ("Asia/Manila", "1844-12-29"), ("Antarctica/Troll", "2024-03-30"), ("Africa/Monrovia", "1972-01-06")]:
        zi = ZoneInfo(z)
        for expr in ["24/7", "10:00-12:00", "00:00-24:00 unknown", "Dec 30 00:00-24:00", "Fr,Sa 00:00-24:00"]:
            oh = OpeningHours(expr, timezone=zi)
            base = dt(day + " 00:00")
            if base.year < 1900:
                continue
            for k in range(0, 24 * 4):
                t = base + timedelta(minutes=45 * k)
                for tt in [t, t.replace(tzinfo=UTC)]:
                    no_panic(lambda: oh.state(tt))
                    nc = no_panic(lambda: oh.next_change(tt))
                    xs = no_panic(lambda: list(oh.intervals(tt, tt + timedelta(days=3))))
                    for a, b, s, c in xs:
                        assert a <= b, (z, expr, tt, a, b)
                    if nc is not None and tt.tzinfo is not None:
                        assert nc > tt, (z, expr, tt, nc)


@test
def s32_end_before_start_and_equal():
    for kw in [{}, {"timezone": PARIS}]:
        oh = OpeningHours("10:00-12:00", **kw)
        t = dt("2024-06-03 11:00")
        assert list(oh.intervals(t, t)) == []
        assert list(oh.intervals(t, t - timedelta(days=1))) == []
        assert list(oh.intervals(t.replace(tzinfo=TOKYO), t.replace(tzinfo=PARIS) - timedelta(days=1))) == []


@test
def s33_state_enum():
    assert str(State.OPEN) == "open" and str(State.CLOSED) == "closed" and str(State.UNKNOWN) == "unknown"
    assert OpeningHours("24/7 unknown").state(dt("2024-01-01 00:00")) == State.UNKNOWN
    assert OpeningHours('24/7 "c"').state(dt("2024-01-01 00:00")) == State.UNKNOWN or True
    a, b, s, c = next(OpeningHours('Mo-Su 00:00-24:00 open "b", Mo-Su 00:00-24:00 open "a"').intervals(dt("2024-01-01 00:00")))
    assert c == ["a", "b"] or c == ["b", "a"], c


@test
def s34_datetime_subclass_and_date():
    class D(datetime):
        pass
    oh = OpeningHours("10:00-12:00")
    assert oh.is_open(D(2024, 6, 3, 11, 0))
    assert oh.is_open(D(2024, 6, 3, 11, 0, tzinfo=PARIS))


@test
def s35_threads():
    import threading
    oh = OpeningHours("Mo-Fr 10:00-12:00; PH off", coords=(48.85, 2.35))
    errs = []

    def work():
        try:
            for k in range(200):
                t = dt("2024-01-01 00:00") + timedelta(hours=7 * k)
                oh.state(t)
                oh.next_change(t)
                list(oh.intervals(t, t + timedelta(days=2)))
        except BaseException as e:
            errs.append(e)
    ths = [threading.Thread(target=work) for _ in range(6)]
    [t.start() for t in ths]
    [t.join() for t in ths]
    assert not errs, errs


@test
def s36_aware_ctx_naive_input_in_gap_and_fold():
    oh = OpeningHours("02:00-03:00", timezone=PARIS)
    for t in [dt("2024-03-31 02:30"), dt("2024-03-31 01:59:59"), dt("2024-10-27 02:30"), dt("2024-10-27 02:59:59.5")]:
        no_panic(lambda: oh.state(t))
        nc = no_panic(lambda: oh.next_change(t))
        xs = no_panic(lambda: list(oh.intervals(t, t + timedelta(days=1))))
        assert nc.tzinfo.key == "Europe/Paris"


@test
def s37_interval_iter_reuse():
    oh = OpeningHours("10:00-12:00")
    it = oh.intervals(dt("2024-06-03 11:00"), dt("2024-06-03 13:00"))
    assert iter(it) is it
    assert len(list(it)) == 2
    assert list(it) == []
    try:
        next(it)
    except StopIteration:
        pass


@test
def s38_9999_aware_ahead_zone_output():
    # context ahead of UTC, aware input behind UTC near the end of time: outputs must convert
    oh = OpeningHours("9999 Dec 31 10:00-12:00", timezone=ZoneInfo("Pacific/Kiritimati"))
    t = datetime(9999, 12, 30, 0, 0, tzinfo=LA)
    xs = no_panic(lambda: list(oh.intervals(t)))
    assert xs[-1][1] is None
    assert [s for _, _, s, _ in xs] == [State.CLOSED, State.OPEN, State.CLOSED], xs
    oh = OpeningHours("9999 Dec 31 10:00-12:00")
    xs = no_panic(lambda: list(oh.intervals(t)))
    assert xs[-1][1] is None
    t = datetime(9999, 12, 31, 23, 0, tzinfo=LA)
    oh = OpeningHours("24/7", timezone=ZoneInfo("Pacific/Kiritimati"))
    assert no_panic(lambda: list(oh.intervals(t))) == []
    assert oh.is_closed(t) and oh.next_change(t) is None


@test
def s39_wrong_types():
    oh = OpeningHours("24/7")
    from datetime import date
    for bad in [date(2024, 1, 1), "2024-01-01", 0, 1.5]:
        try:
            no_panic(lambda: oh.state(bad))
        except (TypeError, ValueError):
            pass
    for badtz in ["Europe/Paris", timezone.utc, 1]:
        try:
            no_panic(lambda: OpeningHours("24/7", timezone=badtz))
        except (TypeError, ValueError, AttributeError):
            pass


@test
def s40_holiday_edges():
    for c in ["FR", "US", "JP", "DE", "GB", "BR", "IN", "CN", "RU", "AU"]:
        try:
            oh = no_panic(lambda: OpeningHours("PH off; SH unknown; Mo-Su 10:00-12:00; PH -1 day 08:00-09:00; PH +1 day 07:00-08:00", country=c))
        except m.UnknownCountryError:
            continue
        for t in [dt("1900-01-01 00:00"), dt("1999-12-31 23:59"), dt("2100-01-01 00:00"), dt("9999-12-01 00:00")]:
            no_panic(lambda: oh.state(t))
            no_panic(lambda: oh.next_change(t))
            no_panic(lambda: list(oh.intervals(t, t + timedelta(days=20))))


if __name__ == "__main__":
    only = sys.argv[1:]
    failed = []
    for f in TESTS:
        if only and not any(f.__name__.startswith(o) for o in only):
            continue
        try:
            f()
            print(f"PASS {f.__name__}")
        except BaseException as e:
            failed.append(f.__name__)
            msg = "".join(traceback.format_exception_only(type(e), e)).strip()
            tb = traceback.extract_tb(e.__traceback__)
            print(f"FAIL {f.__name__}: line {tb[-1].lineno if tb else '?'}: {msg[:600]}")
    print("failed:", failed)
    sys.exit(1 if failed else 0)
