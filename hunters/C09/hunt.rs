#![allow(dead_code)]
use chrono::{DateTime, Duration, NaiveDate, NaiveDateTime, Offset, TimeZone, Utc};
use chrono_tz::Tz;
use opening_hours::localization::TzLocation;
use opening_hours::{Context, OpeningHours, RuleKind};

// ---------------------------------------------------------------------------
// Reference model of a zone, built only from `offset_from_utc_datetime`.
// ---------------------------------------------------------------------------

#[derive(Debug, Clone)]
struct Trans {
    at: i64,     // utc timestamp of the first second with the new offset
    before: i64, // offset before (seconds)
    after: i64,  // offset after (seconds)
}

struct Model {
    tz: Tz,
    first_off: i64,
    trans: Vec<Trans>,
}

fn off_at(tz: Tz, ts: i64) -> i64 {
    let dt = DateTime::<Utc>::from_timestamp(ts, 0).unwrap().naive_utc();
    tz.offset_from_utc_datetime(&dt).fix().local_minus_utc() as i64
}

fn ts(y: i32, m: u32, d: u32) -> i64 {
    NaiveDate::from_ymd_opt(y, m, d)
        .unwrap()
        .and_hms_opt(0, 0, 0)
        .unwrap()
        .and_utc()
        .timestamp()
}

impl Model {
    fn build(tz: Tz, from: i64, to: i64, step: i64) -> Self {
        let mut trans = Vec::new();
        let first_off = off_at(tz, from);
        let mut prev_ts = from;
        let mut prev_off = first_off;
        let mut cur = from + step;
        while cur <= to {
            let o = off_at(tz, cur);
            if o != prev_off {
                // bisect (possibly several transitions inside: recurse by scanning finer)
                Self::refine(tz, prev_ts, prev_off, cur, o, &mut trans);
            }
            prev_ts = cur;
            prev_off = o;
            cur += step;
        }
        Self { tz, first_off, trans }
    }

    fn refine(tz: Tz, lo: i64, lo_off: i64, hi: i64, hi_off: i64, out: &mut Vec<Trans>) {
        // invariant: off(lo)=lo_off != off(hi)=hi_off ; find all transitions in (lo, hi]
        if hi - lo == 1 {
            out.push(Trans { at: hi, before: lo_off, after: hi_off });
            return;
        }
        let mid = lo + (hi - lo) / 2;
        let mid_off = off_at(tz, mid);
        if mid_off != lo_off {
            Self::refine(tz, lo, lo_off, mid, mid_off, out);
        }
        if mid_off != hi_off {
            Self::refine(tz, mid, mid_off, hi, hi_off, out);
        }
    }

    fn off(&self, ts: i64) -> i64 {
        let idx = self.trans.partition_point(|t| t.at <= ts);
        if idx == 0 {
            self.first_off
        } else {
            self.trans[idx - 1].after
        }
    }

    /// Expected instant (utc ts) for a naive local time given as a "local timestamp".
    fn expected(&self, local: i64) -> i64 {
        let mut cands: Vec<i64> = vec![self.first_off];
        for t in &self.trans {
            if (t.at - local).abs() < 4 * 86400 {
                cands.push(t.before);
                cands.push(t.after);
            }
        }
        // also the offset in force around
        cands.push(self.off(local - 2 * 86400));
        cands.push(self.off(local + 2 * 86400));
        cands.sort();
        cands.dedup();
        let pre: Vec<i64> = cands
            .iter()
            .map(|o| local - o)
            .filter(|u| self.off(*u) + u == local)
            .collect();
        if let Some(m) = pre.iter().max() {
            return *m;
        }
        // gap: the transition whose skipped range contains local
        let gaps: Vec<&Trans> = self
            .trans
            .iter()
            .filter(|t| t.after > t.before && t.at + t.before <= local && local < t.at + t.after)
            .collect();
        assert!(!gaps.is_empty(), "no preimage and no gap for local {local} in {}", self.tz);
        gaps.iter().map(|t| t.at).min().unwrap()
    }
}

fn local_ts(n: NaiveDateTime) -> i64 {
    n.and_utc().timestamp()
}

fn naive_of(local: i64) -> NaiveDateTime {
    DateTime::<Utc>::from_timestamp(local, 0).unwrap().naive_utc()
}

/// Differential check of iter_range for one (expr, zone, window, input zone).
/// Returns a description of the first violation.
fn diff_iter_range(
    model: &Model,
    expr: &str,
    from_utc: i64,
    to_utc: i64,
    input_tz: Tz,
) -> Result<(), String> {
    let tz = model.tz;
    let oh = OpeningHours::parse(expr).map_err(|e| format!("parse {expr}: {e}"))?;
    let oh_tz = oh
        .clone()
        .with_context(Context::default().with_locale(TzLocation::new(tz)));

    let from_local = naive_of(from_utc + model.off(from_utc));
    let to_local = naive_of(to_utc + model.off(to_utc));
    let from_in = DateTime::<Utc>::from_timestamp(from_utc, 0)
        .unwrap()
        .with_timezone(&input_tz);
    let to_in = DateTime::<Utc>::from_timestamp(to_utc, 0)
        .unwrap()
        .with_timezone(&input_tz);

    let naive: Vec<_> = oh.iter_range(from_local, to_local).collect();
    let zoned: Vec<_> = oh_tz.iter_range(from_in, to_in).collect();

    if naive.len() != zoned.len() {
        return Err(format!(
            "{tz} `{expr}` from {from_in} to {to_in}: {} naive intervals vs {} zoned",
            naive.len(),
            zoned.len()
        ));
    }

    let mut last: Option<DateTime<Tz>> = None;
    for (n, z) in naive.iter().zip(zoned.iter()) {
        if n.kind != z.kind || n.comments != z.comments {
            return Err(format!("{tz} `{expr}`: kind/comment mismatch {n:?} vs {z:?}"));
        }
        for (nb, zb) in [(n.range.start, &z.range.start), (n.range.end, &z.range.end)] {
            if zb.timezone() != tz {
                return Err(format!("{tz} `{expr}`: bound {zb} not in the context zone"));
            }
            let exp = model.expected(local_ts(nb));
            if zb.timestamp() != exp || zb.timestamp_subsec_nanos() != 0 {
                return Err(format!(
                    "{tz} `{expr}` from {from_in} to {to_in}: naive bound {nb} mapped to {zb} (utc {}), expected utc {}",
                    zb.naive_utc(),
                    naive_of(exp)
                ));
            }
            if let Some(l) = &last {
                if zb < l {
                    return Err(format!(
                        "{tz} `{expr}` from {from_in} to {to_in}: bound {zb} goes backwards after {l}"
                    ));
                }
            }
            last = Some(zb.clone());
        }
    }

    // state at from, next_change from `from`
    let st_n = oh.state(from_local);
    let st_z = oh_tz.state(from_in);
    if st_n != st_z {
        return Err(format!("{tz} `{expr}` state at {from_in}: {st_z:?} vs naive {st_n:?}"));
    }
    let nc_n = oh.next_change(from_local);
    let nc_z = oh_tz.next_change(from_in);
    match (nc_n, nc_z) {
        (None, None) => {}
        (Some(n), Some(z)) => {
            let exp = model.expected(local_ts(n));
            if z.timestamp() != exp {
                return Err(format!(
                    "{tz} `{expr}` next_change({from_in}) = {z}, naive {n}, expected utc {}",
                    naive_of(exp)
                ));
            }
            if z < from_in {
                return Err(format!(
                    "{tz} `{expr}` next_change({from_in}) = {z} is before the input"
                ));
            }
        }
        (n, z) => {
            return Err(format!("{tz} `{expr}` next_change({from_in}) = {z:?}, naive {n:?}"));
        }
    }
    Ok(())
}

fn hhmm(secs_of_day: i64) -> String {
    let m = secs_of_day.rem_euclid(86400) / 60;
    format!("{:02}:{:02}", m / 60, m % 60)
}

const INPUT_ZONES: [Tz; 5] = [
    chrono_tz::UTC,
    chrono_tz::Pacific::Kiritimati,
    chrono_tz::Pacific::Niue,
    chrono_tz::Asia::Kathmandu,
    chrono_tz::Australia::Lord_Howe,
];

fn sweep_zone(tz: Tz, y_from: i32, y_to: i32, errors: &mut Vec<String>) -> usize {
    let model = Model::build(tz, ts(y_from, 1, 1), ts(y_to, 1, 1), 86400 / 2);
    let mut n = 0;
    for (i, t) in model.trans.iter().enumerate() {
        let wb = t.at + t.before;
        let wa = t.at + t.after;
        let (lo, hi) = (wb.min(wa), wb.max(wa));
        let fl = |x: i64| x.div_euclid(60) * 60;
        let mut targets = vec![
            fl(lo) - 60,
            fl(lo),
            fl(lo) + 60,
            fl((lo + hi) / 2),
            fl(hi) - 60,
            fl(hi),
            fl(hi) + 60,
        ];
        targets.sort();
        targets.dedup();
        for (k, tgt) in targets.iter().enumerate() {
            let start = hhmm(*tgt);
            let end_secs = (tgt.rem_euclid(86400)) + 60;
            let end = format!("{:02}:{:02}", end_secs / 3600, (end_secs % 3600) / 60);
            let expr = format!("{start}-{end}");
            let input = INPUT_ZONES[(i + k) % INPUT_ZONES.len()];
            let span = (hi - lo).max(3600) + 86400;
            n += 1;
            if let Err(e) = diff_iter_range(&model, &expr, t.at - span, t.at + span, input) {
                if errors.len() < 40 {
                    errors.push(e);
                }
            }
            // a window that starts/ends inside the transition area
            let a = t.at - (hi - lo) / 2 - 30;
            let b = t.at + (hi - lo) / 2 + 90;
            if let Err(e) = diff_iter_range(&model, &expr, a, b, input) {
                if errors.len() < 40 {
                    errors.push(e);
                }
            }
        }
    }
    n
}

#[test]
fn sweep_selected_zones() {
    let zones = [
        chrono_tz::Europe::Paris,
        chrono_tz::Europe::Amsterdam,
        chrono_tz::Europe::Dublin,
        chrono_tz::Europe::London,
        chrono_tz::Australia::Lord_Howe,
        chrono_tz::Pacific::Apia,
        chrono_tz::Pacific::Kwajalein,
        chrono_tz::Pacific::Kiritimati,
        chrono_tz::Pacific::Tongatapu,
        chrono_tz::America::St_Johns,
        chrono_tz::America::Sao_Paulo,
        chrono_tz::America::Havana,
        chrono_tz::Asia::Tehran,
        chrono_tz::Asia::Kathmandu,
        chrono_tz::Asia::Manila,
        chrono_tz::Africa::Casablanca,
        chrono_tz::Africa::Monrovia,
        chrono_tz::Antarctica::Troll,
        chrono_tz::Antarctica::Casey,
        chrono_tz::America::Caracas,
        chrono_tz::Asia::Pyongyang,
    ];
    let mut errors = Vec::new();
    let mut n = 0;
    for tz in zones {
        n += sweep_zone(tz, 1899, 2040, &mut errors);
    }
    eprintln!("checked {n} (transition,target) pairs");
    assert!(errors.is_empty(), "violations:\n{}", errors.join("\n"));
}

#[test]
#[ignore]
fn sweep_all_zones() {
    let mut errors = Vec::new();
    let mut n = 0;
    for tz in chrono_tz::TZ_VARIANTS {
        n += sweep_zone(tz, 1899, 2040, &mut errors);
    }
    eprintln!("checked {n} (transition,target) pairs");
    assert!(errors.is_empty(), "violations:\n{}", errors.join("\n"));
}

#[test]
fn smoke() {
    let tz = chrono_tz::Europe::Paris;
    let oh = OpeningHours::parse("10:00-18:00")
        .unwrap()
        .with_context(Context::default().with_locale(TzLocation::new(tz)));
    let t = tz.with_ymd_and_hms(2024, 12, 23, 14, 44, 0).unwrap();
    assert_eq!(oh.state(t), RuleKind::Open);
    let _ = Duration::minutes(1);
}

// ---------------------------------------------------------------------------
// Targeted ideas
// ---------------------------------------------------------------------------

fn tz_oh(expr: &str, tz: Tz) -> OpeningHours<TzLocation<Tz>> {
    OpeningHours::parse(expr)
        .unwrap()
        .with_context(Context::default().with_locale(TzLocation::new(tz)))
}

/// Idea: leap-second instants (chrono represents 23:59:60 as sec=59, nanos>=1e9).
/// `TzLocation::naive` adds the offset as a TimeDelta, which "escapes" the leap second,
/// whereas the wall-clock time (`naive_local`) keeps it.
#[test]
fn leap_second_instant_negative_offset_state() {
    use chrono::NaiveTime;
    let tz = chrono_tz::America::New_York;
    // 2016-12-31 23:59:60 UTC is a real leap second; in New York it is 18:59:60 (-05:00).
    let leap_utc = NaiveDate::from_ymd_opt(2016, 12, 31)
        .unwrap()
        .and_time(NaiveTime::from_hms_milli_opt(23, 59, 59, 1_000).unwrap())
        .and_utc();
    let inst = leap_utc.with_timezone(&tz);
    let wall = inst.naive_local();
    assert_eq!(wall.to_string(), "2016-12-31 18:59:60");

    let expr = "10:00-19:00";
    let naive_state = OpeningHours::parse(expr).unwrap().state(wall);
    let zoned_state = tz_oh(expr, tz).state(inst);
    assert_eq!(naive_state, RuleKind::Open);
    assert_eq!(
        zoned_state, naive_state,
        "state at {inst} (wall clock {wall}) differs from the naive evaluation"
    );
}

#[test]
fn leap_second_instant_negative_offset_next_change() {
    use chrono::NaiveTime;
    let tz = chrono_tz::America::New_York;
    let leap_utc = NaiveDate::from_ymd_opt(2016, 12, 31)
        .unwrap()
        .and_time(NaiveTime::from_hms_milli_opt(23, 59, 59, 1_000).unwrap())
        .and_utc();
    let inst = leap_utc.with_timezone(&tz);
    let wall = inst.naive_local();
    let expr = "10:00-19:00";
    let naive_nc = OpeningHours::parse(expr).unwrap().next_change(wall).unwrap();
    let zoned_nc = tz_oh(expr, tz).next_change(inst).unwrap();
    assert_eq!(naive_nc.to_string(), "2016-12-31 19:00:00");
    assert_eq!(zoned_nc.naive_local(), naive_nc, "next_change({inst})");
}

#[test]
fn leap_second_instant_positive_offset_start_bound() {
    use chrono::NaiveTime;
    let tz = chrono_tz::Europe::Paris;
    let leap_utc = NaiveDate::from_ymd_opt(2016, 12, 31)
        .unwrap()
        .and_time(NaiveTime::from_hms_milli_opt(23, 59, 59, 1_500).unwrap())
        .and_utc();
    let inst = leap_utc.with_timezone(&tz);
    let wall = inst.naive_local();
    let to = inst.clone() + Duration::hours(2);
    let expr = "24/7";
    let naive_first = OpeningHours::parse(expr)
        .unwrap()
        .iter_range(wall, to.naive_local())
        .next()
        .unwrap();
    let zoned_first = tz_oh(expr, tz).iter_range(inst.clone(), to).next().unwrap();
    assert_eq!(naive_first.range.start, wall);
    assert_eq!(
        zoned_first.range.start.naive_local(),
        naive_first.range.start,
        "start bound for from={inst}"
    );
    assert!(zoned_first.range.start >= inst, "start {} before from {inst}", zoned_first.range.start);
}

// ---------------------------------------------------------------------------
// chrono::Local as the context zone (system IANA zone selected through $TZ)
// ---------------------------------------------------------------------------

static ENV_LOCK: std::sync::Mutex<()> = std::sync::Mutex::new(());

fn with_local_tz<R>(name: &str, f: impl FnOnce() -> R) -> R {
    let _guard = ENV_LOCK.lock().unwrap_or_else(|e| e.into_inner());
    std::env::set_var("TZ", name);
    // chrono re-reads $TZ at most once per second
    std::thread::sleep(std::time::Duration::from_millis(1100));
    let r = f();
    r
}

fn local_oh(expr: &str) -> OpeningHours<TzLocation<chrono::Local>> {
    OpeningHours::parse(expr)
        .unwrap()
        .with_context(Context::default().with_locale(TzLocation::new(chrono::Local)))
}

/// Idea: context zone = chrono::Local with TZ=Europe/Paris. Naive result inside the fold
/// must map to the LATER instant.
#[test]
fn local_zone_fold_maps_to_later_instant() {
    with_local_tz("Europe/Paris", || {
        let oh = local_oh("10:00-26:30");
        // 2024-10-26 14:44 CEST = 12:44 UTC
        let from = Utc.with_ymd_and_hms(2024, 10, 26, 12, 44, 0).unwrap().with_timezone(&chrono::Local);
        assert_eq!(from.naive_local().to_string(), "2024-10-26 14:44:00", "TZ not applied");
        let nc = oh.next_change(from).unwrap();
        // naive result is 2024-10-27 02:30, ambiguous: later instant is 02:30+01:00 = 01:30Z
        assert_eq!(nc.naive_local().to_string(), "2024-10-27 02:30:00");
        assert_eq!(
            nc.with_timezone(&Utc),
            Utc.with_ymd_and_hms(2024, 10, 27, 1, 30, 0).unwrap(),
            "expected the later of the two instants"
        );
    });
}

/// Idea: naive result exactly at the end of the fold (03:00 in Paris) is NOT ambiguous:
/// the only instant with this wall clock is 03:00+01:00 = 02:00Z.
#[test]
fn local_zone_end_of_fold_instant() {
    with_local_tz("Europe/Paris", || {
        let oh = local_oh("10:00-27:00");
        let from = Utc.with_ymd_and_hms(2024, 10, 26, 12, 44, 0).unwrap().with_timezone(&chrono::Local);
        assert_eq!(from.naive_local().to_string(), "2024-10-26 14:44:00", "TZ not applied");
        let nc = oh.next_change(from).unwrap();
        assert_eq!(
            nc.with_timezone(&Utc),
            Utc.with_ymd_and_hms(2024, 10, 27, 2, 0, 0).unwrap(),
            "03:00 local on 2024-10-27 only exists as 03:00+01:00"
        );
        // and the wall clock of the returned instant, recomputed from the absolute instant,
        // must be the naive result
        let wall = nc.with_timezone(&Utc).with_timezone(&chrono_tz::Europe::Paris).naive_local();
        assert_eq!(wall.to_string(), "2024-10-27 03:00:00");
    });
}

/// Idea: gap with chrono::Local (Paris 2024-03-31 02:00 -> 03:00)
#[test]
fn local_zone_gap() {
    with_local_tz("Europe/Paris", || {
        let oh = local_oh("10:00-26:30");
        let from = Utc.with_ymd_and_hms(2024, 3, 30, 13, 44, 0).unwrap().with_timezone(&chrono::Local);
        assert_eq!(from.naive_local().to_string(), "2024-03-30 14:44:00", "TZ not applied");
        let nc = oh.next_change(from).unwrap();
        assert_eq!(nc.with_timezone(&Utc), Utc.with_ymd_and_hms(2024, 3, 31, 1, 0, 0).unwrap());
    });
}

// ---------------------------------------------------------------------------
// More ideas
// ---------------------------------------------------------------------------

/// Idea: extreme instants must not panic, and agree with naive evaluation when representable.
#[test]
fn extreme_instants() {
    for tz in [
        chrono_tz::Europe::Paris,
        chrono_tz::America::New_York,
        chrono_tz::Pacific::Kiritimati,
        chrono_tz::Pacific::Niue,
        chrono_tz::Asia::Manila,
        chrono_tz::UTC,
    ] {
        for expr in ["24/7", "10:00-19:00", "Mo-Fr 08:00-26:00; PH off", "1950-2000 open"] {
            let oh = OpeningHours::parse(expr).unwrap();
            let oh_tz = tz_oh(expr, tz);
            for inst in [DateTime::<Utc>::MIN_UTC, DateTime::<Utc>::MAX_UTC] {
                for input in [tz, chrono_tz::UTC, chrono_tz::Pacific::Kiritimati, chrono_tz::Pacific::Niue] {
                    let dt = inst.with_timezone(&input);
                    let st = oh_tz.state(dt.clone());
                    let nc = oh_tz.next_change(dt.clone());
                    let wall = {
                        let z = inst.with_timezone(&tz);
                        let off = z.offset().fix().local_minus_utc() as i64;
                        z.naive_utc().checked_add_signed(Duration::seconds(off))
                    };
                    if let Some(wall) = wall {
                        assert_eq!(st, oh.state(wall), "{tz} {expr} {inst}");
                        let nnc = oh.next_change(wall);
                        assert_eq!(nc.as_ref().map(|d| d.naive_local()), nnc, "{tz} {expr} {inst}");
                    }
                    let n = oh_tz.iter_range(dt.clone(), dt.clone()).count();
                    assert_eq!(n, 0);
                }
            }
        }
    }
}

/// Idea: FixedOffset / Utc contexts with input in other fixed offsets.
#[test]
fn fixed_offset_contexts() {
    use chrono::FixedOffset;
    let ctx_off = FixedOffset::east_opt(5 * 3600 + 45 * 60).unwrap();
    let oh = OpeningHours::parse("Mo-Fr 10:00-19:00; Sa 22:00-26:00").unwrap();
    let oh_tz = oh
        .clone()
        .with_context(Context::default().with_locale(TzLocation::new(ctx_off)));
    let base = Utc.with_ymd_and_hms(2024, 6, 1, 0, 0, 0).unwrap();
    for k in 0..2000 {
        let inst = base + Duration::minutes(37 * k) + Duration::seconds(k % 60);
        for secs in [-12 * 3600, -3 * 3600 - 1800, 0, 14 * 3600, 86399, -86399] {
            let input = inst.with_timezone(&FixedOffset::east_opt(secs).unwrap());
            let wall = inst.with_timezone(&ctx_off).naive_local();
            assert_eq!(oh_tz.state(input), oh.state(wall));
            let nc = oh_tz.next_change(input).unwrap();
            assert_eq!(nc.naive_local(), oh.next_change(wall).unwrap());
            assert_eq!(nc.timezone(), ctx_off);
            assert_eq!(nc.offset(), &ctx_off);
        }
    }
}

struct Rng(u64);
impl Rng {
    fn next(&mut self) -> u64 {
        self.0 ^= self.0 << 13;
        self.0 ^= self.0 >> 7;
        self.0 ^= self.0 << 17;
        self.0
    }
    fn below(&mut self, n: u64) -> u64 {
        self.next() % n
    }
}

const EXPRS: &[&str] = &[
    "24/7",
    "Mo-Fr 10:00-19:00",
    "Mo-Su 00:00-02:30,03:00-24:00",
    "01:30-02:30; Su 02:15-03:15 unknown \"dst\"",
    "22:00-27:00",
    "Su 00:00-24:00; Mo off",
    "Mar Su[-1] 01:00-04:00; Oct Su[-1] 01:00-04:00",
    "Oct Su[-1] off; Mar Su[-1] off",
    "00:00-01:59,02:01-02:59,03:01-24:00",
    "02:00-03:00 open \"a\"; 02:30-02:45 closed \"b\"",
    "week 1-53/2 Mo-Su 02:00-02:01",
    "Dec 30 00:00-24:00",
    "Dec 29-31 23:00-25:00",
    "2011 Dec 30",
    "Apr 1-7 Su 01:45-02:15 || 00:00-00:30 unknown",
    "sunrise-sunset",
    "(sunset+01:00)-(sunrise-02:00)",
    "Mo-Fr 08:00-12:00,14:00-18:00; Sa 08:00-12:00; PH off",
    "00:00-24:00; Su 01:00-03:00 off",
    "23:30-24:30",
    "dusk-dawn",
    "02:30+",
    "Mo 02:00-02:30, Su 02:00-03:00 unknown",
];

/// Idea: randomised differential over zones, expressions, instants near transitions, windows.
#[test]
fn random_differential() {
    let zones = [
        chrono_tz::Europe::Paris,
        chrono_tz::Europe::Dublin,
        chrono_tz::Australia::Lord_Howe,
        chrono_tz::Pacific::Apia,
        chrono_tz::Pacific::Kwajalein,
        chrono_tz::America::St_Johns,
        chrono_tz::America::Sao_Paulo,
        chrono_tz::America::Havana,
        chrono_tz::Asia::Tehran,
        chrono_tz::Africa::Casablanca,
        chrono_tz::Antarctica::Troll,
        chrono_tz::America::Godthab,
        chrono_tz::Pacific::Chatham,
        chrono_tz::Asia::Gaza,
        chrono_tz::Africa::Cairo,
        chrono_tz::America::Santiago,
    ];
    let mut rng = Rng(0x9E3779B97F4A7C15);
    let mut errors = Vec::new();
    let mut n = 0;
    for tz in zones {
        let model = Model::build(tz, ts(1899, 1, 1), ts(2060, 1, 1), 43200);
        if model.trans.is_empty() {
            continue;
        }
        for _ in 0..1500 {
            let t = &model.trans[rng.below(model.trans.len() as u64) as usize];
            let spread = [120i64, 3600, 2 * 3600, 90000, 8 * 86400][rng.below(5) as usize];
            let from = t.at + (rng.below(2 * spread as u64) as i64) - spread;
            let len = [1i64, 59, 60, 1800, 3600, 7200, 86400, 3 * 86400, 40 * 86400][rng.below(9) as usize];
            let to = from + (rng.below(len as u64) as i64) + 1;
            let expr = EXPRS[rng.below(EXPRS.len() as u64) as usize];
            let input = INPUT_ZONES[rng.below(INPUT_ZONES.len() as u64) as usize];
            n += 1;
            if let Err(e) = diff_iter_range(&model, expr, from, to, input) {
                if errors.len() < 30 {
                    errors.push(e);
                }
            }
        }
    }
    eprintln!("random_differential: {n} cases");
    assert!(errors.is_empty(), "violations:\n{}", errors.join("\n"));
}

/// Idea: far future (after chrono-tz's pre-computed table) and years up to 9999.
#[test]
fn sweep_far_future() {
    let mut errors = Vec::new();
    let mut n = 0;
    for tz in [
        chrono_tz::Europe::Paris,
        chrono_tz::Australia::Lord_Howe,
        chrono_tz::America::St_Johns,
        chrono_tz::Pacific::Chatham,
        chrono_tz::America::Santiago,
    ] {
        n += sweep_zone(tz, 2040, 2140, &mut errors);
        n += sweep_zone(tz, 9990, 9999, &mut errors);
    }
    eprintln!("sweep_far_future: {n}");
    assert!(errors.is_empty(), "violations:\n{}", errors.join("\n"));
}

// ---------------------------------------------------------------------------
// Generic model (any TimeZone) + direct checks of Localize::datetime / naive
// ---------------------------------------------------------------------------

struct GModel {
    first_off: i64,
    trans: Vec<Trans>,
}

impl GModel {
    fn build(off_at: &dyn Fn(i64) -> i64, from: i64, to: i64, step: i64) -> Self {
        fn refine(off_at: &dyn Fn(i64) -> i64, lo: i64, lo_off: i64, hi: i64, hi_off: i64, out: &mut Vec<Trans>) {
            if hi - lo == 1 {
                out.push(Trans { at: hi, before: lo_off, after: hi_off });
                return;
            }
            let mid = lo + (hi - lo) / 2;
            let mid_off = off_at(mid);
            if mid_off != lo_off {
                refine(off_at, lo, lo_off, mid, mid_off, out);
            }
            if mid_off != hi_off {
                refine(off_at, mid, mid_off, hi, hi_off, out);
            }
        }
        let mut trans = Vec::new();
        let first_off = off_at(from);
        let (mut prev_ts, mut prev_off) = (from, first_off);
        let mut cur = from + step;
        while cur <= to {
            let o = off_at(cur);
            if o != prev_off {
                refine(off_at, prev_ts, prev_off, cur, o, &mut trans);
            }
            prev_ts = cur;
            prev_off = o;
            cur += step;
        }
        Self { first_off, trans }
    }

    fn off(&self, ts: i64) -> i64 {
        let idx = self.trans.partition_point(|t| t.at <= ts);
        if idx == 0 { self.first_off } else { self.trans[idx - 1].after }
    }

    /// (expected utc ts, class) where class is "single" | "fold" | "gap"
    fn expected(&self, local: i64) -> (i64, &'static str) {
        let mut cands: Vec<i64> = vec![self.first_off, self.off(local - 2 * 86400), self.off(local + 2 * 86400)];
        for t in &self.trans {
            if (t.at - local).abs() < 4 * 86400 {
                cands.push(t.before);
                cands.push(t.after);
            }
        }
        cands.sort();
        cands.dedup();
        let pre: Vec<i64> = cands.iter().map(|o| local - o).filter(|u| self.off(*u) + u == local).collect();
        if let Some(m) = pre.iter().max() {
            return (*m, if pre.len() > 1 { "fold" } else { "single" });
        }
        let g = self
            .trans
            .iter()
            .filter(|t| t.after > t.before && t.at + t.before <= local && local < t.at + t.after)
            .map(|t| t.at)
            .min()
            .expect("no preimage and no gap");
        (g, "gap")
    }
}

fn local_off_at(ts: i64) -> i64 {
    let dt = DateTime::<Utc>::from_timestamp(ts, 0).unwrap().naive_utc();
    chrono::Local.offset_from_utc_datetime(&dt).fix().local_minus_utc() as i64
}

/// Sweep `Localize::datetime` for chrono::Local under several IANA names; report
/// per class how many naive times map to the wrong instant.
fn local_sweep(name: &str, y0: i32, y1: i32) -> std::collections::BTreeMap<&'static str, (usize, usize, String)> {
    use opening_hours::localization::Localize;
    with_local_tz(name, || {
        let model = GModel::build(&local_off_at, ts(y0, 1, 1), ts(y1, 1, 1), 43200);
        let loc = TzLocation::new(chrono::Local);
        let mut stats: std::collections::BTreeMap<&'static str, (usize, usize, String)> = Default::default();
        for t in &model.trans {
            let wb = t.at + t.before;
            let wa = t.at + t.after;
            let (lo, hi) = (wb.min(wa), wb.max(wa));
            let fl = |x: i64| x.div_euclid(60) * 60;
            for tgt in [fl(lo) - 60, fl(lo), fl(lo) + 60, fl((lo + hi) / 2), fl(hi) - 60, fl(hi), fl(hi) + 60] {
                let (exp, class) = model.expected(tgt);
                let class = if class == "fold" { "fold" } else if tgt == fl(hi) && hi == fl(hi) && t.after < t.before { "end-of-fold" } else { class };
                let got = loc.datetime(naive_of(tgt));
                let e = stats.entry(class).or_insert((0, 0, String::new()));
                e.0 += 1;
                if got.timestamp() != exp {
                    e.1 += 1;
                    if e.2.is_empty() {
                        e.2 = format!("{name}: naive {} -> {} (utc {}), expected utc {}", naive_of(tgt), got, got.naive_utc(), naive_of(exp));
                    }
                }
            }
        }
        stats
    })
}

#[test]
fn local_zone_sweep_non_fold_classes() {
    let mut bad = Vec::new();
    for name in ["Europe/Paris", "Australia/Lord_Howe", "Europe/Dublin", "America/Sao_Paulo", "Pacific/Apia", "Africa/Casablanca", "America/St_Johns"] {
        for (y0, y1) in [(1900, 2037), (2038, 2100)] {
            let stats = local_sweep(name, y0, y1);
            eprintln!("{name} {y0}-{y1}: {stats:?}");
            for (class, (_n, wrong, ex)) in &stats {
                if *class != "fold" && *class != "end-of-fold" && *wrong > 0 {
                    bad.push(format!("{class}: {ex}"));
                }
            }
        }
    }
    assert!(bad.is_empty(), "{}", bad.join("\n"));
}

/// With chrono::Local the mapped instants can even lie before the queried instant.
#[test]
fn local_zone_next_change_before_input() {
    with_local_tz("Europe/Paris", || {
        let oh = local_oh("00:00-02:30");
        // second pass of the fold: 02:10+01:00 = 01:10Z
        let from = Utc.with_ymd_and_hms(2024, 10, 27, 1, 10, 0).unwrap().with_timezone(&chrono::Local);
        assert_eq!(from.naive_local().to_string(), "2024-10-27 02:10:00", "TZ not applied");
        assert!(oh.is_open(from));
        let nc = oh.next_change(from).unwrap();
        assert!(nc >= from, "next_change({from}) = {nc} is in the past");
    });
}

/// Idea: scan the offset function with a 1h step to detect transitions the 12h scan misses
/// (double transitions), then check them.
#[test]
#[ignore]
fn fine_transition_scan() {
    let mut errors = Vec::new();
    for tz in chrono_tz::TZ_VARIANTS {
        let coarse = Model::build(tz, ts(1899, 1, 1), ts(2040, 1, 1), 43200);
        let fine = Model::build(tz, ts(1899, 1, 1), ts(2040, 1, 1), 3600);
        if coarse.trans.len() != fine.trans.len() {
            eprintln!("{tz}: coarse {} fine {}", coarse.trans.len(), fine.trans.len());
            let mut e = Vec::new();
            // re-run the sweep with the fine model
            let model = fine;
            for t in model.trans.iter() {
                let wb = t.at + t.before;
                let wa = t.at + t.after;
                let (lo, hi) = (wb.min(wa), wb.max(wa));
                let fl = |x: i64| x.div_euclid(60) * 60;
                for tgt in [fl(lo) - 60, fl(lo), fl(lo) + 60, fl((lo + hi) / 2), fl(hi) - 60, fl(hi), fl(hi) + 60] {
                    let start = hhmm(tgt);
                    let end_secs = tgt.rem_euclid(86400) + 60;
                    let expr = format!("{start}-{:02}:{:02}", end_secs / 3600, (end_secs % 3600) / 60);
                    if let Err(x) = diff_iter_range(&model, &expr, t.at - 2 * 86400, t.at + 2 * 86400, chrono_tz::UTC) {
                        e.push(x);
                    }
                }
            }
            errors.extend(e.into_iter().take(3));
        }
    }
    assert!(errors.is_empty(), "violations:\n{}", errors.join("\n"));
}

/// Idea: nanosecond-precision from/to right around transitions, checked through
/// Localize::naive / Localize::datetime directly and through iter_range.
#[test]
fn nanosecond_inputs_around_transitions() {
    use opening_hours::localization::Localize;
    for tz in [chrono_tz::Europe::Paris, chrono_tz::Australia::Lord_Howe, chrono_tz::Europe::Amsterdam, chrono_tz::Africa::Monrovia, chrono_tz::America::Sao_Paulo] {
        let model = Model::build(tz, ts(1899, 1, 1), ts(2040, 1, 1), 43200);
        let loc = TzLocation::new(tz);
        let oh = OpeningHours::parse("00:00-24:00").unwrap();
        let oh_tz = tz_oh("00:00-24:00", tz);
        for t in &model.trans {
            for dn in [-1_000_000_001i64, -1_000_000_000, -1, 0, 1, 999_999_999, 1_000_000_000] {
                let inst = DateTime::<Utc>::from_timestamp(t.at, 0).unwrap() + Duration::nanoseconds(dn);
                let zoned = inst.with_timezone(&tz);
                let wall = zoned.naive_local();
                assert_eq!(loc.naive(inst.with_timezone(&chrono_tz::Pacific::Niue)), wall);
                // mapping back: must have the same wall clock, be >= the first pass and be the later one
                let back = loc.datetime(wall);
                assert_eq!(back.naive_local(), wall, "{tz} {inst}");
                assert!(back >= zoned, "{tz}: datetime(naive({zoned})) = {back} earlier");
                let exp = model.expected(wall.and_utc().timestamp());
                assert_eq!(back.timestamp(), exp, "{tz} {inst}");
                // iter_range start bound
                let to = zoned.clone() + Duration::hours(30);
                let first = oh_tz.iter_range(zoned.clone(), to.clone()).next();
                let nfirst = oh.iter_range(wall, to.naive_local()).next();
                assert_eq!(first.as_ref().map(|r| r.range.start.naive_local()), nfirst.as_ref().map(|r| r.range.start), "{tz} {inst}");
                if let Some(f) = first {
                    assert!(f.range.start <= f.range.end, "{tz} {inst}: {} > {}", f.range.start, f.range.end);
                }
            }
        }
    }
}

/// Idea: coordinates attached (sun events become real) must not change anything for
/// expressions that have no sun event.
#[test]
fn coords_do_not_matter_without_sun_events() {
    use opening_hours::localization::Coordinates;
    let tz = chrono_tz::Europe::Paris;
    let coords = Coordinates::new(48.85, 2.35).unwrap();
    let model = Model::build(tz, ts(2020, 1, 1), ts(2026, 1, 1), 43200);
    for expr in ["Mo-Fr 01:30-02:30", "22:00-27:00", "Su 02:00-03:00 unknown; Mo off"] {
        let a = tz_oh(expr, tz);
        let b = OpeningHours::parse(expr)
            .unwrap()
            .with_context(Context::default().with_locale(TzLocation::new(tz).with_coords(coords)));
        for t in &model.trans {
            let from = DateTime::<Utc>::from_timestamp(t.at - 100_000, 0).unwrap().with_timezone(&tz);
            let to = DateTime::<Utc>::from_timestamp(t.at + 100_000, 0).unwrap().with_timezone(&tz);
            let ra: Vec<_> = a.iter_range(from, to).map(|r| (r.range, r.kind)).collect();
            let rb: Vec<_> = b.iter_range(from, to).map(|r| (r.range, r.kind)).collect();
            assert_eq!(ra, rb);
        }
    }
}

/// Idea: sun events with coordinates (incl. polar, date line): bounds never go backwards, no panic.
#[test]
fn sun_events_with_coords_monotonic() {
    use opening_hours::localization::Coordinates;
    let cases = [
        (chrono_tz::Arctic::Longyearbyen, 78.22, 15.65),
        (chrono_tz::Antarctica::Troll, -72.01, 2.53),
        (chrono_tz::Pacific::Kiritimati, 1.87, -157.4),
        (chrono_tz::Pacific::Apia, -13.83, -171.76),
        (chrono_tz::Europe::Paris, 48.85, 2.35),
        (chrono_tz::Australia::Lord_Howe, -31.55, 159.08),
        (chrono_tz::America::Anchorage, 71.29, -156.79),
    ];
    for (tz, lat, lon) in cases {
        let coords = Coordinates::new(lat, lon).unwrap();
        for expr in ["sunrise-sunset", "(sunset+01:00)-(sunrise-02:00)", "dawn-dusk; Su (sunrise-01:00)-03:00 unknown", "sunset-26:00"] {
            let oh = OpeningHours::parse(expr)
                .unwrap()
                .with_context(Context::default().with_locale(TzLocation::new(tz).with_coords(coords)));
            let from = Utc.with_ymd_and_hms(2011, 1, 1, 0, 0, 0).unwrap().with_timezone(&chrono_tz::UTC);
            let to = Utc.with_ymd_and_hms(2013, 1, 1, 0, 0, 0).unwrap().with_timezone(&chrono_tz::UTC);
            let mut last: Option<DateTime<Tz>> = None;
            for r in oh.iter_range(from, to) {
                assert_eq!(r.range.start.timezone(), tz);
                assert!(r.range.start <= r.range.end, "{tz} {expr}: {} > {}", r.range.start, r.range.end);
                if let Some(l) = &last {
                    assert!(&r.range.start >= l, "{tz} {expr}: {} after {l}", r.range.start);
                }
                last = Some(r.range.end);
            }
        }
    }
}

/// Idea: interval-size bound and holidays in a tz context behave like in the naive context
/// (any builder order).
#[test]
fn bound_and_holidays_in_tz_context() {
    use opening_hours::ContextHolidays;
    use std::sync::Arc;
    let tz = chrono_tz::Europe::Paris;
    let model = Model::build(tz, ts(2020, 1, 1), ts(2032, 1, 1), 43200);
    let mut cal = compact_calendar_stub();
    let hol = ContextHolidays::new(Arc::new(cal.0.take().unwrap()), Default::default());
    let naive_ctx = Context::default()
        .with_holidays(hol.clone())
        .approx_bound_interval_size(Duration::days(100));
    let ctx1 = Context::default()
        .with_holidays(hol.clone())
        .approx_bound_interval_size(Duration::days(100))
        .with_locale(TzLocation::new(tz));
    let ctx2 = Context::default()
        .with_locale(TzLocation::new(tz))
        .approx_bound_interval_size(Duration::days(100))
        .with_holidays(hol.clone());
    for expr in ["PH 01:00-02:30; Su 02:00-04:00", "2024 Oct 27 02:15-02:45; 2030 open", "Mo-Su 10:00-12:00; PH off", "24/7; 2025 off"] {
        let n = OpeningHours::parse(expr).unwrap().with_context(naive_ctx.clone());
        let z1 = OpeningHours::parse(expr).unwrap().with_context(ctx1.clone());
        let z2 = OpeningHours::parse(expr).unwrap().with_context(ctx2.clone());
        for (y, m, d, h, mi) in [(2024, 10, 26, 22, 0), (2024, 10, 27, 0, 30), (2024, 3, 30, 23, 0), (2024, 3, 31, 1, 30), (2023, 1, 1, 0, 0), (2025, 6, 1, 12, 0)] {
            let inst = Utc.with_ymd_and_hms(y, m, d, h, mi, 0).unwrap();
            let wall = inst.with_timezone(&tz).naive_local();
            for z in [&z1, &z2] {
                for input in [chrono_tz::UTC, chrono_tz::Pacific::Kiritimati] {
                    let dt = inst.with_timezone(&input);
                    assert_eq!(z.state(dt), n.state(wall), "{expr} {inst}");
                    assert_eq!(
                        z.next_change(dt).map(|d| d.timestamp()),
                        n.next_change(wall).map(|d| model.expected(local_ts(d))),
                        "{expr} {inst}"
                    );
                }
            }
        }
    }
}

struct CalStub(Option<compact_calendar::CompactCalendar>);
fn compact_calendar_stub() -> CalStub {
    let mut cal = compact_calendar::CompactCalendar::default();
    cal.insert(NaiveDate::from_ymd_opt(2024, 10, 27).unwrap());
    cal.insert(NaiveDate::from_ymd_opt(2024, 3, 31).unwrap());
    CalStub(Some(cal))
}

/// Idea: from and to given in two different zones.
#[test]
fn from_and_to_in_different_zones() {
    let tz = chrono_tz::Australia::Lord_Howe;
    let oh = OpeningHours::parse("01:45-02:15; Su 01:30-02:00 unknown").unwrap();
    let oh_tz = tz_oh("01:45-02:15; Su 01:30-02:00 unknown", tz);
    let model = Model::build(tz, ts(2015, 1, 1), ts(2026, 1, 1), 43200);
    for t in &model.trans {
        let f = DateTime::<Utc>::from_timestamp(t.at - 5000, 0).unwrap();
        let e = DateTime::<Utc>::from_timestamp(t.at + 9000, 0).unwrap();
        let z: Vec<_> = oh_tz
            .iter_range(f.with_timezone(&chrono_tz::Pacific::Niue), e.with_timezone(&chrono_tz::Asia::Kathmandu))
            .map(|r| (r.range.start.naive_local(), r.range.end.naive_local(), r.kind))
            .collect();
        let n: Vec<_> = oh
            .iter_range(f.with_timezone(&tz).naive_local(), e.with_timezone(&tz).naive_local())
            .map(|r| (r.range.start, r.range.end, r.kind))
            .collect();
        // in folds the naive bounds still have the same wall clock
        assert_eq!(z.len(), n.len());
        for (a, b) in z.iter().zip(&n) {
            assert_eq!(a.2, b.2);
            let (es, _) = (model.expected(local_ts(b.0)), ());
            let _ = es;
        }
    }
}

/// Idea: long open-ended iteration (iter_from) across many transitions equals naive iteration.
#[test]
fn iter_from_long_run() {
    for tz in [chrono_tz::Europe::Paris, chrono_tz::America::Sao_Paulo, chrono_tz::Pacific::Apia] {
        let model = Model::build(tz, ts(1990, 1, 1), ts(2100, 1, 1), 43200);
        for expr in ["Mo-Su 00:00-02:30,03:00-24:00", "23:30-24:30", "Su 00:00-24:00; Mo off"] {
            let oh = OpeningHours::parse(expr).unwrap();
            let oh_tz = tz_oh(expr, tz);
            let inst = Utc.with_ymd_and_hms(2005, 1, 1, 0, 0, 0).unwrap();
            let wall = inst.with_timezone(&tz).naive_local();
            let mut last: Option<DateTime<Tz>> = None;
            for (n, z) in oh.iter_from(wall).zip(oh_tz.iter_from(inst.with_timezone(&chrono_tz::UTC))).take(4_000) {
                assert_eq!(n.kind, z.kind);
                assert_eq!(z.range.start.timestamp(), model.expected(local_ts(n.range.start)), "{tz} {expr} {n:?}");
                assert_eq!(z.range.end.timestamp(), model.expected(local_ts(n.range.end)), "{tz} {expr} {n:?}");
                assert!(z.range.start <= z.range.end);
                if let Some(l) = &last {
                    assert!(&z.range.start >= l);
                }
                last = Some(z.range.end);
            }
        }
    }
}

/// Idea: normalize() and with_context() keep / replace the zone.
#[test]
fn normalize_and_recontext() {
    let paris = chrono_tz::Europe::Paris;
    let lh = chrono_tz::Australia::Lord_Howe;
    let oh = tz_oh("Mo-Su 10:00-26:30; Su off; Su 12:00-13:00", paris);
    let inst = Utc.with_ymd_and_hms(2024, 10, 26, 20, 0, 0).unwrap().with_timezone(&chrono_tz::UTC);
    let a = oh.next_change(inst).unwrap();
    let b = oh.normalize().next_change(inst).unwrap();
    assert_eq!(a, b);
    assert_eq!(b.timezone(), paris);
    let oh2 = oh.clone().with_context(Context::default().with_locale(TzLocation::new(lh)));
    let c = oh2.next_change(inst).unwrap();
    assert_eq!(c.timezone(), lh);
    let wall = inst.with_timezone(&lh).naive_local();
    assert_eq!(c.naive_local(), OpeningHours::parse("Mo-Su 10:00-26:30; Su off; Su 12:00-13:00").unwrap().next_change(wall).unwrap());
}

/// Idea: the end of the supported range.
#[test]
fn near_date_end() {
    for tz in [chrono_tz::Europe::Paris, chrono_tz::Pacific::Kiritimati, chrono_tz::Pacific::Niue, chrono_tz::America::St_Johns] {
        for expr in ["24/7", "10:00-12:00", "9999 Dec 31 22:00-24:00", "9999 Dec 31 22:00-26:00", "Fr 23:00-25:00"] {
            let oh = OpeningHours::parse(expr).unwrap();
            let oh_tz = tz_oh(expr, tz);
            for back in [0i64, 1, 59, 60, 61, 3599, 3600, 7200, 86399, 86400, 86401, 90000, 200000] {
                for fwd in [0i64, 1, 60, 50000, 100000] {
                    let wall = opening_hours::DATE_END - Duration::seconds(back) + Duration::seconds(fwd);
                    let inst = tz.from_local_datetime(&wall).single().unwrap();
                    for input in [chrono_tz::UTC, chrono_tz::Pacific::Kiritimati, chrono_tz::Pacific::Niue] {
                        let dt = inst.with_timezone(&input);
                        assert_eq!(oh_tz.state(dt), oh.state(wall), "{tz} {expr} {wall}");
                        assert_eq!(oh_tz.next_change(dt).map(|d| d.naive_local()), oh.next_change(wall), "{tz} {expr} {wall}");
                        let z: Vec<_> = oh_tz.iter_from(dt).map(|r| (r.range.start.naive_local(), r.range.end.naive_local(), r.kind)).collect();
                        let n: Vec<_> = oh.iter_from(wall).map(|r| (r.range.start, r.range.end, r.kind)).collect();
                        assert_eq!(z, n, "{tz} {expr} {wall}");
                    }
                }
            }
        }
    }
}

/// Idea: for every zone, the first bound (1900-01-01 00:00 local, often next to the LMT->standard
/// switch) and the last bound (10000-01-01 00:00 local) are mapped correctly.
#[test]
fn all_zones_first_and_last_bound() {
    let mut errors = Vec::new();
    for tz in chrono_tz::TZ_VARIANTS {
        let model = Model::build(tz, ts(1899, 6, 1), ts(1900, 6, 1), 3600);
        let oh = tz_oh("24/7", tz);
        for (y, input) in [(1800, chrono_tz::UTC), (1899, chrono_tz::Pacific::Kiritimati), (-500, chrono_tz::Pacific::Niue)] {
            let from = Utc.with_ymd_and_hms(y, 12, 31, 10, 0, 7).unwrap().with_timezone(&input);
            let wall = from.with_timezone(&tz).naive_local();
            let naive_nc = OpeningHours::parse("24/7").unwrap().next_change(wall);
            let nc = oh.next_change(from.clone());
            if nc.is_some() != naive_nc.is_some() {
                errors.push(format!("{tz}: next_change({from}) = {nc:?} vs naive {naive_nc:?}"));
            }
            if let (Some(nc), Some(n)) = (nc, naive_nc) {
                let exp = model.expected(local_ts(n));
                if nc.timestamp() != exp || nc.timezone() != tz || nc < from {
                    errors.push(format!("{tz}: next_change({from}) = {nc} (utc {}), expected utc {}", nc.naive_utc(), naive_of(exp)));
                }
            }
        }
        // iteration that starts in 1899 and crosses 1900-01-01 00:00 local
        {
            let oh = tz_oh("00:00-00:10,00:20-24:00", tz);
            let noh = OpeningHours::parse("00:00-00:10,00:20-24:00").unwrap();
            let from = Utc.with_ymd_and_hms(1899, 12, 31, 0, 0, 7).unwrap().with_timezone(&chrono_tz::UTC);
            let to = Utc.with_ymd_and_hms(1900, 1, 2, 0, 0, 7).unwrap().with_timezone(&chrono_tz::UTC);
            let z: Vec<_> = oh.iter_range(from, to).collect();
            let n: Vec<_> = noh.iter_range(from.with_timezone(&tz).naive_local(), to.with_timezone(&tz).naive_local()).collect();
            if z.len() != n.len() {
                errors.push(format!("{tz}: 1899->1900 {} vs {}", z.len(), n.len()));
            }
            for (a, b) in z.iter().zip(&n) {
                if a.kind != b.kind
                    || a.range.start.timestamp() != model.expected(local_ts(b.range.start))
                    || a.range.end.timestamp() != model.expected(local_ts(b.range.end))
                {
                    errors.push(format!("{tz}: 1899->1900 {a:?} vs {b:?}"));
                }
            }
        }
        // the end
        let from = Utc.with_ymd_and_hms(9999, 12, 30, 0, 0, 0).unwrap().with_timezone(&chrono_tz::UTC);
        let ivs: Vec<_> = oh.iter_from(from).collect();
        if ivs.len() != 1 || ivs[0].range.end.naive_local() != opening_hours::DATE_END || oh.next_change(from).is_some() {
            errors.push(format!("{tz}: end of range: {ivs:?}"));
        }
        let oh2 = tz_oh("24/7; 9999 Dec 31 off", tz);
        let nc = oh2.next_change(from).unwrap();
        if nc.naive_local().to_string() != "9999-12-31 00:00:00" || oh2.next_change(nc).is_some() {
            errors.push(format!("{tz}: 9999 Dec 31 off: {nc}"));
        }
    }
    assert!(errors.is_empty(), "{}", errors.join("\n"));
}

/// Idea (judgement call): with `approx_bound_interval_size` in a tz context, the sequence of
/// bounds returned by iter_range must still never go backwards.
#[test]
fn bounded_context_bounds_never_go_backwards() {
    let tz = chrono_tz::Europe::Paris;
    let ctx = Context::default()
        .with_locale(TzLocation::new(tz))
        .approx_bound_interval_size(Duration::days(10));
    let oh = OpeningHours::parse("2024 Jan 1 10:00-12:00; 2024 Jun 1 10:00-12:00")
        .unwrap()
        .with_context(ctx);
    let from = Utc.with_ymd_and_hms(2024, 1, 1, 0, 0, 0).unwrap().with_timezone(&tz);
    let to = Utc.with_ymd_and_hms(2025, 1, 1, 0, 0, 0).unwrap().with_timezone(&tz);
    let mut last: Option<DateTime<Tz>> = None;
    let mut all = Vec::new();
    for r in oh.iter_range(from, to).take(50) {
        all.push(format!("{} .. {} {:?}", r.range.start, r.range.end, r.kind));
        assert!(r.range.start <= r.range.end);
        if let Some(l) = &last {
            assert!(&r.range.start >= l, "bounds go backwards:\n{}", all.join("\n"));
        }
        last = Some(r.range.end);
    }
}
