//! Defect hunt for: "Printed expressions parse back to an equivalent expression".
//!
//! * `defect_*` tests assert what the property requires and FAIL on the unchanged tree.
//! * `judgement_*` tests are strict readings of the statement (see the comments).
//! * `idea_*` / `fuzz_*` tests are ideas that held.

use chrono::NaiveDate;
use opening_hours::localization::{Coordinates, Country, Localize, TzLocation};
use opening_hours::{Context, OpeningHours};
use opening_hours_syntax::parse;
use opening_hours_syntax::rules::OpeningHoursExpression;
use std::sync::Arc;

struct Rng(u64);
impl Rng {
    fn next(&mut self) -> u64 {
        self.0 ^= self.0 << 13;
        self.0 ^= self.0 >> 7;
        self.0 ^= self.0 << 17;
        self.0
    }
    fn below(&mut self, n: usize) -> usize {
        (self.next() % n as u64) as usize
    }
    fn pick<'a>(&mut self, xs: &[&'a str]) -> &'a str {
        xs[self.below(xs.len())]
    }
    fn chance(&mut self, pct: usize) -> bool {
        self.below(100) < pct
    }
}

const WD: &[&str] = &["Mo", "Tu", "We", "Th", "Fr", "Sa", "Su"];
const MONTHS: &[&str] = &["Jan", "Feb", "Mar", "Apr", "May", "Jun", "Jul", "Aug", "Sep", "Oct", "Nov", "Dec"];
const YEARS: &[&str] = &["1900", "1999", "2000", "2019", "2020", "2021", "2024", "9998", "9999"];

fn gen_day_offset(r: &mut Rng) -> String {
    let n = r.pick(&["1", "2", "7", "01", "365", "40000", "9223372036854775807"]);
    format!(" {}{} day{}", r.pick(&["+", "-"]), n, r.pick(&["", "s"]))
}

fn gen_year_sel(r: &mut Rng) -> String {
    let n = 1 + r.below(3);
    (0..n)
        .map(|_| match r.below(5) {
            0 => format!("{}+", r.pick(YEARS)),
            1 => format!("{}-{}", r.pick(YEARS), r.pick(YEARS)),
            2 => format!("{}-{}/{}", r.pick(YEARS), r.pick(YEARS), r.pick(&["1", "2", "3", "01", "10"])),
            _ => r.pick(YEARS).to_string(),
        })
        .collect::<Vec<_>>()
        .join(",")
}

fn gen_date(r: &mut Rng) -> String {
    let y = if r.chance(30) { format!("{}{}", r.pick(YEARS), r.pick(&["", " "])) } else { String::new() };
    if r.chance(15) {
        format!("{}{}easter", y.trim_end(), r.pick(&["", " "]))
    } else {
        format!("{}{}{}{}", y, r.pick(MONTHS), r.pick(&["", " "]), r.pick(&["1", "01", "5", "15", "28", "29", "30", "31"]))
    }
}

fn gen_date_offset(r: &mut Rng) -> String {
    match r.below(4) {
        0 => format!("{}{}", r.pick(&["+", "-"]), r.pick(WD)),
        1 => format!("{}{}{}", r.pick(&["+", "-"]), r.pick(WD), gen_day_offset(r)),
        2 => gen_day_offset(r),
        _ => String::new(),
    }
}

fn gen_monthday_range(r: &mut Rng) -> String {
    match r.below(8) {
        0 => r.pick(MONTHS).to_string(),
        1 => format!("{}-{}", r.pick(MONTHS), r.pick(MONTHS)),
        2 => format!("{}{}", r.pick(YEARS), r.pick(MONTHS)),
        3 => format!("{}{}-{}", r.pick(YEARS), r.pick(MONTHS), r.pick(MONTHS)),
        4 => format!("{}{}", gen_date(r), gen_date_offset(r)),
        5 => format!("{}{}+", gen_date(r), gen_date_offset(r)),
        6 => format!("{}{}-{}", gen_date(r), gen_date_offset(r), r.pick(&["1", "5", "15", "31", "01"])),
        _ => format!("{}{}{}{}{}", gen_date(r), gen_date_offset(r), r.pick(&["-", " - ", " -", "- "]), gen_date(r), gen_date_offset(r)),
    }
}

fn gen_monthday_sel(r: &mut Rng) -> String {
    let n = 1 + r.below(3);
    (0..n).map(|_| gen_monthday_range(r)).collect::<Vec<_>>().join(",")
}

fn gen_week_sel(r: &mut Rng) -> String {
    let n = 1 + r.below(3);
    let wk = &["1", "01", "2", "9", "10", "26", "52", "53"];
    let body = (0..n)
        .map(|_| match r.below(3) {
            0 => r.pick(wk).to_string(),
            1 => format!("{}-{}", r.pick(wk), r.pick(wk)),
            _ => format!("{}-{}/{}", r.pick(wk), r.pick(wk), r.pick(&["1", "2", "3", "10", "255"])),
        })
        .collect::<Vec<_>>()
        .join(",");
    format!("week{}{}", r.pick(&["", " "]), body)
}

fn gen_wd_range(r: &mut Rng) -> String {
    match r.below(4) {
        0 => r.pick(WD).to_string(),
        1 => format!("{}-{}", r.pick(WD), r.pick(WD)),
        _ => {
            let n = 1 + r.below(3);
            let nth = (0..n)
                .map(|_| match r.below(3) {
                    0 => r.pick(&["1", "2", "3", "4", "5"]).to_string(),
                    1 => format!("-{}", r.pick(&["1", "2", "3", "4", "5"])),
                    _ => format!("{}-{}", r.pick(&["1", "2", "3", "4", "5"]), r.pick(&["1", "2", "3", "4", "5"])),
                })
                .collect::<Vec<_>>()
                .join(",");
            let off = if r.chance(40) { gen_day_offset(r) } else { String::new() };
            format!("{}[{}]{}", r.pick(WD), nth, off)
        }
    }
}

fn gen_holiday(r: &mut Rng) -> String {
    match r.below(3) {
        0 => "PH".to_string(),
        1 => "SH".to_string(),
        _ => format!("PH{}", gen_day_offset(r)),
    }
}

fn gen_weekday_sel(r: &mut Rng) -> String {
    let wds = {
        let n = 1 + r.below(3);
        (0..n).map(|_| gen_wd_range(r)).collect::<Vec<_>>().join(",")
    };
    let hs = {
        let n = 1 + r.below(2);
        (0..n).map(|_| gen_holiday(r)).collect::<Vec<_>>().join(",")
    };
    match r.below(6) {
        0 => hs,
        1 => format!("{}{}{}", hs, r.pick(&[",", " "]), wds),
        2 => format!("{}{}{}", wds, r.pick(&[",", " "]), hs),
        _ => wds,
    }
}

fn gen_hm(r: &mut Rng) -> String {
    r.pick(&["00:00", "0:00", "00:01", "06:30", "9:05", "10:00", "12:00", "18:15", "23:59", "24:00"]).to_string()
}

fn gen_ext_hm(r: &mut Rng) -> String {
    r.pick(&["00:00", "00:01", "02:00", "6:30", "10:00", "12:00", "18:15", "23:59", "24:00", "24:01", "26:00", "36:30", "47:59", "48:00"]).to_string()
}

fn gen_var(r: &mut Rng) -> String {
    let ev = r.pick(&["dawn", "sunrise", "sunset", "dusk"]);
    if r.chance(50) {
        ev.to_string()
    } else {
        format!("({}{}{})", ev, r.pick(&["+", "-"]), r.pick(&["00:00", "00:30", "01:00", "1:30", "12:00", "23:59", "24:00"]))
    }
}

fn gen_time(r: &mut Rng) -> String {
    if r.chance(75) { gen_hm(r) } else { gen_var(r) }
}
fn gen_ext_time(r: &mut Rng) -> String {
    if r.chance(75) { gen_ext_hm(r) } else { gen_var(r) }
}

fn gen_timespan(r: &mut Rng) -> String {
    match r.below(8) {
        0 => format!("{}+", gen_time(r)),
        1 => format!("{}-{}+", gen_time(r), gen_ext_time(r)),
        2 => format!("{}-{}/{}", gen_time(r), gen_ext_time(r), r.pick(&["00", "05", "30", "59"])),
        3 => format!("{}-{}/{}", gen_time(r), gen_ext_time(r), r.pick(&["00:00", "00:30", "01:00", "1:30", "12:00", "23:59", "24:00"])),
        4 => format!("{} - {}", gen_time(r), gen_ext_time(r)),
        _ => format!("{}-{}", gen_time(r), gen_ext_time(r)),
    }
}

fn gen_time_sel(r: &mut Rng) -> String {
    let n = 1 + r.below(3);
    (0..n).map(|_| gen_timespan(r)).collect::<Vec<_>>().join(",")
}

fn gen_comment(r: &mut Rng) -> String {
    format!("\"{}\"", r.pick(&["a", "b", "by appointment", "x, y", " ", "é", "a;b", "||", "24/7", "\\", "'", "\n", ", "]))
}

fn gen_rule(r: &mut Rng) -> String {
    let mut s = String::new();
    if r.chance(8) {
        s.push_str("24/7");
    } else if r.chance(8) {
        s.push_str(&format!("{}:", gen_comment(r)));
        if r.chance(50) {
            s.push_str(&gen_weekday_sel(r));
        }
        if r.chance(50) {
            if !s.ends_with(':') {
                s.push(' ');
            }
            s.push_str(&gen_time_sel(r));
        }
    } else {
        let mut wide = String::new();
        if r.chance(25) {
            wide.push_str(&gen_year_sel(r));
        }
        if r.chance(35) {
            if !wide.is_empty() && r.chance(30) {
                wide.push(' ');
            }
            wide.push_str(&gen_monthday_sel(r));
        }
        if r.chance(20) {
            if !wide.is_empty() {
                wide.push_str(r.pick(&[" ", "", ":", ": "]));
            }
            wide.push_str(&gen_week_sel(r));
        }
        s.push_str(&wide);
        let mut small = String::new();
        if r.chance(50) {
            small.push_str(&gen_weekday_sel(r));
        }
        if r.chance(60) {
            if !small.is_empty() {
                small.push(' ');
            }
            small.push_str(&gen_time_sel(r));
        }
        if !s.is_empty() && !small.is_empty() {
            s.push_str(r.pick(&[" ", ": ", ":"]));
        }
        s.push_str(&small);
    }
    if r.chance(40) {
        if !s.is_empty() {
            s.push(' ');
        }
        s.push_str(r.pick(&["open", "closed", "off", "unknown"]));
    }
    if r.chance(25) {
        if !s.is_empty() {
            s.push(' ');
        }
        s.push_str(&gen_comment(r));
    }
    s
}

fn gen_expr(r: &mut Rng) -> String {
    let n = 1 + r.below(3);
    let mut s = gen_rule(r);
    for _ in 1..n {
        s.push_str(r.pick(&[" ; ", ";", "; ", ", ", " || ", "|| "]));
        s.push_str(&gen_rule(r));
    }
    s
}

/// Join the comments of every rule in one string: the statement allows that.
fn join_comments(mut e: OpeningHoursExpression) -> OpeningHoursExpression {
    if let Some(first) = e.rules.first_mut() {
        // the operator of the first rule has no effect on evaluation
        first.operator = opening_hours_syntax::rules::RuleOperator::Normal;
    }
    for rule in &mut e.rules {
        if rule.comments.len() > 1 {
            let joined: Arc<str> = Arc::from(rule.comments.join(", "));
            rule.comments = vec![joined].into();
        }
    }
    e
}

#[test]
fn fuzz_struct() {
    let mut r = Rng(0x9E3779B97F4A7C15);
    let mut parsed = 0;
    let mut seen = std::collections::HashSet::new();
    for _ in 0..60_000 {
        let e = gen_expr(&mut r);
        let Ok(p) = parse(&e) else { continue };
        parsed += 1;
        for (label, x) in [("raw", p.clone()), ("norm", p.clone().normalize())] {
            let s = x.to_string();
            match parse(&s) {
                Err(_) => {
                    if seen.insert(s.clone()) && seen.len() < 200 {
                        println!("REPARSE-FAIL [{label}] {e:?} -> {s:?}");
                    }
                }
                Ok(y) => {
                    if join_comments(y.clone()) != join_comments(x.clone()) {
                        if seen.insert(s.clone()) && seen.len() < 200 {
                            println!("STRUCT-DIFF [{label}] {e:?} -> {s:?} -> {:?}", y.to_string());
                        }
                    }
                }
            }
        }
    }
    println!("parsed {parsed}");
}


// ---- simple profile: rules that the normalization can handle ----

fn gen_simple_rule(r: &mut Rng) -> String {
    let mut parts: Vec<String> = Vec::new();
    if r.chance(30) {
        let n = 1 + r.below(2);
        parts.push(
            (0..n)
                .map(|_| match r.below(3) {
                    0 => format!("{}+", r.pick(YEARS)),
                    1 => format!("{}-{}", r.pick(YEARS), r.pick(YEARS)),
                    _ => r.pick(YEARS).to_string(),
                })
                .collect::<Vec<_>>()
                .join(","),
        );
    }
    if r.chance(30) {
        let n = 1 + r.below(2);
        let md = (0..n)
            .map(|_| match r.below(2) {
                0 => r.pick(MONTHS).to_string(),
                _ => format!("{}-{}", r.pick(MONTHS), r.pick(MONTHS)),
            })
            .collect::<Vec<_>>()
            .join(",");
        if let Some(last) = parts.last_mut() {
            last.push_str(&md);
        } else {
            parts.push(md);
        }
    }
    if r.chance(25) {
        let wk = &["1", "2", "9", "10", "26", "52", "53"];
        let n = 1 + r.below(2);
        parts.push(format!(
            "week {}",
            (0..n)
                .map(|_| match r.below(2) {
                    0 => r.pick(wk).to_string(),
                    _ => format!("{}-{}", r.pick(wk), r.pick(wk)),
                })
                .collect::<Vec<_>>()
                .join(",")
        ));
    }
    if r.chance(50) {
        let n = 1 + r.below(2);
        parts.push(
            (0..n)
                .map(|_| match r.below(2) {
                    0 => r.pick(WD).to_string(),
                    _ => format!("{}-{}", r.pick(WD), r.pick(WD)),
                })
                .collect::<Vec<_>>()
                .join(","),
        );
    }
    if r.chance(60) {
        let t = &["00:00", "00:01", "06:30", "10:00", "12:00", "18:15", "23:59", "24:00"];
        let n = 1 + r.below(2);
        parts.push(
            (0..n)
                .map(|_| format!("{}-{}", r.pick(t), r.pick(t)))
                .collect::<Vec<_>>()
                .join(","),
        );
    }
    if parts.is_empty() && r.chance(50) {
        parts.push("24/7".to_string());
    }
    if r.chance(45) {
        parts.push(r.pick(&["open", "closed", "off", "unknown"]).to_string());
    }
    if r.chance(25) {
        parts.push(gen_comment(r));
    }
    parts.join(" ")
}

#[test]
fn fuzz_struct_simple() {
    let mut r = Rng(0xDEADBEEFCAFEF00D);
    let mut parsed = 0;
    let mut seen = std::collections::HashSet::new();
    for _ in 0..40_000 {
        let n = 1 + r.below(4);
        let mut e = gen_simple_rule(&mut r);
        for _ in 1..n {
            e.push_str(r.pick(&[" ; ", " ; ", ", ", " || "]));
            let rule = if r.chance(10) { gen_rule(&mut r) } else { gen_simple_rule(&mut r) };
            e.push_str(&rule);
        }
        let Ok(p) = parse(&e) else { continue };
        parsed += 1;
        let x = p.clone().normalize();
        let s = x.to_string();
        match parse(&s) {
            Err(_) => {
                if seen.insert(s.clone()) && seen.len() < 100 {
                    println!("REPARSE-FAIL [norm] {e:?} -> {s:?}");
                }
            }
            Ok(y) => {
                if join_comments(y.clone()) != join_comments(x.clone()) {
                    if seen.insert(s.clone()) && seen.len() < 100 {
                        println!("STRUCT-DIFF [norm] {e:?} -> {s:?} -> {:?}", y.to_string());
                    }
                }
            }
        }
    }
    println!("parsed {parsed}");
}


// ---- token soup: random concatenations of grammar terminals ----

#[test]
fn fuzz_token_soup() {
    const TOKENS: &[&str] = &[
        "Mo", "Tu", "Fr", "Su", "PH", "SH", "Jan", "Feb", "Aug", "Dec", "easter", "week", "24/7", "open", "off",
        "closed", "unknown", "sunrise", "sunset", "dawn", "dusk", "(", ")", "[", "]", "+", "-", "/", ":", ",",
        " ", " ", " ", ";", "||", "\"a\"", "\"b\"", "day", "days", "0", "1", "2", "3", "5", "9", "00", "01", "05", "10", "12",
        "24", "30", "31", "48", "53", "59", "1900", "2020", "2021", "9999", "10:00", "24:00", "02:00", "12:30", "26:00",
        ", ", " || ", " ; ", "-1", " +1 day", " -2 days", "[1]", "[-1]", "Mo-Fr", "Jan-Mar", "10:00-12:00", "Dec 31", "Jan 1",
    ];
    let mut r = Rng(0x1234567890ABCDEF);
    let mut parsed = 0;
    let mut seen = std::collections::HashSet::new();
    for _ in 0..600_000 {
        let n = 1 + r.below(9);
        let e: String = (0..n).map(|_| r.pick(TOKENS)).collect();
        let Ok(p) = parse(&e) else { continue };
        parsed += 1;
        for (label, x) in [("raw", p.clone()), ("norm", p.clone().normalize())] {
            let s = x.to_string();
            match parse(&s) {
                Err(_) => {
                    if seen.insert(s.clone()) && seen.len() < 100 {
                        println!("REPARSE-FAIL [{label}] {e:?} -> {s:?}");
                    }
                }
                Ok(y) => {
                    if join_comments(y.clone()) != join_comments(x.clone()) {
                        if seen.insert(s.clone()) && seen.len() < 100 {
                            println!("STRUCT-DIFF [{label}] {e:?} -> {s:?} -> {:?}", y.to_string());
                        }
                    }
                }
            }
        }
    }
    println!("parsed {parsed}");
}


// ---------------------------------------------------------------------------
// Evaluation-level comparison
// ---------------------------------------------------------------------------

fn sample_dates() -> Vec<NaiveDate> {
    let mut dates = Vec::new();
    let mut push_range = |from: (i32, u32, u32), days: u32| {
        let start = NaiveDate::from_ymd_opt(from.0, from.1, from.2).unwrap();
        for i in 0..days {
            dates.push(start + chrono::Duration::days(i.into()));
        }
    };
    push_range((1900, 1, 1), 10);
    push_range((2019, 12, 20), 420); // all of 2020 (leap year, 53 ISO weeks) and both ends
    push_range((2024, 2, 25), 10);
    push_range((9998, 12, 20), 25);
    push_range((9999, 12, 1), 31);
    dates
}

type Flat = Vec<(String, opening_hours::RuleKind, String)>;

/// The schedule of a day with all the comments of an interval joined in one string.
fn flat_schedule<L: Localize>(oh: &OpeningHours<L>, date: NaiveDate) -> Flat {
    oh.schedule_at(date)
        .into_iter()
        .map(|tr| (format!("{:?}", tr.range), tr.kind, tr.comments.join(", ")))
        .collect()
}

fn assert_same_eval<L: Localize>(label: &str, a: &OpeningHours<L>, b: &OpeningHours<L>) {
    for date in sample_dates() {
        assert_eq!(
            flat_schedule(a, date),
            flat_schedule(b, date),
            "[{label}] schedules differ on {date}: `{a}` vs `{b}`"
        );
    }
}

/// What the property requires of `expr`, for the expression and for its normal form, in a
/// context without and with holidays / coordinates.
fn assert_roundtrip(expr: &str) {
    let oh = OpeningHours::parse(expr).unwrap_or_else(|e| panic!("`{expr}` should parse: {e}"));

    for (label, oh) in [("raw", oh.clone()), ("normalized", oh.normalize())] {
        let printed = oh.to_string();

        let back = OpeningHours::parse(&printed).unwrap_or_else(|_| {
            panic!("[{label}] `{expr}` is printed as `{printed}` which does not parse")
        });

        assert_same_eval(label, &oh, &back);

        let ctx = Context::default()
            .with_holidays(Country::FR.holidays())
            .with_locale(TzLocation::new(chrono::Utc).with_coords(Coordinates::new(69.6, 18.9).unwrap()));

        assert_same_eval(label, &oh.clone().with_context(ctx.clone()), &back.with_context(ctx));
    }
}

// ---------------------------------------------------------------------------
// Confirmed defects
// ---------------------------------------------------------------------------

/// `9999 Dec 31-5` parses (the end of the range is Jan 5 of the *next* year), but the year of
/// the end is printed as `10000`, which is not a year for the parser.
#[test]
fn defect_year_10000_in_printed_form() {
    assert_roundtrip("9999 Dec 31-5");
}

#[test]
fn defect_year_10000_in_printed_form_variants() {
    assert_roundtrip("9999 Dec 5-1 10:00-12:00");
    assert_roundtrip("Mo 10:00-12:00; 9999 Dec 24+Su-1 off");
}

// ---------------------------------------------------------------------------
// Judgement calls
// ---------------------------------------------------------------------------

/// The normal form of an always closed expression has no rule and is printed `closed`, which
/// reads back as `24/7 closed`. Both are closed all day, but the `Schedule` values returned
/// by `schedule_at` are not equal (`is_empty()` differs too): an empty schedule vs an explicit
/// closed interval 00:00-24:00.
#[test]
fn judgement_empty_normal_form_schedule_value() {
    let normalized = OpeningHours::parse("Mo off").unwrap().normalize();
    let back = OpeningHours::parse(&normalized.to_string()).unwrap();
    let date = NaiveDate::from_ymd_opt(2024, 6, 3).unwrap();
    assert_same_eval("normalized", &normalized, &back); // same intervals when iterated
    assert_eq!(normalized.schedule_at(date), back.schedule_at(date)); // strict reading
}

/// A consequence of the joining of comments (allowed by the statement for one rule): where two
/// rules overlap, their comments are merged as a sorted set, and the joined comment does not
/// sort like its parts. Original: ["a", "b", "c"], read back: ["a, c", "b"].
#[test]
fn judgement_joined_comments_of_overlapping_rules() {
    let oh = OpeningHours::parse("\"c\":10:00-12:00 \"a\", 10:00-12:00 \"b\"").unwrap();
    let back = OpeningHours::parse(&oh.to_string()).unwrap();
    assert_same_eval("raw", &oh, &back);
}

// ---------------------------------------------------------------------------
// Ideas that held
// ---------------------------------------------------------------------------

macro_rules! ideas {
    ( $( $name:ident: [ $( $expr:expr ),* $(,)? ]; )* ) => {
        $(
            #[test]
            fn $name() {
                $( assert_roundtrip($expr); )*
            }
        )*
    };
}

ideas! {
    idea_single_year_before_month: ["2020-2020Jan-Mar,Aug-Dec", "2020-2020 easter", "2020Jan", "20202021 Jan 5 10:00-12:00"];
    idea_year_list_before_month: ["2020,2021Jan", "2019-2021,2024Jan 5", "2020-2030/2 easter", "2020-2030/2Jan"];
    idea_year_plus_and_steps: ["2020+", "2020-2020/2", "1900-9999", "2021-2020", "9999", "1900"];
    idea_year_with_week_or_weekday: ["2020 week 5", "2020 Mo", "2020 10:00-12:00", "2020-2021 week 1-53/2 Mo"];
    idea_open_ended_dates: ["Jan 5+", "2020 Jan 5+", "Jan 5 +2 days+", "easter+", "2020 easter+", "Dec 31+", "9999 Dec 31+", "Jan 5+Su+"];
    idea_date_to_daynum: ["Jan 5-10", "Jan 31-5", "2020 Dec 31-5", "Dec 31-5", "Feb 29-1", "Dec 31 +1 day-5"];
    idea_date_offsets: ["Jan 5-Su", "Jan 5+Su +3 days-Feb 1-Mo -2 days", "Jan 5-Jan 5 +2 days", "easter -2 days-easter +1 day", "Dec 25 +40000 days", "Jan 1 -9223372036854775807 days"];
    idea_impossible_dates: ["Feb 30", "Feb 29-Mar 1", "Jun 31-Jul 1", "2021 Feb 29"];
    idea_month_followed_by_time: ["Jan 10:00-12:00", "Jan 5:00-12:00", "Jan 5 5:00-12:00", "Jan 5:10:00-12:00", "Jan 310:00-12:00", "Jan-Feb 1:00-2:00"];
    idea_additional_rule_not_glued: ["Jan, Feb off", "Jan, easter off", "2020, 2021", "Mo, Tu", "PH, Mo", "week 5, week 6", "10:00-12:00, 14:00-16:00", "Jan 5, Jan 6"];
    idea_weekday_nth: ["Mo[1]", "Mo[-1]", "Mo[1-5]", "Mo[1-5,-1,-2,-3,-4,-5]", "Mo[3-1]", "Mo[3-1] +1 day", "Mo[1-5,-1,-2,-3,-4,-5] -1 day", "Mo[2,2,-5] +7 days", "Mo-Mo", "Su-Mo"];
    idea_holidays: ["PH", "SH", "PH Mo", "PH,Mo", "Mo,PH", "Mo PH", "PH +1 day", "PH -2 days,SH,Mo[1] +1 day", "Mo[1] +1 day,PH -1 day 10:00-12:00"];
    idea_weeks: ["week 5", "week 05", "week 5-5/2", "week 1-53/2", "week 53-1", "week 1,53,10-20/255", "Jan week 5", "Jan 5 week 5 Mo 10:00-12:00"];
    idea_time_open_end: ["10:00+", "10:00-24:00+", "10:00-12:00+", "sunrise+", "(sunset-01:00)+", "Mo 00:00-24:00+", "24:00+", "22:00-26:00+"];
    idea_time_repeats: ["10:00-16:00/01:30", "10:00-16:00/00:00", "10:00-16:00/24:00", "10:00-16:00/00", "10:00-16:00/59", "10:00-16:00 / 05", "sunrise-sunset/1:00"];
    idea_time_events: ["(sunrise+24:00)-sunset", "(sunrise-00:00)-sunset", "(dawn-01:30)-(dusk+00:01)", "sunset-sunrise", "dusk-dawn", "(sunset+12:00)-(sunrise-12:00)"];
    idea_extended_times: ["24:00-26:00", "22:00-02:00", "22:00-26:00", "00:00-48:00", "23:59-47:59", "10:00-10:00", "0:00-9:05", "Mo 00:00-24:00", "00:00-24:00", "00:00-24:00,10:00-12:00"];
    idea_modifiers: ["off", "open", "unknown", "closed \"x\"", "\"x\"", "24/7 off", "Mo open \"x\"", "Mo unknown \"x\"", "Mo 10:00-12:00 off \"x\""];
    idea_comments: ["\"a\":", "\"a\": \"b\"", "\"b\":Mo \"a\"", "\"a\":Mo \"a\"", "Mo \"x, y\"", "Mo \", \"", "Mo \" \"", "Mo \"\\\"", "Mo \"a;b || c\"", "Mo \"\n\t\u{85}\u{2028}\u{301}\"", "Mo \"24/7\""];
    idea_first_rule_operator: ["off || Mo 10:00-12:00", "Mo off, Tu 10:00-12:00", "Mo off || 24/7", "24/7 closed || Mo[1] \"x\""];
    idea_separators: ["Mo;Tu", "Mo ; Tu", "Mo|| Tu", "Mo || Tu", "Mo 10:00-12:00, Mo 14:00-16:00 unknown || \"call\"", "24/7 ; PH off"];
    idea_optional_spaces: [" Mo", "Mo ", ": Mo", "Jan 5Mo", "2020Mo", "week5Mo 10:00-12:00", "Jan:Mo", "Jan: 10:00-12:00", "10:00 - 12:00", "Jan 1 - Feb 1"];
    idea_normalize_wrapping: ["Sa-Mo 10:00-12:00; Su off", "Nov-Feb 10:00-12:00; Jan Mo off", "week 50-3 Mo; week 1 off", "24/7; 2020 off", "2020 10:00-12:00; 2020-2020Jan off"];
    idea_normalize_single_year_month: ["2020 10:00-12:00; Jan off", "2020-2020Jan 10:00-12:00; 2020Feb-Mar Mo 11:00-13:00 unknown", "2020,2022Jan; 2022 off"];
    idea_normalize_comments_and_kinds: ["Mo closed \"x\"", "Mo 10:00-12:00 \"b\"; \"a\":Mo 11:00-13:00 \"c\"", "24/7 unknown \"u\"; Mo off \"c\"; Tu 10:00-12:00", "Mo-Fr 10:00-18:00, Sa 10:00-12:00, Mo 12:00-13:00 off"];
    idea_normalize_partial: ["Mo 10:00-12:00; Tu 22:00-26:00; We 10:00-12:00", "Mo 10:00-12:00 || Tu", "Mo off; PH 10:00-12:00, Tu[1]"];
}


/// Evaluation-level check of what the structural fuzzers consider as harmless: the operator
/// of the first rule and the joining of the comments of a rule.
#[test]
fn fuzz_eval_when_structure_differs() {
    let dates: Vec<NaiveDate> = sample_dates().into_iter().step_by(7).collect();
    let mut r = Rng(0x0123456789ABCDEF);
    let mut compared = 0;

    for i in 0..60_000 {
        let e = if i % 2 == 0 {
            gen_expr(&mut r)
        } else {
            let n = 1 + r.below(3);
            let mut e = gen_simple_rule(&mut r);
            for _ in 1..n {
                e.push_str(r.pick(&[" ; ", ", ", " || "]));
                e.push_str(&gen_simple_rule(&mut r));
            }
            e
        };

        let Ok(oh) = OpeningHours::parse(&e) else { continue };
        if e.contains("9999") {
            continue; // known defect (year 10000)
        }

        for oh in [oh.clone(), oh.normalize()] {
            let back = OpeningHours::parse(&oh.to_string()).unwrap();
            if oh == back {
                continue; // structurally identical
            }
            compared += 1;
            for date in &dates {
                let a: Vec<_> = oh.schedule_at(*date).into_iter().map(|tr| (tr.range, tr.kind)).collect();
                let b: Vec<_> = back.schedule_at(*date).into_iter().map(|tr| (tr.range, tr.kind)).collect();
                assert_eq!(a, b, "`{e}` -> `{oh}` on {date}");
            }
        }
    }

    println!("compared {compared}");
}
