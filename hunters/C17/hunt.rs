//! Defect hunt for the property "Comments are well-formed and come from the rule in effect".
#![allow(dead_code)]

use std::sync::Arc;

use chrono::{Duration, NaiveDate, NaiveDateTime, NaiveTime, Timelike};
use opening_hours::schedule::TimeRange;
use opening_hours::{Context, DateTimeRange, OpeningHours, RuleKind};
use opening_hours::localization::{Coordinates, Country, Localize, TzLocation};
use opening_hours_syntax::ExtendedTime;

// ---------------------------------------------------------------------------------------------
// Helpers
// ---------------------------------------------------------------------------------------------

fn d(y: i32, m: u32, day: u32) -> NaiveDate {
    NaiveDate::from_ymd_opt(y, m, day).unwrap()
}

fn dt(y: i32, m: u32, day: u32, h: u32, mi: u32) -> NaiveDateTime {
    d(y, m, day).and_hms_opt(h, mi, 0).unwrap()
}

fn et(h: u8, m: u8) -> ExtendedTime {
    ExtendedTime::new(h, m).unwrap()
}

fn cm(c: &[Arc<str>]) -> Vec<String> {
    c.iter().map(|s| s.to_string()).collect()
}

fn sched<L: Localize>(oh: &OpeningHours<L>, date: NaiveDate) -> Vec<TimeRange> {
    oh.schedule_at(date).into_iter().collect()
}

fn show<L: Localize>(oh: &OpeningHours<L>, date: NaiveDate) -> String {
    sched(oh, date)
        .iter()
        .map(|tr| format!("{}-{} {:?} {:?}", tr.range.start, tr.range.end, tr.kind, cm(&tr.comments)))
        .collect::<Vec<_>>()
        .join(" | ")
}

fn period_at<L: Localize>(oh: &OpeningHours<L>, at: NaiveDateTime) -> TimeRange {
    let t = et(at.time().hour() as u8, at.time().minute() as u8);
    sched(oh, at.date())
        .into_iter()
        .find(|tr| tr.range.start <= t && t < tr.range.end)
        .expect("no period contains the instant")
}

fn well_formed(comments: &[Arc<str>], all: &[String]) -> Result<(), String> {
    for w in comments.windows(2) {
        if w[0] >= w[1] {
            return Err(format!("not strictly sorted: {:?}", cm(comments)));
        }
    }
    for c in comments {
        if !all.iter().any(|a| a.as_str() == &**c) {
            return Err(format!("comment {c:?} not from any rule (rules have {all:?})"));
        }
    }
    Ok(())
}

fn all_comments(expr: &str) -> Vec<String> {
    opening_hours_syntax::parse(expr)
        .unwrap()
        .rules
        .iter()
        .flat_map(|r| r.comments.iter().map(|c| c.to_string()))
        .collect()
}

// Small deterministic generator
struct Rng(u64);
impl Rng {
    fn next(&mut self) -> u64 {
        self.0 ^= self.0 << 13;
        self.0 ^= self.0 >> 7;
        self.0 ^= self.0 << 17;
        self.0
    }
    fn below(&mut self, n: usize) -> usize {
        (self.next() % n as u64) as usize
    }
    fn pick<'a, T>(&mut self, xs: &'a [T]) -> &'a T {
        &xs[self.below(xs.len())]
    }
}

// ---------------------------------------------------------------------------------------------
// A generic oracle, run on random expressions
// ---------------------------------------------------------------------------------------------

const DAYSEL: &[&str] = &[
    "", "", "Mo", "Tu-Th", "Sa,Su", "Jan", "Jan 01", "Dec 31", "Dec 31-Jan 01", "week 1-53/2", "2024",
    "Mo[1]", "Su[-1]", "PH", "SH", "easter", "easter -1 day", "Jan-Mar Mo", "2020-2030/2", "Dec 25-Jan 05",
    "1900", "9999", "1900 Jan 01", "9999 Dec 31", "Fr-Mo", "Mo[2] +1 day", "PH -1 day", "PH +1 day",
    "Feb 29", "Jan 01+", "2025+", "week 53", "week 1", "Mo,PH", "PH Mo",
    "Mo[1,3,5]", "Mo[-1] -1 day", "Su[5] +2 days", "Jan 31 +Mo", "Dec 31 +1 day", "Jan 01 -1 day",
    "easter +50 days", "easter -Su", "2030-2020", "week 52-02", "Dec-Jan", "2024 Dec 31-Jan 01",
    "1900 Jan 01-9999 Dec 31", "Feb 30", "Feb 29-Mar 01", "SH,PH", "Sa-Mo", "Dec 31 Fr", "1900 Mo", "9999 Fr",
    "week 1 Mo", "2024 week 1", "Jan 01-Dec 31", "Mo-Su", "1900-9999",
];

const TIMESEL: &[&str] = &[
    "", "", "10:00-12:00", "22:00-26:00", "00:00-24:00", "08:00-12:00,14:00-18:00", "sunrise-sunset",
    "12:00+", "20:00-04:00", "00:00-00:00", "10:00-16:00/90", "23:59-24:01", "00:00-00:01", "12:00-12:00",
    "sunset-sunrise", "00:00-48:00", "23:00-47:00", "14:00-16:00", "12:00-14:00", "(sunset+02:00)-(sunrise-02:00)",
    "00:00-10:00", "18:00-24:00", "10:00-12:00,11:00-13:00", "02:00-03:00", "dusk-dawn",
    "(dusk+24:00)-26:00", "(dusk+24:00)-(dawn+01:00)", "(sunrise-08:00)-(sunrise-07:30)", "24:00-26:00",
    "24:00-24:00", "24:00-00:00", "23:59-00:00", "00:00-24:00,22:00-26:00", "00:01-24:00", "00:00-23:59",
    "10:00-12:00,12:00-14:00", "10:00-12:00,12:01-14:00", "sunrise+", "22:00+", "00:00+", "12:00-36:00",
    "12:00-12:00", "12:01-12:00", "00:00-24:00/60", "dawn-dusk,22:00-30:00",
];

const KIND: &[&str] = &["", "", "open", "closed", "off", "unknown"];
const COMMENT: &[&str] = &["", "", "\"a\"", "\"b\"", "\"c\"", "\"Z\"", "\"é\"", "\"a b\"", "\" \"", "\"aa\"", "\"a, b\"", "\"p\"", "\"zz\"", "\"||\"", "\";\""];
const SEP: &[&str] = &["; ", "; ", ", ", " || ", ";", " ; "];

struct GenRule {
    text: String,
    /// same selector, but open without comment
    twin: String,
}

fn gen_rule(rng: &mut Rng) -> Option<GenRule> {
    let ds = *rng.pick(DAYSEL);
    let ts = *rng.pick(TIMESEL);
    let kind = *rng.pick(KIND);
    let comment = *rng.pick(COMMENT);
    let prefix = if rng.below(8) == 0 { *rng.pick(&["\"p\":", "\"a\":", "\"zz\":"]) } else { "" };
    let has_wide = ["Jan", "Dec", "week", "19", "20", "99", "easter", "Feb", "20"].iter().any(|p| ds.starts_with(p));
    if !prefix.is_empty() && has_wide {
        return None;
    }

    let mut sel = String::new();
    sel.push_str(prefix);
    sel.push_str(ds);
    if !ds.is_empty() && !ts.is_empty() {
        sel.push(' ');
    }
    sel.push_str(ts);

    if sel.is_empty() {
        sel.push_str("24/7");
    }
    if sel.ends_with(':') && kind.is_empty() && comment.is_empty() {
        return None;
    }

    let mut text = sel.clone();
    for part in [kind, comment] {
        if !part.is_empty() {
            text.push(' ');
            text.push_str(part);
        }
    }

    let mut bare = sel.as_str();
    for p in ["\"p\":", "\"a\":", "\"zz\":"] {
        bare = bare.trim_start_matches(p);
    }
    let twin = if bare.is_empty() { "24/7 open".to_string() } else { format!("{bare} open") };
    let a = opening_hours_syntax::parse(&text).ok().filter(|e| e.rules.len() == 1)?;
    let b = opening_hours_syntax::parse(&twin).ok().filter(|e| e.rules.len() == 1)?;
    if a.rules[0].day_selector != b.rules[0].day_selector || a.rules[0].time_selector != b.rules[0].time_selector {
        return None;
    }
    Some(GenRule { text, twin })
}

struct GenExpr {
    text: String,
    rules: Vec<GenRule>,
}

fn gen_expr(rng: &mut Rng) -> Option<GenExpr> {
    let n = 1 + rng.below(4);
    let mut rules = Vec::new();
    let mut text = String::new();
    for i in 0..n {
        let r = gen_rule(rng)?;
        if i > 0 {
            text.push_str(*rng.pick(SEP));
        }
        text.push_str(&r.text);
        rules.push(r);
    }
    let parsed = opening_hours_syntax::parse(&text).ok()?;
    if parsed.rules.len() != n {
        return None;
    }
    for (p, r) in parsed.rules.iter().zip(&rules) {
        let alone = opening_hours_syntax::parse(&r.text).unwrap();
        let a = &alone.rules[0];
        if a.comments != p.comments || a.kind != p.kind || a.day_selector != p.day_selector || a.time_selector != p.time_selector {
            return None;
        }
    }
    Some(GenExpr { text, rules })
}

fn dates(rng: &mut Rng) -> Vec<NaiveDate> {
    let mut res = vec![
        d(1899, 12, 30),
        d(1899, 12, 31),
        d(1900, 1, 1),
        d(1900, 1, 2),
        d(9999, 12, 30),
        d(9999, 12, 31),
        d(10000, 1, 1),
        d(10000, 1, 2),
        d(2024, 12, 31),
        d(2025, 1, 1),
        d(2024, 2, 29),
        d(2024, 3, 31),
        d(2024, 4, 1),
        d(2020, 12, 28),
        d(2021, 1, 3),
        d(2021, 1, 4),
    ];
    for _ in 0..12 {
        res.push(d(2019, 1, 1) + Duration::days(rng.below(365 * 12) as i64));
    }
    for _ in 0..6 {
        // anywhere in (and a bit around) the supported range
        res.push(d(1890, 1, 1) + Duration::days(rng.below(2_970_000) as i64));
    }
    res.push(d(-4000, 3, 1));
    res.push(d(200_000, 3, 1));
    res
}

fn touches(a: &std::ops::Range<ExtendedTime>, b: &std::ops::Range<ExtendedTime>) -> bool {
    a.start <= b.end && b.start <= a.end
}

static CHECKED_SINGLE: std::sync::atomic::AtomicU64 = std::sync::atomic::AtomicU64::new(0);
static CHECKED_FIRST: std::sync::atomic::AtomicU64 = std::sync::atomic::AtomicU64::new(0);
static CHECKED_NOBODY: std::sync::atomic::AtomicU64 = std::sync::atomic::AtomicU64::new(0);

fn check_expr<L>(g: &GenExpr, ctx: &Context<L>, rng: &mut Rng, mk: impl Fn(NaiveDateTime) -> Option<L::DateTime>, back: impl Fn(&L::DateTime) -> NaiveDateTime) -> Result<(), String>
where
    L: Localize,
{
    let oh = &OpeningHours::parse(&g.text).unwrap().with_context(ctx.clone());
    let naive_oh = oh;
    let all = all_comments(&g.text);
    let singles: Vec<OpeningHours<L>> = g.rules.iter().map(|r| OpeningHours::parse(&r.text).unwrap().with_context(ctx.clone())).collect();
    let twins: Vec<OpeningHours<L>> = g.rules.iter().map(|r| OpeningHours::parse(&r.twin).unwrap().with_context(ctx.clone())).collect();
    let rule_comments: Vec<Vec<String>> = singles
        .iter()
        .zip(&g.rules)
        .map(|(_, r)| all_comments(&r.text))
        .map(|mut v| {
            v.sort();
            v.dedup();
            v
        })
        .collect();

    for date in dates(rng) {
        let in_range = date >= d(1900, 1, 1) && date < d(10000, 1, 1);
        let periods: Vec<TimeRange> = oh.schedule_at(date).into_iter().collect();

        // partition of the day
        let mut last = et(0, 0);
        for p in &periods {
            if p.range.start != last || p.range.end <= p.range.start {
                return Err(format!("{date}: not a partition: {periods:?}"));
            }
            last = p.range.end;
            well_formed(&p.comments, &all).map_err(|e| format!("{date}: schedule: {e}"))?;
            if !in_range && !p.comments.is_empty() {
                return Err(format!("{date}: comments outside the date range: {:?}", p));
            }
        }

        // which rules contribute
        let own: Vec<Vec<std::ops::Range<ExtendedTime>>> = twins
            .iter()
            .map(|t| {
                t.schedule_at(date)
                    .into_iter()
                    .filter(|tr| tr.kind != RuleKind::Closed)
                    .map(|tr| tr.range)
                    .collect()
            })
            .collect();

        let nobody = singles.iter().all(|s| s.schedule_at(date).is_empty());
        if nobody && own.iter().all(|o| o.is_empty()) {
            CHECKED_NOBODY.fetch_add(1, std::sync::atomic::Ordering::Relaxed);
            for p in &periods {
                if !p.comments.is_empty() {
                    return Err(format!("{date}: no rule contributes but {:?}", p));
                }
            }
        }

        if in_range {
            for p in &periods {
                if p.kind == RuleKind::Closed {
                    continue;
                }
                let touching: Vec<usize> = (0..g.rules.len())
                    .filter(|&i| own[i].iter().any(|r| touches(r, &p.range)))
                    .collect();
                if touching.len() == 1 {
                    let i = touching[0];
                    CHECKED_SINGLE.fetch_add(1, std::sync::atomic::Ordering::Relaxed);
                    if cm(&p.comments) != rule_comments[i] {
                        return Err(format!(
                            "{date}: period {:?} only touched by rule #{i} `{}` but has comments {:?}",
                            p.range, g.rules[i].text, cm(&p.comments)
                        ));
                    }
                }
                if touching.is_empty() {
                    return Err(format!("{date}: period {:?} touched by no rule?", p));
                }
            }
        }

        // range iteration
        for _ in 0..4 {
            let secs = rng.below(86_400) as u32;
            let secs = match rng.below(6) {
                0 => 0,
                1 => 86_399,
                2 => (secs / 3600) * 3600,
                3 => ((secs / 3600) * 3600 + 3599).min(86_399),
                _ => secs,
            };
            let from = date.and_time(NaiveTime::from_num_seconds_from_midnight_opt(secs, 0).unwrap());
            let span = *rng.pick(&[1i64, 60, 3600, 86_400, 3 * 86_400, 40 * 86_400, 400 * 86_400]);
            let to = from + Duration::seconds(span);
            let (Some(lfrom), Some(lto)) = (mk(from), mk(to)) else { continue };
            let nfrom = back(&lfrom);
            let intervals: Vec<DateTimeRange<L::DateTime>> = oh.iter_range(lfrom, lto).take(50).collect();
            for (k, it) in intervals.iter().enumerate() {
                well_formed(&it.comments, &all).map_err(|e| format!("{from}: interval: {e}"))?;
                let s = back(&it.range.start);
                let e = back(&it.range.end);
                let wholly_outside = e <= dt(1900, 1, 1, 0, 0) || s >= dt(10000, 1, 1, 0, 0);
                if wholly_outside && !it.comments.is_empty() {
                    return Err(format!("{from}: interval outside range has comments {:?}", cm(&it.comments)));
                }
                if k == 0 {
                    if nfrom < opening_hours::DATE_END {
                        let exp = period_at(naive_oh, nfrom);
                        CHECKED_FIRST.fetch_add(1, std::sync::atomic::Ordering::Relaxed);
                        if exp.comments != it.comments || exp.kind != it.kind {
                            return Err(format!(
                                "from {nfrom}: first interval {:?} {:?} but schedule period {:?}",
                                it.kind, cm(&it.comments), exp
                            ));
                        }
                    }
                }
            }
            if intervals.is_empty() && nfrom < opening_hours::DATE_END && back(&mk(to).unwrap()) > nfrom {
                return Err(format!("from {from}: no interval"));
            }
        }
    }
    Ok(())
}

fn run_oracle<L: Localize>(seed: u64, count: usize, ctx: Context<L>, mk: impl Fn(NaiveDateTime) -> Option<L::DateTime>, back: impl Fn(&L::DateTime) -> NaiveDateTime) {
    let mut rng = Rng(seed);
    let mut done = 0;
    let mut failures = Vec::new();
    while done < count {
        let Some(g) = gen_expr(&mut rng) else { continue };
        done += 1;
        if let Err(e) = check_expr(&g, &ctx, &mut rng, &mk, &back) {
            failures.push(format!("`{}`: {e}", g.text));
            if failures.len() > 15 {
                break;
            }
        }
    }
    use std::sync::atomic::Ordering::Relaxed;
    eprintln!("checked: single-rule periods {}, first intervals {}, nobody-days {}", CHECKED_SINGLE.load(Relaxed), CHECKED_FIRST.load(Relaxed), CHECKED_NOBODY.load(Relaxed));
    assert!(failures.is_empty(), "{} failures:\n{}", failures.len(), failures.join("\n"));
}

#[test]
fn idea_00_random_oracle_naive() {
    run_oracle(0x9E3779B97F4A7C15, 1200, Context::default(), Some, |x| *x);
}

#[test]
fn idea_00b_random_oracle_naive_more_seeds() {
    let hs: Vec<_> = (0..6u64)
        .map(|i| std::thread::spawn(move || run_oracle(0xABCDEF + i * 7919, 1200, Context::default(), Some, |x| *x)))
        .collect();
    for h in hs {
        h.join().unwrap();
    }
}

#[test]
fn idea_01_random_oracle_bounded_context() {
    run_oracle(12345, 500, Context::default().approx_bound_interval_size(chrono::TimeDelta::days(2)), Some, |x| *x);
    run_oracle(54321, 300, Context::default().approx_bound_interval_size(chrono::TimeDelta::zero()), Some, |x| *x);
}

#[test]
fn idea_02_random_oracle_holidays() {
    run_oracle(777, 600, Context::default().with_holidays(Country::FR.holidays()), Some, |x| *x);
}

#[test]
fn idea_03_random_oracle_timezone_and_coords() {
    use chrono::TimeZone;
    let tz = chrono_tz::Europe::Paris;
    let coords = Coordinates::new(48.8535, 2.34839).unwrap();
    let ctx = Context::default().with_holidays(Country::FR.holidays()).with_locale(TzLocation::new(tz).with_coords(coords));
    run_oracle(999, 500, ctx, move |n| tz.from_local_datetime(&n).earliest(), |x| x.naive_local());
    // polar coordinates: sun events may not exist
    let tz = chrono_tz::Arctic::Longyearbyen;
    let coords = Coordinates::new(78.22, 15.65).unwrap();
    let ctx = Context::default().with_locale(TzLocation::new(tz).with_coords(coords));
    run_oracle(4242, 400, ctx, move |n| tz.from_local_datetime(&n).latest(), |x| x.naive_local());
}


// ---------------------------------------------------------------------------------------------
// Targeted ideas
// ---------------------------------------------------------------------------------------------

fn oh(s: &str) -> OpeningHours {
    // (helper)
    OpeningHours::parse(s).unwrap_or_else(|e| panic!("{s}: {e}"))
}

fn first(oh: &OpeningHours, from: NaiveDateTime, to: NaiveDateTime) -> DateTimeRange {
    oh.iter_range(from, to).next().expect("no first interval")
}

/// 1899-12-31 is a Sunday: its spill into the first supported day is reported with the comment,
/// the day itself (outside the range) has no comment.
#[test]
fn idea_04_spill_from_the_day_before_the_range() {
    let oh = oh("Su 22:00-26:00 \"x\"");
    assert_eq!(show(&oh, d(1899, 12, 31)), "00:00-24:00 Closed []");
    assert_eq!(show(&oh, d(1900, 1, 1)), "00:00-02:00 Open [\"x\"] | 02:00-24:00 Closed []");
    let it: Vec<_> = oh.iter_range(dt(1899, 12, 31, 23, 0), dt(1900, 1, 1, 3, 0)).collect();
    assert_eq!(cm(&it[0].comments), Vec::<String>::new());
    assert_eq!(it[0].range.end, dt(1900, 1, 1, 0, 0));
    assert_eq!(cm(&it[1].comments), vec!["x"]);
}

/// 9999-12-31 is a Friday: the spill into year 10000 is not reported.
#[test]
fn idea_05_spill_after_the_range() {
    let oh = oh("Fr 22:00-26:00 \"x\"; Sa unknown \"y\"");
    assert_eq!(show(&oh, d(10000, 1, 1)), "00:00-24:00 Closed []");
    let it: Vec<_> = oh.iter_range(dt(9999, 12, 31, 23, 0), dt(10000, 1, 3, 3, 0)).collect();
    assert_eq!(it.len(), 1);
    assert_eq!(cm(&it[0].comments), vec!["x"]);
    assert_eq!(it[0].range.end, opening_hours::DATE_END);
    assert_eq!(oh.iter_range(dt(10000, 1, 1, 0, 0), dt(10000, 1, 3, 3, 0)).count(), 0);
    assert_eq!(oh.iter_range(dt(10000, 1, 1, 12, 0), dt(10000, 1, 3, 3, 0)).count(), 0);
}

/// Starting before 1900 with a constant closed-with-comment expression: the first interval starts
/// outside the range, so it must not have comments (the period containing the start has none).
#[test]
fn idea_06_start_before_the_range() {
    for e in ["24/7 closed \"x\"", "24/7 open \"x\"", "24/7 unknown \"x\"", "1900 Jan 01 off \"x\"", "Mo-Su off \"x\""] {
        let oh = oh(e);
        for from in [dt(1899, 12, 31, 23, 59), dt(1500, 6, 1, 12, 0), NaiveDateTime::MIN] {
            let f = first(&oh, from, dt(1900, 1, 2, 0, 0));
            assert_eq!(cm(&f.comments), Vec::<String>::new(), "{e} from {from}");
            assert_eq!(f.kind, RuleKind::Closed);
        }
    }
}

#[test]
fn idea_07_same_comment_in_several_rules_is_reported_once() {
    let oh = oh("10:00-12:00 \"a\", 12:00-14:00 \"a\", 11:00-13:00 \"a\", 14:00-15:00 \"b\", 09:00-10:00 \"a\"");
    assert_eq!(show(&oh, d(2024, 5, 6)), "00:00-09:00 Closed [] | 09:00-15:00 Open [\"a\", \"b\"] | 15:00-24:00 Closed []");
}

#[test]
fn idea_08_prefix_and_suffix_comment() {
    let o = oh("\"z\":Mo 10:00-12:00 \"a\"; \"a\":Tu \"a\"; \"é\":We \"Z\"");
    assert_eq!(show(&o, d(2024, 5, 6)), "00:00-10:00 Closed [] | 10:00-12:00 Open [\"a\", \"z\"] | 12:00-24:00 Closed []");
    assert_eq!(show(&o, d(2024, 5, 7)), "00:00-24:00 Open [\"a\"]");
    assert_eq!(show(&o, d(2024, 5, 8)), "00:00-24:00 Open [\"Z\", \"é\"]");
}

#[test]
fn idea_09_many_rules_many_comments_sorted() {
    // 60 rules, comments in a scrambled order, all overlapping: one period with all comments
    let mut rng = Rng(31337);
    let mut names: Vec<String> = (0..60).map(|i| format!("c{:02}", (i * 37) % 60)).collect();
    names.push("c00".into());
    names.push("É".into());
    names.push("~".into());
    names.push("A".into());
    let text = names
        .iter()
        .map(|n| {
            let h = rng.below(20);
            format!("{:02}:00-{:02}:30 \"{n}\"", h, h + 3)
        })
        .collect::<Vec<_>>()
        .join(", ");
    let o = oh(&text);
    let all = all_comments(&text);
    for tr in sched(&o, d(2024, 5, 6)) {
        well_formed(&tr.comments, &all).unwrap();
    }
    for it in o.iter_range(dt(2024, 5, 6, 0, 0), dt(2024, 5, 9, 0, 0)) {
        well_formed(&it.comments, &all).unwrap();
    }
    let open: Vec<_> = sched(&o, d(2024, 5, 6)).into_iter().filter(|t| t.kind == RuleKind::Open).collect();
    assert_eq!(open.len(), 1);
    assert_eq!(open[0].comments.len(), 63);
}

#[test]
fn idea_10_dst_fold_and_gap() {
    use chrono::TimeZone;
    let tz = chrono_tz::Europe::Paris;
    let ctx = Context::default().with_locale(TzLocation::new(tz));
    let o = oh("02:00-03:00 \"night\", Su 02:30-02:45 unknown \"sunday\", Su 03:00-04:00 \"after\"").with_context(ctx);
    // fold: 2024-10-27 02:30 exists twice
    let both = tz.from_local_datetime(&dt(2024, 10, 27, 2, 30));
    for from in [both.earliest().unwrap(), both.latest().unwrap()] {
        let f = o.iter_range(from, from + Duration::hours(5)).next().unwrap();
        assert_eq!(cm(&f.comments), vec!["sunday"], "{from}");
        assert_eq!(f.kind, RuleKind::Unknown);
    }
    // gap: 2024-03-31 02:00-03:00 does not exist; the instant just after it is 03:00 local
    let from = tz.from_local_datetime(&dt(2024, 3, 31, 1, 59)).unwrap() + Duration::minutes(1);
    assert_eq!(from.naive_local(), dt(2024, 3, 31, 3, 0));
    let f = o.iter_range(from, from + Duration::hours(5)).next().unwrap();
    assert_eq!(f.comments, period_at(&o, dt(2024, 3, 31, 3, 0)).comments);
    assert_eq!(cm(&f.comments), vec!["after", "night"]); // the two open periods touch
}

#[test]
fn idea_11_sub_minute_start_instants() {
    let o = oh("10:00-12:00 \"a\"; 12:00-13:00 unknown \"b\"".replace("; ", ", ").as_str());
    let day = d(2024, 5, 6);
    let t = |h, m, s, ms| day.and_time(NaiveTime::from_hms_milli_opt(h, m, s, ms).unwrap());
    assert_eq!(cm(&first(&o, t(9, 59, 59, 999), t(23, 0, 0, 0)).comments), Vec::<String>::new());
    assert_eq!(cm(&first(&o, t(11, 59, 59, 999), t(23, 0, 0, 0)).comments), vec!["a"]);
    // leap second representation of 11:59:60
    assert_eq!(cm(&first(&o, t(11, 59, 59, 1500), t(23, 0, 0, 0)).comments), vec!["a"]);
    assert_eq!(cm(&first(&o, t(12, 0, 0, 0), t(23, 0, 0, 0)).comments), vec!["b"]);
    // range shorter than a minute / a second
    assert_eq!(cm(&first(&o, t(11, 59, 59, 0), t(11, 59, 59, 1)).comments), vec!["a"]);
    assert_eq!(cm(&first(&o, t(23, 59, 59, 1999), t(23, 59, 59, 1999) + Duration::milliseconds(1)).comments), Vec::<String>::new());
}

#[test]
fn idea_12_fallback_chains() {
    let o = oh("Mo 10:00-12:00 \"a\" || Tu unknown \"b\" || \"c\"");
    assert_eq!(show(&o, d(2024, 5, 6)), "00:00-10:00 Closed [] | 10:00-12:00 Open [\"a\"] | 12:00-24:00 Closed []");
    assert_eq!(show(&o, d(2024, 5, 7)), "00:00-24:00 Unknown [\"b\"]");
    assert_eq!(show(&o, d(2024, 5, 8)), "00:00-24:00 Open [\"c\"]");
    // a closed rule with a comment is replaced by the fallback and leaves no comment behind
    let o = oh("Mo off \"a\" || 10:00-12:00 unknown \"c\"");
    assert_eq!(show(&o, d(2024, 5, 6)), "00:00-10:00 Closed [] | 10:00-12:00 Unknown [\"c\"] | 12:00-24:00 Closed []");
    // a fallback which does not apply leaves no comment
    let o = oh("Mo 10:00-12:00 \"a\" || Mo 14:00-16:00 unknown \"c\"");
    assert_eq!(show(&o, d(2024, 5, 6)), "00:00-10:00 Closed [] | 10:00-12:00 Open [\"a\"] | 12:00-24:00 Closed []");
}

#[test]
fn idea_13_normal_rule_override_leaves_no_comment() {
    let o = oh("Mo-Fr 08:00-20:00 \"week\"; We 10:00-12:00 unknown \"we\"");
    assert_eq!(show(&o, d(2024, 5, 8)), "00:00-10:00 Closed [] | 10:00-12:00 Unknown [\"we\"] | 12:00-24:00 Closed []");
    // yesterday's spill of an overridden rule
    let o = oh("Tu 20:00-28:00 \"tu\"; We 10:00-12:00 unknown \"we\"");
    assert_eq!(show(&o, d(2024, 5, 8)), "00:00-10:00 Closed [] | 10:00-12:00 Unknown [\"we\"] | 12:00-24:00 Closed []");
}

#[test]
fn idea_14_closed_cut_does_not_pollute_open_neighbours_without_contact() {
    // closed cut in the middle: the open pieces touch the closed period (excluded by the
    // statement), but an isolated later open period must be untouched
    let o = oh("08:00-12:00 \"a\", 10:00-11:00 off \"cut\", 14:00-16:00 unknown \"b\"");
    assert_eq!(
        show(&o, d(2024, 5, 8)),
        "00:00-08:00 Closed [] | 08:00-10:00 Open [\"a\"] | 10:00-11:00 Closed [\"cut\"] | 11:00-12:00 Open [\"a\"] | 12:00-14:00 Closed [] | 14:00-16:00 Unknown [\"b\"] | 16:00-24:00 Closed []"
    );
}

#[test]
fn idea_15_normalize_keeps_comments_well_formed() {
    let mut rng = Rng(2024);
    let mut done = 0;
    while done < 400 {
        let Some(g) = gen_expr(&mut rng) else { continue };
        done += 1;
        let all = all_comments(&g.text);
        let o = oh(&g.text).normalize();
        for date in dates(&mut rng) {
            let in_range = date >= d(1900, 1, 1) && date < d(10000, 1, 1);
            for tr in sched(&o, date) {
                well_formed(&tr.comments, &all).unwrap_or_else(|e| panic!("`{}` normalized `{o}` {date}: {e}", g.text));
                assert!(in_range || tr.comments.is_empty());
            }
            let from = date.and_hms_opt(rng.below(24) as u32, rng.below(60) as u32, 0).unwrap();
            if let Some(f) = o.iter_range(from, from + Duration::days(3)).next() {
                well_formed(&f.comments, &all).unwrap();
                assert_eq!(f.comments, period_at(&o, from).comments, "`{}` normalized `{o}` from {from}", g.text);
            }
        }
    }
}

#[test]
fn idea_16_zero_and_negative_bound() {
    for bound in [chrono::TimeDelta::zero(), chrono::TimeDelta::days(-3), chrono::TimeDelta::minutes(1), chrono::TimeDelta::days(-100_000), chrono::TimeDelta::days(100_000_000)] {
        let ctx = Context::default().approx_bound_interval_size(bound);
        let o = oh("Mo 10:00-12:00 \"a\"; Tu 22:00-26:00 unknown \"b\"").with_context(ctx);
        for (from, exp) in [
            (dt(2024, 5, 6, 11, 0), vec!["a"]),
            (dt(2024, 5, 6, 12, 0), vec![]),
            (dt(2024, 5, 7, 23, 0), vec!["b"]),
            (dt(2024, 5, 8, 1, 59), vec!["b"]),
            (dt(2024, 5, 8, 2, 0), vec![]),
        ] {
            let f = o.iter_range(from, from + Duration::days(30)).next().unwrap();
            assert_eq!(cm(&f.comments), exp, "{bound:?} {from}");
        }
    }
}

#[test]
fn idea_17_constant_fast_path_with_different_comments() {
    let o = oh("24/7 \"a\"; Mo 00:00-24:00 \"b\"; Tu \"c\"");
    assert_eq!(cm(&first(&o, dt(2024, 5, 5, 12, 0), dt(2025, 1, 1, 0, 0)).comments), vec!["a"]);
    assert_eq!(cm(&first(&o, dt(2024, 5, 6, 12, 0), dt(2025, 1, 1, 0, 0)).comments), vec!["b"]);
    assert_eq!(cm(&first(&o, dt(2024, 5, 7, 12, 0), dt(2025, 1, 1, 0, 0)).comments), vec!["c"]);
    let o = oh("24/7 closed \"a\"; Mo 00:00-24:00 closed \"b\"");
    assert_eq!(cm(&first(&o, dt(2024, 5, 5, 12, 0), dt(2025, 1, 1, 0, 0)).comments), vec!["a"]);
    assert_eq!(cm(&first(&o, dt(2024, 5, 6, 12, 0), dt(2025, 1, 1, 0, 0)).comments), vec!["a", "b"]);
}

#[test]
fn idea_18_empty_and_reversed_ranges_report_nothing() {
    let o = oh("24/7 \"a\"");
    assert_eq!(o.iter_range(dt(2024, 5, 5, 12, 0), dt(2024, 5, 5, 12, 0)).count(), 0);
    assert_eq!(o.iter_range(dt(2024, 5, 5, 12, 0), dt(2024, 5, 4, 12, 0)).count(), 0);
    assert_eq!(o.iter_range(opening_hours::DATE_END, opening_hours::DATE_END + Duration::days(1)).count(), 0);
}

#[test]
fn idea_19_every_interval_has_the_comments_of_the_period_at_its_start() {
    let mut rng = Rng(555);
    let mut done = 0;
    while done < 120 {
        let Some(g) = gen_expr(&mut rng) else { continue };
        done += 1;
        let o = oh(&g.text).with_context(Context::default().approx_bound_interval_size(chrono::TimeDelta::days(400)));
        let from = dt(2024, 2, 20, 0, 0) + Duration::minutes(rng.below(60 * 24 * 30) as i64);
        for it in o.iter_range(from, from + Duration::days(12)).take(25) {
            let p = period_at(&o, it.range.start);
            assert_eq!((it.kind, &it.comments), (p.kind, &p.comments), "`{}` interval {:?}", g.text, it.range);
            // and restarting the iteration there gives the same thing
            let again = o.iter_from(it.range.start).next().unwrap();
            assert_eq!(again.comments, it.comments);
        }
    }
}

#[test]
fn idea_20_spans_of_two_days() {
    let o = oh("Mo 00:00-48:00 \"a\"; We 12:00-36:00 unknown \"b\"");
    assert_eq!(show(&o, d(2024, 5, 6)), "00:00-24:00 Open [\"a\"]");
    assert_eq!(show(&o, d(2024, 5, 7)), "00:00-24:00 Open [\"a\"]");
    assert_eq!(show(&o, d(2024, 5, 8)), "00:00-12:00 Closed [] | 12:00-24:00 Unknown [\"b\"]");
    assert_eq!(show(&o, d(2024, 5, 9)), "00:00-12:00 Unknown [\"b\"] | 12:00-24:00 Closed []");
    assert_eq!(show(&o, d(2024, 5, 10)), "00:00-24:00 Closed []");
}

#[test]
fn idea_21_open_end_and_repeats() {
    let o = oh("Mo 22:00+ \"late\"; Tu 10:00-16:00/01:30 unknown \"tour\"; We sunrise+ \"sun\"");
    for date in [d(2024, 5, 6), d(2024, 5, 7), d(2024, 5, 8), d(2024, 5, 9)] {
        for tr in sched(&o, date) {
            if tr.kind != RuleKind::Closed {
                assert_eq!(tr.comments.len(), 1, "{date} {tr:?}");
            } else {
                assert!(tr.comments.is_empty(), "{date} {tr:?}");
            }
        }
    }
}

#[test]
fn idea_22_holiday_rules() {
    let ctx = Context::default().with_holidays(Country::FR.holidays());
    let o = oh("Mo-Su 08:00-20:00 \"std\"; PH 10:00-12:00 unknown \"ph\"; PH -1 day 22:00-26:00 \"eve\"").with_context(ctx);
    // 2024-07-14 is a public holiday in France
    assert_eq!(show(&o, d(2024, 7, 13)), "00:00-22:00 Closed [] | 22:00-24:00 Open [\"eve\"]");
    assert_eq!(show(&o, d(2024, 7, 14)), "00:00-10:00 Closed [] | 10:00-12:00 Unknown [\"ph\"] | 12:00-24:00 Closed []");
    assert_eq!(show(&o, d(2024, 7, 15)), "00:00-08:00 Closed [] | 08:00-20:00 Open [\"std\"] | 20:00-24:00 Closed []");
}

#[test]
fn idea_23_closed_comment_only_on_days_with_a_contributing_rule() {
    let o = oh("Mo 10:00-12:00 off \"x\"");
    assert_eq!(show(&o, d(2024, 5, 5)), "00:00-24:00 Closed []");
    assert_eq!(show(&o, d(2024, 5, 7)), "00:00-24:00 Closed []");
    // starting on a day without any contributing rule: no comment, even though the closed
    // interval continues through monday
    let f = first(&o, dt(2024, 5, 5, 12, 0), dt(2024, 6, 1, 0, 0));
    assert!(f.comments.is_empty());
}

/// Direct use of the public `Schedule` API with a brute-force model.
#[test]
fn idea_24_schedule_api_model() {
    use opening_hours::schedule::Schedule;
    let mut rng = Rng(8080);
    let names = ["a", "b", "c", "d", "e"];
    for _ in 0..20_000 {
        let n = 1 + rng.below(5);
        let mut pieces: Vec<(std::ops::Range<ExtendedTime>, RuleKind, Vec<String>)> = Vec::new();
        let mut schedule = Schedule::new();
        for _ in 0..n {
            let kind = *rng.pick(&[RuleKind::Open, RuleKind::Unknown, RuleKind::Closed]);
            let mut comments: Vec<String> = (0..rng.below(3)).map(|_| rng.pick(&names).to_string()).collect();
            let arcs: Vec<Arc<str>> = comments.iter().map(|c| Arc::from(c.as_str())).collect();
            comments.sort();
            comments.dedup();
            let mut ranges = Vec::new();
            for _ in 0..1 + rng.below(2) {
                let s = rng.below(25) as u8;
                let e = rng.below(25) as u8;
                let r = et(s.min(24), 0)..et(e.min(24), 0);
                if r.start < r.end {
                    pieces.push((r.clone(), kind, comments.clone()));
                }
                ranges.push(r);
            }
            let part = Schedule::from_ranges(ranges, kind, &arcs.into());
            schedule = schedule.addition(part);
        }
        let out: Vec<TimeRange> = schedule.into_iter().collect();
        let mut last = et(0, 0);
        for tr in &out {
            assert_eq!(tr.range.start, last);
            last = tr.range.end;
            for w in tr.comments.windows(2) {
                assert!(w[0] < w[1]);
            }
            let touching: Vec<_> = pieces.iter().filter(|(r, _, _)| touches(r, &tr.range)).collect();
            for c in tr.comments.iter() {
                // NOTE: a comment may come from a piece which does not touch the period (it leaks
                // through an intermediate overlapping piece), the statement only asks for "from a rule"
                assert!(pieces.iter().any(|(_, _, cs)| cs.iter().any(|x| x.as_str() == &**c)), "{out:?} from {pieces:?}");
            }
            if tr.kind != RuleKind::Closed && touching.len() == 1 {
                assert_eq!(cm(&tr.comments), touching[0].2, "{out:?} from {pieces:?}");
            }
        }
        assert_eq!(last, et(24, 0));
    }
}

#[test]
fn idea_25_iter_from_equals_iter_range() {
    let o = oh("Mo 10:00-12:00 \"a\"; Tu 22:00-26:00 unknown \"b\"; Dec 31 off \"c\"");
    for from in [dt(2024, 5, 6, 11, 0), dt(2024, 5, 7, 23, 0), dt(2024, 12, 31, 5, 0), dt(9999, 12, 31, 23, 59), dt(1800, 1, 1, 0, 0)] {
        let a = o.iter_from(from).next().unwrap();
        let b = o.iter_range(from, opening_hours::DATE_END).next().unwrap();
        assert_eq!(a, b);
        assert_eq!(a.comments, period_at(&o, from).comments);
    }
}

#[test]
fn idea_26_time_zone_far_from_utc_and_odd_offsets() {
    use chrono::TimeZone;
    // Pacific/Kiritimati is UTC+14, Pacific/Niue UTC-11, Asia/Kathmandu +05:45; Paris was on LMT (+00:09:21) in 1900
    for tz in [chrono_tz::Pacific::Kiritimati, chrono_tz::Pacific::Niue, chrono_tz::Asia::Kathmandu, chrono_tz::Europe::Paris] {
        let ctx = Context::default().with_locale(TzLocation::new(tz));
        let o = oh("00:00-00:30 \"first\"; Mo 23:30-24:00 unknown \"last\"").with_context(ctx);
        for local in [dt(1900, 1, 1, 0, 10), dt(1900, 1, 1, 23, 45), dt(2024, 5, 6, 23, 59), dt(9999, 12, 31, 0, 29)] {
            let Some(from) = tz.from_local_datetime(&local).earliest() else { continue };
            let f = o.iter_range(from.clone(), from + Duration::hours(3)).next().unwrap();
            assert_eq!(f.comments, period_at(&o, local).comments, "{tz} {local}");
        }
    }
}


#[test]
fn idea_27_extreme_offsets_and_selectors() {
    let sels = [
        "Mo[1] +1000000 days", "Mo[1] -1000000 days", "Jan 01 +4000000 days", "easter -3000000 days", "PH +2000000 days",
        "Jan 01 -Su +999999 days", "Jan 01 +4000000 days-Feb 01", "Jan 01-Feb 01 +4000000 days", "9999 Dec 31 +1 day",
        "1900 Jan 01 -1 day", "9999 Dec 31-Jan 05", "1900 Jan 01 -5 days-1900 Jan 02", "Dec 31 +1 day", "week 53 Su",
        "9999 easter", "1900 easter -200 days", "9999 Dec 25 +Su", "Mo[1] +18446744073709551615 days",
        "Su[-1] +9223372036854775807 days", "PH -9223372036854775807 days", "1900-9999/9999", "9999+", "1900-1900",
    ];
    let times = ["", " 22:00-26:00", " 00:00-48:00", " (sunrise-02:00)-(sunset+05:00)"];
    let mut rng = Rng(99);
    let mut parsed = 0;
    for sel in sels {
        for time in times {
            let text = format!("{sel}{time} unknown \"x\"; Mo \"y\"");
            let Ok(o) = OpeningHours::parse(&text) else { continue };
            parsed += 1;
            let all = all_comments(&text);
            for date in dates(&mut rng) {
                let in_range = date >= d(1900, 1, 1) && date < d(10000, 1, 1);
                for tr in sched(&o, date) {
                    well_formed(&tr.comments, &all).unwrap();
                    assert!(in_range || tr.comments.is_empty());
                }
                let from = date.and_hms_opt(23, 30, 0).unwrap();
                let bounded = o.clone().with_context(Context::default().approx_bound_interval_size(chrono::TimeDelta::days(500)));
                if let Some(f) = bounded.iter_range(from, from + Duration::days(2)).next() {
                    assert_eq!(f.comments, period_at(&o, from).comments, "{text} {from}");
                }
            }
        }
    }
    assert!(parsed > 40, "{parsed}");
}

#[test]
fn idea_28_unique_sorted_vec_union_model() {
    use opening_hours_syntax::sorted_vec::UniqueSortedVec;
    use std::collections::BTreeSet;
    let mut rng = Rng(4711);
    for _ in 0..50_000 {
        let a: Vec<u8> = (0..rng.below(8)).map(|_| rng.below(10) as u8).collect();
        let b: Vec<u8> = (0..rng.below(8)).map(|_| rng.below(10) as u8).collect();
        let exp: Vec<u8> = a.iter().chain(&b).copied().collect::<BTreeSet<_>>().into_iter().collect();
        let ua: UniqueSortedVec<u8> = a.into();
        let ub: UniqueSortedVec<u8> = b.into();
        assert_eq!(ua.union(ub).as_slice(), exp.as_slice());
    }
}

#[test]
fn idea_29_rule_without_selector_or_modifier_but_comment() {
    // comment only rules, prefix-comment only rule
    let o = oh("\"only\"");
    assert_eq!(show(&o, d(2024, 5, 6)), "00:00-24:00 Open [\"only\"]");
    let o = oh("\"pre\":");
    assert_eq!(show(&o, d(2024, 5, 6)), "00:00-24:00 Open [\"pre\"]");
    let o = oh("Mo 10:00-12:00; \"rest\"");
    // the second rule is a normal open rule which matches every day: it overrides the first
    assert_eq!(show(&o, d(2024, 5, 6)), "00:00-24:00 Open [\"rest\"]");
    let o = oh("Mo 10:00-12:00 || \"rest\"");
    assert_eq!(show(&o, d(2024, 5, 6)), "00:00-10:00 Closed [] | 10:00-12:00 Open [] | 12:00-24:00 Closed []");
    assert_eq!(show(&o, d(2024, 5, 7)), "00:00-24:00 Open [\"rest\"]");
}

#[test]
fn idea_30_uncommented_rule_among_commented_ones_reports_nothing() {
    // an isolated period of a rule without comment has no comment at all
    let o = oh("08:00-09:00 \"a\", 10:00-12:00, 13:00-14:00 unknown \"b\", Mo 22:00-26:00 unknown");
    assert_eq!(
        show(&o, d(2024, 5, 7)),
        "00:00-02:00 Unknown [] | 02:00-08:00 Closed [] | 08:00-09:00 Open [\"a\"] | 09:00-10:00 Closed [] | 10:00-12:00 Open [] | 12:00-13:00 Closed [] | 13:00-14:00 Unknown [\"b\"] | 14:00-24:00 Closed []"
    );
    assert!(first(&o, dt(2024, 5, 7, 1, 0), dt(2024, 5, 8, 0, 0)).comments.is_empty());
    assert!(first(&o, dt(2024, 5, 7, 11, 0), dt(2024, 5, 8, 0, 0)).comments.is_empty());
}

// ---------------------------------------------------------------------------------------------
// Judgement calls: NOT violations of the statement as written (kept ignored, they fail when run
// with `--ignored`).
// ---------------------------------------------------------------------------------------------

/// A comment reaches a period that its rule never touches, through an intermediate rule which
/// overlaps both. The statement excludes it (another rule's period overlaps 14:00-18:00).
#[test]
#[ignore]
fn judgement_transitive_comment_leak() {
    let o = oh("10:00-12:00 \"a\", 11:00-15:00 unknown \"b\", 14:00-18:00 \"c\"");
    let p = period_at(&o, dt(2024, 5, 6, 16, 0));
    assert_eq!(p.range, et(14, 0)..et(18, 0));
    assert!(!p.comments.iter().any(|c| &**c == "a"), "{:?}", p.comments);
}

/// A closed rule which covers an open rule entirely inherits its comment, a closed rule which
/// covers it partially does not. Closed periods are outside of the third clause.
#[test]
#[ignore]
fn judgement_closed_period_inherits_comment_of_the_overridden_rule() {
    let o = oh("Mo-Fr 10:00-18:00 \"a\"; We off \"b\"");
    assert_eq!(show(&o, d(2024, 5, 8)), "00:00-24:00 Closed [\"b\"]");
}

/// Outside of the quantification of the statement (a context value): the first interval is not
/// reported at all.
#[test]
#[ignore]
fn side_finding_bound_max_panics() {
    let o = oh("Mo 10:00-12:00 \"a\"").with_context(Context::default().approx_bound_interval_size(chrono::TimeDelta::MAX));
    let f = o.iter_range(dt(2024, 5, 6, 11, 0), dt(2024, 5, 9, 0, 0)).next().unwrap();
    assert_eq!(cm(&f.comments), vec!["a"]);
}

/// Minute-level sweep around the "touches" boundary, for all pairs of kinds, both rule orders, and
/// for a period which is the spill of the previous day.
#[test]
fn idea_31_minute_sweep_around_contact() {
    let fmt = |m: i32| format!("{:02}:{:02}", m / 60, m % 60);
    let kinds = ["open", "unknown", "closed"];
    let day = d(2024, 5, 7); // Tuesday
    for (base_text, base) in [("10:00-12:00", 600..720), ("Mo 22:00-26:00", 0..120)] {
        for k1 in kinds {
            for k2 in kinds {
                for s in [base.start - 3, base.start - 2, base.start - 1, base.start, base.start + 1, base.end - 1, base.end, base.end + 1, base.end + 2] {
                    for len in [1, 2, 3, 60] {
                        let (s, e) = (s, s + len);
                        if s < 0 || e > 1440 {
                            continue;
                        }
                        for swap in [false, true] {
                            let r1 = format!("{base_text} {k1} \"a\"");
                            let r2 = format!("{}-{} {k2} \"b\"", fmt(s), fmt(e));
                            let text = if swap { format!("{r2}, {r1}") } else { format!("{r1}, {r2}") };
                            let o = oh(&text);
                            let contact = s <= base.end && base.start <= e;
                            let periods = sched(&o, day);
                            for tr in &periods {
                                if tr.kind == RuleKind::Closed {
                                    continue;
                                }
                                let (ps, pe) = (tr.range.start.mins_from_midnight() as i32, tr.range.end.mins_from_midnight() as i32);
                                if !contact {
                                    if (ps, pe) == (base.start, base.end) {
                                        assert_eq!(cm(&tr.comments), vec!["a"], "{text}: {}", show(&o, day));
                                    } else if (ps, pe) == (s, e) {
                                        assert_eq!(cm(&tr.comments), vec!["b"], "{text}: {}", show(&o, day));
                                    } else {
                                        panic!("{text}: unexpected period {}", show(&o, day));
                                    }
                                }
                            }
                            if !contact {
                                let expected = [k1, k2].iter().filter(|k| **k != "closed").count();
                                assert_eq!(periods.iter().filter(|t| t.kind != RuleKind::Closed).count(), expected, "{text}: {}", show(&o, day));
                            }
                        }
                    }
                }
            }
        }
    }
}
