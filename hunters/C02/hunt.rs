//! Defect hunt for: "Interval stream equals pointwise evaluation (no change is skipped)".
//!
//! The oracle is the daily schedule (`OpeningHours::schedule_at`) of every single day of the
//! window: the interval stream of `iter_range` must be exactly the run-length encoding of it.

use std::sync::Arc;

use chrono::{Duration, NaiveDate, NaiveDateTime, NaiveTime};

use opening_hours::localization::{Localize, NoLocation};
use opening_hours::{Context, ContextHolidays, OpeningHours, RuleKind, DATE_END};

fn dt(s: &str) -> NaiveDateTime {
    NaiveDateTime::parse_from_str(s, "%Y-%m-%d %H:%M").unwrap()
}

fn d(s: &str) -> NaiveDate {
    NaiveDate::parse_from_str(s, "%Y-%m-%d").unwrap()
}

type Runs = Vec<(NaiveDateTime, NaiveDateTime, RuleKind)>;

/// Expected stream, from daily schedules only.
fn expected_naive<L: Localize>(oh: &OpeningHours<L>, from: NaiveDateTime, to: NaiveDateTime) -> Runs {
    let to = to.min(DATE_END);
    let mut res: Runs = Vec::new();

    if from >= to {
        return res;
    }

    let mut date = from.date();

    while date.and_time(NaiveTime::MIN) < to {
        let midnight = date.and_time(NaiveTime::MIN);

        for tr in oh.schedule_at(date) {
            let start = midnight + Duration::minutes(tr.range.start.mins_from_midnight().into());
            let end = midnight + Duration::minutes(tr.range.end.mins_from_midnight().into());
            let start = start.max(from);
            let end = end.min(to);

            if start >= end {
                continue;
            }

            match res.last_mut() {
                Some(last) if last.2 == tr.kind => {
                    assert_eq!(last.1, start, "oracle: schedule has a hole at {date}");
                    last.1 = end;
                }
                Some(last) => {
                    assert_eq!(last.1, start, "oracle: schedule has a hole at {date}");
                    res.push((start, end, tr.kind));
                }
                None => res.push((start, end, tr.kind)),
            }
        }

        date = date.succ_opt().unwrap();
    }

    res
}

fn first_diff(got: &Runs, exp: &Runs) -> String {
    for i in 0..got.len().max(exp.len()) {
        if got.get(i) != exp.get(i) {
            return format!(
                "first difference at interval #{i}:\n   got      {:?}\n   expected {:?}\n   (previous: {:?})",
                got.get(i),
                exp.get(i),
                if i > 0 { got.get(i - 1) } else { None },
            );
        }
    }

    "no difference".to_string()
}

/// Check the whole property for a naive (no time zone) context.
fn check_ctx(expr: &str, ctx: Context<NoLocation>, from: NaiveDateTime, to: NaiveDateTime) -> Result<(), String> {
    let oh = match OpeningHours::parse(expr) {
        Ok(oh) => oh.with_context(ctx),
        Err(_) => return Err(format!("DOES NOT PARSE: `{expr}`")),
    };

    let got: Runs = oh
        .iter_range(from, to)
        .map(|dtr| (dtr.range.start, dtr.range.end, dtr.kind))
        .collect();

    // structural clauses
    let eff_to = to.min(DATE_END);

    if from < eff_to {
        if got.is_empty() {
            return Err(format!("`{expr}` [{from} .. {to}): no interval at all"));
        }

        if got[0].0 != from {
            return Err(format!("`{expr}` [{from} .. {to}): starts at {}", got[0].0));
        }

        if got.last().unwrap().1 != eff_to {
            return Err(format!(
                "`{expr}` [{from} .. {to}): ends at {}",
                got.last().unwrap().1
            ));
        }
    } else if !got.is_empty() {
        return Err(format!("`{expr}` [{from} .. {to}): expected no interval, got {got:?}"));
    }

    for (i, iv) in got.iter().enumerate() {
        if iv.0 >= iv.1 {
            return Err(format!("`{expr}` [{from} .. {to}): empty interval {iv:?}"));
        }

        if i > 0 {
            if got[i - 1].1 != iv.0 {
                return Err(format!(
                    "`{expr}` [{from} .. {to}): gap/overlap between {:?} and {iv:?}",
                    got[i - 1]
                ));
            }

            if got[i - 1].2 == iv.2 {
                return Err(format!(
                    "`{expr}` [{from} .. {to}): same state twice {:?} and {iv:?}",
                    got[i - 1]
                ));
            }
        }
    }

    let exp = expected_naive(&oh, from, to);

    if got != exp {
        return Err(format!(
            "`{expr}` [{from} .. {to}): stream differs from daily schedules; {}",
            first_diff(&got, &exp)
        ));
    }

    Ok(())
}

fn check(expr: &str, from: &str, to: &str) -> Result<(), String> {
    check_ctx(expr, Context::default(), dt(from), dt(to))
}

fn check_all(cases: &[(&str, &str, &str)]) {
    let errors: Vec<String> = cases
        .iter()
        .filter_map(|(expr, from, to)| check(expr, from, to).err())
        .collect();

    assert!(errors.is_empty(), "\n{}", errors.join("\n"));
}

fn holidays(public: &[&str], school: &[&str]) -> ContextHolidays {
    ContextHolidays::new(
        Arc::new(public.iter().map(|s| d(s)).collect()),
        Arc::new(school.iter().map(|s| d(s)).collect()),
    )
}

// ---------------------------------------------------------------------------------------------
// Idea 1: undated start, dated end: the hint window [y-1, y+10] and the filter window
// [y-1, y+1] disagree.
// ---------------------------------------------------------------------------------------------

#[test]
fn idea01_undated_start_dated_end() {
    check_all(&[("Mar 01-2020 Apr 05", "2005-01-01 00:00", "2030-01-01 00:00")]);
}

#[test]
fn idea01b_easter_start_dated_end() {
    check_all(&[("easter-2020 May 01", "2005-01-01 00:00", "2030-01-01 00:00")]);
}

// Idea 2: dated fixed start with an easter end (generic branch, a single start in the window)
#[test]
fn idea02_dated_start_easter_end() {
    check_all(&[
        ("2020 Mar 01-easter", "2012-01-01 00:00", "2023-01-01 00:00"),
        ("2020 Mar 01-easter", "2000-01-01 00:00", "2023-01-01 00:00"),
    ]);
}

// Idea 3: dated easter start/end
#[test]
fn idea03_dated_easter() {
    check_all(&[
        ("2020 easter-May 01", "2005-01-01 00:00", "2030-01-01 00:00"),
        ("Mar 01-2020 easter", "2005-01-01 00:00", "2030-01-01 00:00"),
        ("2020 easter-2022 easter", "2005-01-01 00:00", "2030-01-01 00:00"),
        ("2020 easter", "2005-01-01 00:00", "2030-01-01 00:00"),
        ("easter", "2005-01-01 00:00", "2030-01-01 00:00"),
        ("easter -2 days-easter +1 day", "2005-01-01 00:00", "2030-01-01 00:00"),
    ]);
}

// ---------------------------------------------------------------------------------------------
// Ideas 4-8: families of expressions whose day selectors provide a jump hint; long windows.
// ---------------------------------------------------------------------------------------------

const LONG: (&str, &str) = ("1995-06-15 10:30", "2045-03-02 07:00");

fn check_family(exprs: &[&str], windows: &[(&str, &str)]) {
    let mut errors = Vec::new();

    for expr in exprs {
        for (from, to) in windows {
            if let Err(e) = check(expr, from, to) {
                errors.push(e);
                break;
            }
        }
    }

    assert!(errors.is_empty(), "\n{}", errors.join("\n"));
}

#[test]
fn idea04_year_selectors() {
    check_family(
        &[
            "2000",
            "2000-2010",
            "2000-2010/3",
            "1999-2040/7",
            "2010+",
            "2030-2010",
            "2030-2010/4",
            "1990-2044/20",
            "2000,2004,2010-2012",
            "2000-2010/3Jan",
            "2000-2010/3Jan-Mar 10:00-12:00",
            "2000-2010/3 22:00-26:00",
            "2020 00:00-24:00; 2022 off",
            "2020-2030/2 week 10-20",
            "1900-1901",
            "9998-9999",
            "2000-9999/1000",
            "2000-2010/65535",
            "2000-2044/44",
        ],
        &[LONG, ("1890-01-01 00:00", "1910-01-01 00:00"), ("2019-12-31 23:59", "2021-01-01 00:01")],
    );
}

#[test]
fn idea05_month_selectors() {
    check_family(
        &[
            "Jan",
            "Dec",
            "Jan-Dec",
            "Mar-Feb",
            "Nov-Feb",
            "Dec-Jan",
            "Feb",
            "Jan,Mar,May-Jul",
            "2020Jan",
            "2020Dec",
            "2020Nov-Feb",
            "2020Jan-Dec",
            "2020Dec-Jan",
            "2020Dec-Dec",
            "2020Feb-Jan",
            "2020Jan-Mar,Aug-Dec",
            "2020-2022Jan-Mar,Aug-Dec",
            "Nov-Feb 22:00-26:00",
            "Nov-Feb 00:00-24:00",
            "Nov-Feb 00:00-48:00",
            "Nov-Feb 00:00-24:00+",
            "Nov-Feb 00:00+",
            "Nov-Feb 00:00-24:00,10:00-12:00",
            "Jan off; Feb unknown; Mar open",
            "Jan; Feb off",
            "24/7; Jan off",
            "Jan-Mar || unknown",
            "Jan-Mar off || unknown",
            "Jan-Mar, Feb-Apr unknown",
        ],
        &[LONG, ("2019-12-31 23:59", "2022-01-01 00:01")],
    );
}

#[test]
fn idea06_monthday_dates() {
    check_family(
        &[
            "Jan 01",
            "Feb 29",
            "Feb 29-Mar 01",
            "Feb 28-Feb 29",
            "Feb 29-Feb 29",
            "Feb 30",
            "Feb 30-Mar 02",
            "Feb 10-Feb 31",
            "Apr 31",
            "Apr 31-May 02",
            "Dec 25-Jan 05",
            "Dec 31-Jan 01",
            "Jan 01-Dec 31",
            "Jan 02-Jan 01",
            "Jan 01-31",
            "Jan 31-05",
            "Dec 31-05",
            "2020 Dec 31-05",
            "2020 Dec 25-Jan 05",
            "2020 Feb 29",
            "2021 Feb 29",
            "2021 Feb 29-Mar 05",
            "2021 Feb 25-Feb 30",
            "2020 Jan 10-2020 Jan 05",
            "2020 Jan 10-2019 Jan 05",
            "2020 Jan 10-2025 Jan 05",
            "2020 Jan 10+",
            "Jan 10+",
            "Dec 31+",
            "2044 Dec 31+",
            "easter+",
            "2020 easter+",
            "Jan 01-easter",
            "easter-Dec 31",
            "easter-easter",
            "easter -10 days-easter +10 days",
            "easter +10 days-easter -10 days",
            "Dec 25-easter",
            "easter-Jan 05",
            "Jan 01+Su-Jan 20-Mo",
            "Jan 01-Su-Jan 01+Su",
            "Jan 01 -1 day",
            "Jan 01 -1 day-Jan 01 +1 day",
            "Feb 29 -1 day-Feb 29 +1 day",
            "Feb 29+Su",
            "Jan 01 +200 days-Jan 01 +300 days",
            "Jan 01 +400 days-Jan 05 +400 days",
            "Jan 01 +800 days-Jan 05 +800 days",
            "Jan 01 -400 days-Jan 05 -400 days",
            "Jan 01 -400 days-Jan 05 +400 days",
            "Jan 01 -1 day-Jan 01 +366 days",
            "Jan 01-Jan 01 +365 days",
            "Jan 01-Jan 01 +364 days",
            "Jan 01 +1 day-Jan 01 +365 days",
            "Dec 31 -365 days-Dec 30",
            "Jun 01 -300 days-Jun 01 -200 days",
            "Jun 01 +300 days-Jun 01 +200 days",
            "Jun 01-Jun 10 +1000 days",
            "Jun 01 -1000 days-Jun 10",
            "Jun 01 +5000 days",
            "Jun 01 -5000 days",
            "Jun 01 +5000 days-Jun 10 +5000 days",
            "2020 Jun 01 +5000 days",
            "2020 Jun 01 -5000 days-2020 Jun 10 +5000 days",
            "Jan 01-10,Jan 05-20",
            "Jan 01-10,Mar 05-20,Dec 24-26",
            "Jan 01-10 off",
            "Jan 01-10 22:00-26:00",
            "24/7; Jan 01-10 off; easter open",
            "Jan-Mar; easter off",
        ],
        &[LONG, ("2019-12-31 23:59", "2022-01-01 00:01")],
    );
}

#[test]
fn idea07_week_selectors() {
    check_family(
        &[
            "week 01",
            "week 53",
            "week 52",
            "week 52-53",
            "week 01-53",
            "week 01-52",
            "week 02-53",
            "week 10-20",
            "week 10-20/2",
            "week 10-20/3",
            "week 01-53/2",
            "week 01-53/53",
            "week 01-53/52",
            "week 50-05",
            "week 50-05/2",
            "week 53-01",
            "week 01,10,20-30/5",
            "week 10-20 22:00-26:00",
            "week 10-20 off",
            "24/7; week 10-20 off",
            "2020 week 53",
            "2020-2030/5 week 01",
            "Jan week 01",
            "Dec week 01",
            "Jan week 52-53",
            "week 01-10/255",
            "week 52-53/2",
            "week 51-53/2",
        ],
        &[LONG, ("2019-12-25 23:59", "2022-01-10 00:01")],
    );
}

// Idea 6b: the members of the previous family that fail (offsets that move a bound of the range
// into another year).
#[test]
fn idea06b_offset_moves_bound_to_other_year_wday() {
    check_all(&[
        ("Dec 31+Su-Jan 02", "1996-06-01 00:00", "1999-06-01 00:00"),
        ("Dec 30+Su-Jan 03", "1996-06-01 00:00", "1999-06-01 00:00"),
        ("Dec 31 +2 days-Jan 01", "1995-06-15 00:00", "1999-06-01 00:00"),
    ]);
}

#[test]
fn idea06c_offset_moves_bound_to_other_year_days() {
    check_all(&[("Jan 02-Jan 01 +366 days", "1995-06-15 00:00", "1999-06-01 00:00")]);
}

#[test]
fn idea06d_offsets_cross() {
    check_all(&[("Jan 01 +400 days-Jan 05 -400 days", "1995-06-15 00:00", "1999-06-01 00:00")]);
}

// ---------------------------------------------------------------------------------------------
// Idea 8: holidays (PH / SH with offsets), sparse calendars spanning many years.
// ---------------------------------------------------------------------------------------------

fn check_family_ctx(exprs: &[&str], ctx: &Context<NoLocation>, windows: &[(&str, &str)]) {
    let mut errors = Vec::new();

    for expr in exprs {
        for (from, to) in windows {
            if let Err(e) = check_ctx(expr, ctx.clone(), dt(from), dt(to)) {
                errors.push(e);
                break;
            }
        }
    }

    assert!(errors.is_empty(), "\n{}", errors.join("\n"));
}

#[test]
fn idea08_holidays() {
    let ctx = Context::default().with_holidays(holidays(
        &[
            "1900-01-01", "1950-07-14", "2019-12-31", "2020-01-01", "2020-01-02", "2020-02-29", "2020-12-31",
            "2021-01-01", "2030-05-01", "2044-12-31", "9999-12-31",
        ],
        &["2020-02-10", "2020-02-11", "2020-02-12", "2020-12-31", "2021-01-01", "2035-07-01"],
    ));

    check_family_ctx(
        &[
            "PH",
            "PH off",
            "24/7; PH off",
            "PH 10:00-12:00",
            "PH 22:00-26:00",
            "PH +1 day",
            "PH -1 day",
            "PH +2 days",
            "PH -2 days",
            "PH +365 days",
            "PH -365 days",
            "PH +10000 days",
            "PH -10000 days",
            "PH +3000000 days",
            "PH -3000000 days",
            "PH +9223372036854775807 days",
            "SH",
            "SH off",
            "SH,PH",
            "PH,SH 10:00-12:00",
            "SH 22:00-26:00",
            "Mo-Fr 10:00-12:00; PH off",
            "2020 PH",
            "2020Feb PH",
            "Feb PH",
            "week 01 PH",
            "week 53 PH",
            "PH; SH off",
            "PH || unknown",
            "PH off || unknown",
            "PH, SH unknown",
            "PH -1 day, PH +1 day unknown",
            "PH -1 day; PH +1 day unknown",
            "2020-2021 PH +1 day",
            "Jan 01-Jan 02 PH",
        ],
        &ctx,
        &[
            LONG,
            ("1890-01-01 00:00", "1960-01-01 00:00"),
            ("2019-12-25 23:59", "2021-01-10 00:01"),
        ],
    );
}

// Idea 9: the very ends of the supported range
#[test]
fn idea09_range_ends() {
    let ctx = Context::default().with_holidays(holidays(&["1900-01-01", "9999-12-31"], &["9999-12-30"]));

    check_family_ctx(
        &[
            "24/7",
            "24/7 off",
            "22:00-26:00",
            "00:00-48:00",
            "PH",
            "PH +1 day",
            "PH -1 day",
            "SH 22:00-26:00",
            "9999",
            "9999 22:00-26:00",
            "1900",
            "9999Dec",
            "Dec",
            "Dec 31",
            "Dec 31 22:00-26:00",
            "Dec 31+",
            "9999 Dec 31+",
            "Dec 25-Jan 05",
            "week 52-53",
            "week 01",
            "easter",
            "Mo-Fr 10:00-12:00",
            "Su[-1]",
            "Jan 01 -1 day",
            "Dec 31 +1 day",
            "Dec 31 +1 day 22:00-26:00",
        ],
        &ctx,
        &[
            ("9990-06-01 10:30", "9999-12-31 23:59"),
            ("9998-06-01 10:30", "+10000-01-01 00:00"),
            ("9998-06-01 10:30", "+10000-01-05 00:00"),
            ("9999-12-31 23:59", "+10000-01-05 00:00"),
            ("9999-12-31 00:00", "+12000-01-05 00:00"),
            ("+10000-01-01 00:00", "+10000-01-05 00:00"),
            ("+10002-01-01 00:00", "+10003-01-05 00:00"),
            ("1899-12-25 10:30", "1901-02-01 00:00"),
            ("1899-12-31 23:59", "1900-01-01 00:01"),
            ("1000-01-01 00:00", "1900-01-02 00:00"),
            ("1000-01-01 00:00", "1800-01-02 00:00"),
            ("-0100-01-01 00:00", "1901-01-02 00:00"),
            ("2020-01-01 00:00", "2020-01-01 00:00"),
            ("2020-01-02 00:00", "2020-01-01 00:00"),
            ("2020-01-01 10:00", "2020-01-01 10:01"),
        ],
    );
}

#[test]
fn idea09b_extreme_window() {
    let from = NaiveDateTime::MIN;
    let to = NaiveDateTime::MAX;
    let mut errors = Vec::new();

    for expr in ["24/7", "Jan", "2020", "PH", "week 01", "easter", "Mo", "22:00-26:00"] {
        // the oracle is restricted to a part of the window, the structure is checked on the whole
        let oh = OpeningHours::parse(expr).unwrap();
        let got: Vec<_> = oh.iter_range(from, to).collect();

        if got.first().map(|x| x.range.start) != Some(from) {
            errors.push(format!("{expr}: starts at {:?}", got.first().map(|x| x.range.start)));
        }

        if got.last().map(|x| x.range.end) != Some(DATE_END) {
            errors.push(format!("{expr}: ends at {:?}", got.last().map(|x| x.range.end)));
        }

        for w in got.windows(2) {
            if w[0].range.end != w[1].range.start || w[0].kind == w[1].kind || w[0].range.start >= w[0].range.end {
                errors.push(format!("{expr}: bad pair {:?} {:?}", w[0], w[1]));
                break;
            }
        }
    }

    assert!(errors.is_empty(), "\n{}", errors.join("\n"));
}

// ---------------------------------------------------------------------------------------------
// Ideas 10-13: time zones (clock changes)
// ---------------------------------------------------------------------------------------------

mod tz {
    use super::*;
    use chrono::{DateTime, TimeZone};
    use chrono_tz::Tz;
    use opening_hours::localization::TzLocation;

    pub fn structure(expr: &str, tz: Tz, from: DateTime<Tz>, to: DateTime<Tz>) -> Result<(), String> {
        structure_loc(expr, tz, TzLocation::new(tz), from, to)
    }

    pub fn structure_loc(
        expr: &str,
        tz: Tz,
        loc: TzLocation<Tz>,
        from: DateTime<Tz>,
        to: DateTime<Tz>,
    ) -> Result<(), String> {
        let oh = OpeningHours::parse(expr)
            .unwrap()
            .with_context(Context::default().with_locale(loc));

        let got: Vec<_> = oh.iter_range(from, to).collect();
        let show = |got: &Vec<opening_hours::DateTimeRange<DateTime<Tz>>>| {
            got.iter()
                .map(|x| format!("   {} .. {} {:?}", x.range.start, x.range.end, x.kind))
                .collect::<Vec<_>>()
                .join("\n")
        };

        if got.is_empty() {
            return Err(format!("`{expr}` {tz}: no interval"));
        }

        if got[0].range.start != from {
            return Err(format!("`{expr}` {tz} [{from} .. {to}): starts at {}\n{}", got[0].range.start, show(&got)));
        }

        if got.last().unwrap().range.end != to {
            return Err(format!(
                "`{expr}` {tz} [{from} .. {to}): ends at {}\n{}",
                got.last().unwrap().range.end,
                show(&got)
            ));
        }

        for (i, iv) in got.iter().enumerate() {
            if iv.range.start >= iv.range.end {
                return Err(format!("`{expr}` {tz} [{from} .. {to}): empty interval #{i}\n{}", show(&got)));
            }

            if i > 0 && (got[i - 1].range.end != iv.range.start || got[i - 1].kind == iv.kind) {
                return Err(format!("`{expr}` {tz} [{from} .. {to}): bad sequence at #{i}\n{}", show(&got)));
            }
        }

        // pointwise: the state of every interval is the state of every minute inside it (sampled)
        for iv in &got {
            let mut t = iv.range.start.clone();
            let mut n = 0;

            let step = if iv.range.end.clone() - iv.range.start.clone() > Duration::hours(3) { 13 } else { 1 };

            while t < iv.range.end && n < 2000 {
                let naive = t.naive_local();
                let sched_kind = oh
                    .schedule_at(naive.date())
                    .into_iter()
                    .find(|tr| {
                        let m = (naive.time() - NaiveTime::MIN).num_minutes() as u16;
                        tr.range.start.mins_from_midnight() <= m && m < tr.range.end.mins_from_midnight()
                    })
                    .map(|tr| tr.kind)
                    .unwrap();

                if sched_kind != iv.kind {
                    return Err(format!(
                        "`{expr}` {tz} [{from} .. {to}): instant {t} is {sched_kind:?} in the daily schedule but inside {:?} interval\n{}",
                        iv.kind,
                        show(&got)
                    ));
                }

                t = t + Duration::minutes(step);
                n += 1;
            }
        }

        Ok(())
    }

    fn paris(s: &str) -> DateTime<Tz> {
        chrono_tz::Europe::Paris
            .from_local_datetime(&dt(s))
            .earliest()
            .unwrap()
    }

    // Idea 10: a time span entirely inside the hour skipped in spring
    #[test]
    fn idea10_span_inside_skipped_hour() {
        let r = structure(
            "02:15-02:45",
            chrono_tz::Europe::Paris,
            paris("2024-03-30 12:00"),
            paris("2024-03-31 12:00"),
        );
        assert!(r.is_ok(), "\n{}", r.unwrap_err());
    }

    // Idea 11: span bounds inside the skipped hour
    #[test]
    fn idea11_bounds_inside_skipped_hour() {
        let mut errors = Vec::new();

        for expr in ["01:00-02:30", "02:30-04:00", "02:00-03:00", "02:59-03:01", "01:59-02:01", "02:10-02:20,02:30-02:40"] {
            if let Err(e) = structure(
                expr,
                chrono_tz::Europe::Paris,
                paris("2024-03-30 12:00"),
                paris("2024-03-31 12:00"),
            ) {
                errors.push(e);
            }
        }

        assert!(errors.is_empty(), "\n{}", errors.join("\n"));
    }

    // Idea 12: the hour that happens twice in autumn
    #[test]
    fn idea12_repeated_hour() {
        let mut errors = Vec::new();

        for expr in ["02:15-02:45", "01:00-02:30", "02:30-04:00", "02:00-03:00", "24/7", "03:00-04:00"] {
            if let Err(e) = structure(
                expr,
                chrono_tz::Europe::Paris,
                paris("2024-10-26 12:00"),
                paris("2024-10-27 12:00"),
            ) {
                errors.push(e);
            }
        }

        assert!(errors.is_empty(), "\n{}", errors.join("\n"));
    }

    // Idea 13: `from` / `to` inside the first occurrence of the repeated hour
    #[test]
    fn idea13_window_bounds_in_repeated_hour() {
        let mut errors = Vec::new();
        let first_0230 = paris("2024-10-27 02:30"); // CEST, the first one
        assert_eq!(first_0230.to_rfc3339(), "2024-10-27T02:30:00+02:00");

        for expr in ["24/7", "10:00-12:00", "02:15-02:45"] {
            if let Err(e) = structure(expr, chrono_tz::Europe::Paris, first_0230, paris("2024-10-27 12:00")) {
                errors.push(e);
            }

            if let Err(e) = structure(expr, chrono_tz::Europe::Paris, paris("2024-10-26 12:00"), first_0230) {
                errors.push(e);
            }
        }

        assert!(errors.is_empty(), "\n{}", errors.join("\n"));
    }

    // Idea 13b: a window that is not empty in absolute time but whose local bounds are reversed
    #[test]
    fn idea13b_reversed_local_bounds() {
        let tz = chrono_tz::Europe::Paris;
        let from = tz.from_local_datetime(&dt("2024-10-27 02:45")).earliest().unwrap(); // CEST
        let to = tz.from_local_datetime(&dt("2024-10-27 02:15")).latest().unwrap(); // CET, 30 minutes later
        assert_eq!((to - from).num_minutes(), 30);
        let r = structure("24/7", tz, from, to);
        assert!(r.is_ok(), "\n{}", r.unwrap_err());
    }

    // Idea 24: sun events with coordinates (polar day / night), zone without clock change
    #[test]
    fn idea24_sun_events_high_latitude() {
        use opening_hours::localization::Coordinates;
        let mut errors = Vec::new();
        let tz = chrono_tz::Etc::GMTMinus1;

        for (lat, lon) in [(69.65, 18.96), (-77.85, 166.67), (48.85, 2.35), (0.0, 179.9)] {
            let loc = TzLocation::new(tz).with_coords(Coordinates::new(lat, lon).unwrap());
            let from = tz.from_local_datetime(&dt("2024-01-01 00:00")).earliest().unwrap();
            let to = tz.from_local_datetime(&dt("2025-01-01 00:00")).earliest().unwrap();

            for expr in [
                "sunrise-sunset",
                "sunset-sunrise",
                "dawn-dusk",
                "dusk-dawn",
                "(sunrise-02:00)-(sunset+02:00)",
                "(sunset+06:00)-(sunrise+01:00)",
                "sunrise-sunset; Jan-Feb off",
                "Jan-Mar sunrise-sunset; Jun 00:00-24:00",
                "sunrise+",
                "10:00-sunset",
                "sunset-26:00",
            ] {
                if let Err(e) = structure_loc(expr, tz, loc.clone(), from, to) {
                    errors.push(format!("({lat}, {lon}) {}", &e[..e.len().min(600)]));
                }
            }
        }

        assert!(errors.is_empty(), "\n{}", errors.join("\n"));
    }

    // Idea 25: window starting at the first representable instant
    #[test]
    fn idea25_first_representable_instant() {
        let mut errors = Vec::new();

        for tz in [chrono_tz::Europe::Paris, chrono_tz::America::New_York, chrono_tz::UTC, chrono_tz::Pacific::Kiritimati] {
            let from = DateTime::<chrono::Utc>::MIN_UTC.with_timezone(&tz);
            let to = tz.from_local_datetime(&dt("1900-01-03 00:00")).earliest().unwrap();
            let res = std::panic::catch_unwind(|| {
                let oh = OpeningHours::parse("Mo")
                    .unwrap()
                    .with_context(Context::default().with_locale(TzLocation::new(tz)));
                oh.iter_range(from, to).map(|x| (x.range.start, x.range.end, x.kind)).collect::<Vec<_>>()
            });

            match res {
                Err(_) => errors.push(format!("{tz}: panic")),
                Ok(got) => {
                    if got.first().map(|x| x.0) != Some(from) {
                        errors.push(format!("{tz}: window starts at {from:?}, stream at {:?}", got.first().map(|x| x.0)));
                    }
                    if got.last().map(|x| x.1) != Some(to) {
                        errors.push(format!("{tz}: window ends at {to:?}, stream at {:?}", got.last().map(|x| x.1)));
                    }
                }
            }
        }

        assert!(errors.is_empty(), "\n{}", errors.join("\n"));
    }

    // Idea 26: window ending at the last representable instant
    #[test]
    fn idea26_last_representable_instant() {
        let mut errors = Vec::new();

        for tz in [chrono_tz::Europe::Paris, chrono_tz::America::New_York, chrono_tz::UTC, chrono_tz::Pacific::Kiritimati] {
            let to = DateTime::<chrono::Utc>::MAX_UTC.with_timezone(&tz);
            let from = tz.from_local_datetime(&dt("9999-12-30 00:00")).earliest().unwrap();
            let expected_end = tz.from_local_datetime(&DATE_END).earliest().unwrap();
            let res = std::panic::catch_unwind(|| {
                let oh = OpeningHours::parse("Mo")
                    .unwrap()
                    .with_context(Context::default().with_locale(TzLocation::new(tz)));
                oh.iter_range(from, to).map(|x| (x.range.start, x.range.end, x.kind)).collect::<Vec<_>>()
            });

            match res {
                Err(_) => errors.push(format!("{tz}: panic")),
                Ok(got) => {
                    if got.first().map(|x| x.0) != Some(from) {
                        errors.push(format!("{tz}: window starts at {from:?}, stream at {:?}", got.first().map(|x| x.0)));
                    }
                    if got.last().map(|x| x.1) != Some(expected_end) {
                        errors.push(format!("{tz}: expected end {expected_end:?}, stream at {:?}", got.last().map(|x| x.1)));
                    }
                }
            }
        }

        assert!(errors.is_empty(), "\n{}", errors.join("\n"));
    }

    // Idea 33 (exploration, release mode advised): many zones, 60 years, looking for anything
    // else than empty intervals: decreasing bounds, discontinuities, panics.
    #[test]
    #[ignore]
    fn idea33_many_zones_ordering() {
        let mut errors = Vec::new();
        let mut empties = 0u64;

        for (i, tz) in chrono_tz::TZ_VARIANTS.iter().enumerate() {
            if i % 6 != 0 {
                continue;
            }

            let from = tz.from_local_datetime(&dt("1968-01-01 12:00")).earliest().unwrap();
            let to = tz.from_local_datetime(&dt("2030-01-01 12:00")).earliest().unwrap();
            let tz = *tz;

            let res = std::panic::catch_unwind(move || {
                let oh = OpeningHours::parse("00:00-00:30,01:00-01:30,02:00-02:30,03:00-03:30,23:30-24:00")
                    .unwrap()
                    .with_context(Context::default().with_locale(TzLocation::new(tz)));
                let mut errors = Vec::new();
                let mut empties = 0u64;
                let mut prev: Option<opening_hours::DateTimeRange<DateTime<Tz>>> = None;
                let mut first = true;

                for iv in oh.iter_range(from, to) {
                    if first && iv.range.start != from {
                        errors.push(format!("{tz}: starts at {}", iv.range.start));
                    }
                    first = false;

                    if iv.range.start > iv.range.end {
                        errors.push(format!("{tz}: decreasing {} .. {}", iv.range.start, iv.range.end));
                    }
                    if iv.range.start == iv.range.end {
                        empties += 1;
                    }
                    if let Some(prev) = &prev {
                        if prev.range.end != iv.range.start {
                            errors.push(format!("{tz}: discontinuity {} / {}", prev.range.end, iv.range.start));
                        }
                    }
                    prev = Some(iv);
                }

                if prev.map(|x| x.range.end) != Some(to) {
                    errors.push(format!("{tz}: bad end"));
                }

                (errors, empties)
            });

            match res {
                Ok((errs, e)) => {
                    errors.extend(errs);
                    empties += e;
                }
                Err(_) => errors.push(format!("{tz}: panic")),
            }
        }

        eprintln!("empty intervals seen: {empties}");
        assert!(errors.is_empty(), "\n{}", errors[..errors.len().min(30)].join("\n"));
    }

    // Idea 14: zones that skip a whole day / move at midnight
    #[test]
    fn idea14_exotic_zones() {
        let mut errors = Vec::new();
        let cases: &[(Tz, &str, &str)] = &[
            (chrono_tz::Pacific::Apia, "2011-12-28 12:00", "2012-01-02 12:00"), // skips Dec 30
            (chrono_tz::America::Sao_Paulo, "2017-10-14 12:00", "2017-10-16 12:00"), // 00:00 -> 01:00
            (chrono_tz::America::Havana, "2024-03-09 12:00", "2024-03-11 12:00"), // 00:00 -> 01:00
            (chrono_tz::Australia::Lord_Howe, "2024-04-06 12:00", "2024-04-08 12:00"), // 30 min
            (chrono_tz::Africa::Monrovia, "1972-01-06 12:00", "1972-01-08 12:00"), // 44m30s shift
            (chrono_tz::Asia::Kathmandu, "1985-12-31 12:00", "1986-01-02 12:00"), // +15 min
            (chrono_tz::America::Sao_Paulo, "2018-02-16 12:00", "2018-02-19 12:00"), // 24:00 -> 23:00
        ];

        for (tz, from, to) in cases {
            let from = tz.from_local_datetime(&dt(from)).earliest().unwrap();
            let to = tz.from_local_datetime(&dt(to)).earliest().unwrap();

            for expr in ["24/7", "00:00-00:30", "23:30-24:00", "23:30-00:30", "Dec 30", "Fr", "10:00-12:00", "00:10-00:20"] {
                if let Err(e) = structure(expr, *tz, from, to) {
                    errors.push(e);
                }
            }
        }

        assert!(errors.is_empty(), "\n{}", errors.join("\n"));
    }
}

// ---------------------------------------------------------------------------------------------
// Idea 15: random composition of selectors (deterministic generator). `HUNT_FUZZ=n` scales it.
// ---------------------------------------------------------------------------------------------

struct Rng(u64);

impl Rng {
    fn next(&mut self) -> u64 {
        self.0 ^= self.0 << 13;
        self.0 ^= self.0 >> 7;
        self.0 ^= self.0 << 17;
        self.0
    }

    fn below(&mut self, n: u64) -> u64 {
        self.next() % n
    }

    fn pick<'a>(&mut self, xs: &[&'a str]) -> &'a str {
        xs[self.below(xs.len() as u64) as usize]
    }

    fn chance(&mut self, pct: u64) -> bool {
        self.below(100) < pct
    }
}

thread_local! {
    static SMALL_OFFSETS: std::cell::Cell<bool> = const { std::cell::Cell::new(false) };
}

const MONTHS: [&str; 12] = ["Jan", "Feb", "Mar", "Apr", "May", "Jun", "Jul", "Aug", "Sep", "Oct", "Nov", "Dec"];
const WDAYS: [&str; 7] = ["Mo", "Tu", "We", "Th", "Fr", "Sa", "Su"];

thread_local! {
    static YEAR_BASE: std::cell::Cell<u64> = const { std::cell::Cell::new(1995) };
}

fn gen_year(rng: &mut Rng) -> String {
    format!("{}", (YEAR_BASE.with(|x| x.get()) + rng.below(40)).clamp(1900, 9999))
}

fn gen_date(rng: &mut Rng, dated_pct: u64) -> String {
    let year = if rng.chance(dated_pct) { format!("{} ", gen_year(rng)) } else { String::new() };

    if rng.chance(20) {
        format!("{year}easter")
    } else {
        let day = match rng.below(6) {
            0 => 1,
            1 => 28 + rng.below(4),
            _ => 1 + rng.below(31),
        };

        format!("{year}{} {:02}", rng.pick(&MONTHS), day)
    }
}

fn gen_date_offset(rng: &mut Rng) -> String {
    let mut res = String::new();
    let small = SMALL_OFFSETS.with(|x| x.get());

    if rng.chance(25) {
        res += &format!("{}{}", rng.pick(&["+", "-"]), rng.pick(&WDAYS));
    }

    if rng.chance(30) {
        let n = match if small { rng.below(2) } else { rng.below(4) } {
            0 => 1 + rng.below(3),
            1 => 1 + rng.below(40),
            2 => 300 + rng.below(200),
            _ => 1 + rng.below(1200),
        };

        res += &format!(" {}{} days", rng.pick(&["+", "-"]), n);
    }

    res
}

fn gen_monthday(rng: &mut Rng, dated_pct: u64, offsets: bool) -> String {
    match rng.below(10) {
        0 => {
            let m1 = rng.pick(&MONTHS);
            let m2 = rng.pick(&MONTHS);
            let year = if rng.chance(dated_pct) { gen_year(rng) } else { String::new() };
            format!("{year}{m1}-{m2}")
        }
        1 => {
            let year = if rng.chance(dated_pct) { gen_year(rng) } else { String::new() };
            format!("{year}{}", rng.pick(&MONTHS))
        }
        2 => {
            let off = if offsets { gen_date_offset(rng) } else { String::new() };
            format!("{}{}", gen_date(rng, dated_pct), off)
        }
        3 => {
            let off = if offsets { gen_date_offset(rng) } else { String::new() };
            format!("{}{}+", gen_date(rng, dated_pct), off)
        }
        _ => {
            let o1 = if offsets { gen_date_offset(rng) } else { String::new() };
            let o2 = if offsets { gen_date_offset(rng) } else { String::new() };
            format!("{}{}-{}{}", gen_date(rng, dated_pct), o1, gen_date(rng, dated_pct), o2)
        }
    }
}

fn gen_years(rng: &mut Rng) -> String {
    match rng.below(5) {
        0 => gen_year(rng),
        1 => format!("{}+", gen_year(rng)),
        2 => format!("{}-{}", gen_year(rng), gen_year(rng)),
        _ => format!("{}-{}/{}", gen_year(rng), gen_year(rng), 1 + rng.below(6)),
    }
}

fn gen_weeks(rng: &mut Rng) -> String {
    let w = |rng: &mut Rng| match rng.below(4) {
        0 => 1 + rng.below(3),
        1 => 51 + rng.below(3),
        _ => 1 + rng.below(53),
    };

    match rng.below(4) {
        0 => format!("week {:02}", w(rng)),
        1 => format!("week {:02}-{:02}", w(rng), w(rng)),
        2 => format!("week {:02}-{:02}/{}", w(rng), w(rng), 1 + rng.below(5)),
        _ => format!("week {:02},{:02}-{:02}", w(rng), w(rng), w(rng)),
    }
}

fn gen_time(rng: &mut Rng) -> &'static str {
    rng.pick(&[
        "",
        "",
        "",
        "00:00-24:00",
        "10:00-12:00",
        "22:00-26:00",
        "00:00-48:00",
        "12:00-36:00",
        "00:00-24:00,00:00-24:00",
        "18:00+",
        "sunrise-sunset",
        "(sunset+06:00)-(sunrise+01:00)",
        "23:59-24:01",
        "00:00-00:01",
    ])
}

/// `kinds`: 0 = monthday only (no explicit year), 1 = monthday with years, 2 = everything
fn gen_rule(rng: &mut Rng, mode: u8) -> String {
    let mut parts: Vec<String> = Vec::new();

    match mode {
        0 => parts.push(gen_monthday(rng, 0, true)),
        1 => parts.push(gen_monthday(rng, 50, true)),
        _ => {
            let mut wide = String::new();

            if rng.chance(35) {
                wide += &gen_years(rng);
            }

            if rng.chance(45) {
                // offsets excluded here, they have their own modes
                if !wide.is_empty() && !wide.contains(['-', '+']) {
                    // a single year followed by a month reads as the year of the month
                }
                let md = gen_monthday(rng, 0, false);
                if !wide.is_empty() && md.starts_with("easter") {
                    wide += " ";
                }
                wide += &md;

                if rng.chance(30) {
                    wide += ",";
                    wide += &gen_monthday(rng, 0, false);
                }
            }

            if rng.chance(30) {
                if !wide.is_empty() {
                    wide += " ";
                }
                wide += &gen_weeks(rng);
            }

            if !wide.is_empty() {
                parts.push(wide);
            }

            if rng.chance(35) {
                parts.push(
                    rng.pick(&["PH", "SH", "PH,SH", "PH +1 day", "PH -1 day", "PH +30 days", "PH -400 days", "PH,Su", "Mo-Fr", "Sa[1]", "Su[-1] +2 days"])
                        .to_string(),
                );
            }
        }
    }

    let time = gen_time(rng);

    if !time.is_empty() {
        parts.push(time.to_string());
    }

    let modifier = rng.pick(&["", "", "open", "off", "unknown", "closed \"c\""]);

    if !modifier.is_empty() {
        parts.push(modifier.to_string());
    }

    if parts.is_empty() {
        "24/7".to_string()
    } else {
        parts.join(" ")
    }
}

fn gen_expr(rng: &mut Rng, mode: u8) -> String {
    let mut res = gen_rule(rng, mode);

    while rng.chance(if mode == 2 { 40 } else { 15 }) {
        res += rng.pick(&["; ", ", ", " || "]);
        res += &gen_rule(rng, mode);
    }

    res
}

fn fuzz(mode: u8, seed: u64, default_count: u64) -> Vec<String> {
    fuzz_at(mode, seed, default_count, "1994-01-01 00:00", 45)
}

fn fuzz_at(mode: u8, seed: u64, default_count: u64, base: &str, span_years: u64) -> Vec<String> {
    let count = std::env::var("HUNT_FUZZ")
        .ok()
        .and_then(|x| x.parse().ok())
        .unwrap_or(default_count);

    let ctx = Context::default().with_holidays(holidays(
        &[
            "1996-01-01", "1996-12-25", "2000-02-29", "2004-12-31", "2005-01-01", "2010-05-01", "2010-05-02",
            "2020-01-01", "2033-07-14",
        ],
        &["2001-07-01", "2001-07-02", "2001-07-03", "2015-12-31", "2016-01-01", "2030-02-10"],
    ));

    let mut rng = Rng(seed);
    let mut errors = Vec::new();
    let mut parsed = 0;

    for _ in 0..count {
        let expr = gen_expr(&mut rng, mode);
        let from = dt(base) + Duration::minutes(rng.below(span_years * 366 * 1440) as i64);
        let len = match rng.below(3) {
            0 => rng.below(3 * 366 * 1440),
            1 => rng.below(15 * 366 * 1440),
            _ => rng.below(40 * 366 * 1440),
        };
        let to = from + Duration::minutes(len as i64);

        match check_ctx(&expr, ctx.clone(), from, to) {
            Ok(()) => parsed += 1,
            Err(e) if e.starts_with("DOES NOT PARSE") => {}
            Err(e) => {
                parsed += 1;
                errors.push(e);
            }
        }
    }

    eprintln!("mode {mode}: {parsed}/{count} generated expressions parsed, {} failures", errors.len());
    errors
}

// Everything but date offsets and explicit years inside dates: this is expected to hold.
#[test]
fn idea15_fuzz_general() {
    let errors = fuzz(2, 0x9E3779B97F4A7C15, 400);
    assert!(errors.is_empty(), "\n{}", errors[..errors.len().min(15)].join("\n"));
}

// Monthday ranges with offsets, no explicit year
#[test]
fn idea16_fuzz_monthday_offsets() {
    let errors = fuzz(0, 0xD1B54A32D192ED03, 300);
    assert!(errors.is_empty(), "\n{}", errors[..errors.len().min(15)].join("\n"));
}

// Monthday ranges with offsets and explicit years
#[test]
fn idea17_fuzz_monthday_offsets_years() {
    let errors = fuzz(1, 0x2545F4914F6CDD1D, 300);
    assert!(errors.is_empty(), "\n{}", errors[..errors.len().min(15)].join("\n"));
}

// Same as 16/17 with offsets of at most 40 days (and weekday offsets)
#[test]
fn idea18_fuzz_monthday_small_offsets() {
    SMALL_OFFSETS.with(|x| x.set(true));
    let errors = fuzz(0, 0xA0761D6478BD642F, 300);
    assert!(errors.is_empty(), "\n{}", errors[..errors.len().min(25)].join("\n"));
}

#[test]
fn idea19_fuzz_monthday_small_offsets_years() {
    SMALL_OFFSETS.with(|x| x.set(true));
    let errors = fuzz(1, 0xE7037ED1A0B428DB, 1500);
    assert!(errors.is_empty(), "\n{}", errors[..errors.len().min(25)].join("\n"));
}

// ---------------------------------------------------------------------------------------------
// Idea 20: window bounds with seconds / nanoseconds / leap second representation
// ---------------------------------------------------------------------------------------------

#[test]
fn idea20_subminute_bounds() {
    let mut errors = Vec::new();
    let base = dt("2020-03-10 10:00");
    let leap = d("2020-03-10").and_hms_nano_opt(23, 59, 59, 1_500_000_000).unwrap();

    let bounds = [
        base - Duration::seconds(30),
        base - Duration::nanoseconds(1),
        base,
        base + Duration::nanoseconds(1),
        base + Duration::milliseconds(500),
        base + Duration::seconds(59),
        base + Duration::seconds(60),
        base + Duration::seconds(61),
        leap,
        leap + Duration::seconds(1),
        dt("2020-03-11 00:00"),
        dt("2020-03-11 00:00") + Duration::nanoseconds(1),
        dt("2020-03-11 02:00") - Duration::nanoseconds(1),
        dt("2020-03-12 00:00"),
    ];

    for expr in ["10:00-10:01", "10:00-10:01 unknown; 10:01-12:00 off", "22:00-26:00", "23:59-24:00", "24/7", "Mar 10", "Mar 11 00:00-00:01", "Tu 23:59-24:01"] {
        for from in bounds {
            for to in bounds {
                if let Err(e) = check_ctx(expr, Context::default(), from, to) {
                    errors.push(e);
                }
            }
        }
    }

    assert!(errors.is_empty(), "\n{}", errors[..errors.len().min(10)].join("\n"));
}

// Idea 21: extreme offsets (saturating arithmetic)
#[test]
fn idea21_extreme_offsets() {
    check_family(
        &[
            "Jan 01 +9223372036854775807 days-Jan 05",
            "Jan 01 -9223372036854775807 days-Jan 05",
            "Jan 01-Jan 05 +9223372036854775807 days",
            "Jan 01-Jan 05 -9223372036854775807 days",
            "Jan 01+Su +9223372036854775807 days",
            "Jan 01-Su -9223372036854775807 days",
            "Jan 01 +95000000 days",
            "Jan 01 -95000000 days-Jan 01 +95000000 days",
            "2020 Jan 01 -95000000 days-2020 Jan 01 +95000000 days",
            "2020 Jan 01 +95000000 days-2020 Jan 01 -95000000 days",
            "easter +9223372036854775807 days",
            "Su[1] +9223372036854775807 days",
            "Su[1] -9223372036854775807 days",
            "Su[1] +100000000 days",
        ],
        &[("2018-06-15 10:30", "2023-03-02 07:00"), ("9997-06-15 10:30", "+10000-03-02 07:00"), ("1899-06-15 10:30", "1902-03-02 07:00")],
    );
}

// Idea 22: real country calendars
#[test]
fn idea22_country_calendars() {
    use opening_hours::localization::Country;
    let mut errors = Vec::new();

    for country in [Country::FR, Country::US, Country::DE, Country::JP, Country::AL] {
        let ctx = Context::default().with_holidays(country.holidays());

        for expr in ["PH", "24/7; PH off", "PH -1 day", "PH +1 day", "SH", "PH,SH 22:00-26:00", "Dec PH", "2020-2030/2 PH", "week 01,52,53 PH", "PH +10 days || unknown"] {
            for (from, to) in [("1990-06-15 10:30", "2110-03-02 07:00")] {
                if let Err(e) = check_ctx(expr, ctx.clone(), dt(from), dt(to)) {
                    errors.push(e);
                }
            }
        }
    }

    assert!(errors.is_empty(), "\n{}", errors[..errors.len().min(10)].join("\n"));
}

// Idea 23: comments only / odd but valid syntax
#[test]
fn idea23_odd_syntax() {
    check_family(
        &[
            "\"on appointment\"",
            "Mo \"x\"",
            "\"x\":10:00-12:00",
            "\"x\":Mo 10:00-12:00; \"y\":Tu off",
            "Jan \"a\"; Feb \"b\"",
            "24/7 \"a\"; Jan open \"b\"",
            "24/7 closed \"a\"; Jan closed \"b\"",
            "Jan closed \"b\"; Feb closed",
            "24/7 unknown; Jan unknown \"b\"",
            "10:00-12:00 open, 24/7",
            "10:00-12:00 open; 24/7 off",
            "Jan off || Feb off || 24/7 off",
            "Jan off || Feb off",
            "Jan unknown || 24/7 || Feb off",
            "24/7 || Mo off",
            "24/7 off || Mo",
            "Jan off, Feb",
            "Jan, Feb off",
            "00:00-24:00",
            "00:00-24:00; Jan off",
            "Jan 00:00-24:00 off; Jan-Feb 00:00-24:00 unknown, Feb-Mar 00:00-24:00",
            "0:00-24:00",
            "Jan-Feb,Nov-Dec;2021 off",
            "Jan: 10:00-12:00",
            "Jan:10:00-12:00",
            "2020:10:00-12:00",
            "week 2: off",
            "Jan 1-5: off",
            "Jan 1-5,Jan 10-20 off",
        ],
        &[("2018-06-15 10:30", "2023-03-02 07:00")],
    );
}

// Idea 27: natural looking ranges around new year with small offsets
#[test]
fn idea27_new_year_offsets() {
    check_family(
        &[
            "Dec 25-Su-Jan 01+Su",
            "Dec 20-Jan 02 +5 days",
            "Jan 01 -1 day-Jan 06",
            "Jan 01 -7 days-Jan 06",
            "Jan 01-Mo-Jan 06",
            "Dec 31 +1 day-Jan 06",
            "Dec 31 +1 day",
            "Dec 31+Su-Jan 10",
            "Dec 31+Mo",
            "Jan 01-Su",
            "Jan 01-Su-Jan 01+Su",
            "Dec 24-Dec 31 +1 day",
            "Dec 24-Dec 31+Su",
            "Dec 26+Sa-Dec 31+Su",
            "Nov 01-Dec 31 +7 days",
            "Jan 01 -7 days-Dec 31",
            "Jan 01-Su-Dec 31",
            "Jan 01-Dec 31+Su",
            "Jan 01 -1 day-Dec 31",
            "Jan 01-Dec 31 +1 day",
            "Jan 01 -1 day-Dec 31 +1 day",
            "Jan 02-Jan 01 +1 day",
            "Dec 31 +2 days-Jan 05",
        ],
        &[("1995-06-15 10:30", "2035-03-02 07:00")],
    );
}

// Idea 28: the general generator near both ends of the supported range
#[test]
fn idea28_fuzz_general_range_ends() {
    YEAR_BASE.with(|x| x.set(9965));
    let errors = fuzz_at(2, 0x94D049BB133111EB, 200, "9960-01-01 00:00", 41);
    assert!(errors.is_empty(), "\n{}", errors[..errors.len().min(15)].join("\n"));

    YEAR_BASE.with(|x| x.set(1890));
    let errors = fuzz_at(2, 0xBF58476D1CE4E5B9, 200, "1880-01-01 00:00", 30);
    assert!(errors.is_empty(), "\n{}", errors[..errors.len().min(15)].join("\n"));
}

// Idea 29 (judgement call: are comments part of the "state"?): the comments of an interval that
// spans several days are those of its first piece only.
#[test]
fn idea29_comments_of_merged_intervals() {
    let oh = OpeningHours::parse("Mo open \"a\"; Tu open \"b\"").unwrap();
    let got: Vec<_> = oh.iter_range(dt("2024-01-01 00:00"), dt("2024-01-03 00:00")).collect();
    let tuesday: Vec<String> = oh
        .schedule_at(d("2024-01-02"))
        .into_iter()
        .flat_map(|tr| tr.comments.iter().map(|c| c.to_string()).collect::<Vec<_>>())
        .collect();
    assert_eq!(tuesday, ["b"]);

    for iv in &got {
        eprintln!("{:?} .. {:?} {:?} {:?}", iv.range.start, iv.range.end, iv.kind, iv.comments);
    }

    // every instant of Tuesday is inside an interval which carries the comment of Tuesday
    let iv = got
        .iter()
        .find(|iv| iv.range.start <= dt("2024-01-02 12:00") && dt("2024-01-02 12:00") < iv.range.end)
        .unwrap();
    assert!(
        iv.comments.iter().any(|c| &**c == "b"),
        "interval {:?}..{:?} has comments {:?}",
        iv.range.start,
        iv.range.end,
        iv.comments
    );
}

// Idea 30: `state()` (public, independent path) against the interval stream, for the confirmed
// defect of idea 1: shows that the disagreement is visible with the public API only.
#[test]
fn idea30_state_vs_stream() {
    let oh = OpeningHours::parse("Mar 01-2020 Apr 05").unwrap();
    let probe = dt("2020-08-01 12:00");
    let iv = oh
        .iter_range(dt("2005-01-01 00:00"), dt("2030-01-01 00:00"))
        .find(|iv| iv.range.start <= probe && probe < iv.range.end)
        .unwrap();
    assert_eq!(oh.state(probe), iv.kind, "state() at {probe} against interval {:?}..{:?}", iv.range.start, iv.range.end);
}

// Idea 31: holidays outside of the supported range, reached through offsets
#[test]
fn idea31_holidays_outside_range() {
    let mut public = compact_calendar::CompactCalendar::default();
    public.insert(d("1899-12-31"));
    public.insert(d("1850-06-01"));
    public.insert(NaiveDate::from_ymd_opt(10000, 1, 1).unwrap());
    public.insert(NaiveDate::from_ymd_opt(10050, 1, 1).unwrap());
    public.insert(d("2020-02-29"));
    let ctx = Context::default().with_holidays(ContextHolidays::new(Arc::new(public), Default::default()));

    check_family_ctx(
        &["PH", "PH +1 day", "PH -1 day", "PH +18263 days", "PH -18263 days", "PH -2 days 22:00-26:00", "PH +1 day 22:00-26:00", "SH"],
        &ctx,
        &[
            ("1840-01-01 00:00", "1901-01-01 00:00"),
            ("1899-12-30 12:00", "1900-01-03 00:00"),
            ("9999-06-01 00:00", "+10060-01-01 00:00"),
            ("2019-01-01 00:00", "2021-01-01 00:00"),
            ("1900-01-01 00:00", "2100-01-01 00:00"),
        ],
    );
}

#[test]
#[ignore]
fn zz_print_details() {
    for (expr, from, to) in [
        ("Dec 30+Su-Jan 03", "1996-06-01 00:00", "2000-06-01 00:00"),
        ("2020 Mar 01-easter", "2012-01-01 00:00", "2023-01-01 00:00"),
        ("Mar 01-2020 Apr 05", "2005-01-01 00:00", "2030-01-01 00:00"),
    ] {
        let oh = OpeningHours::parse(expr).unwrap();
        eprintln!("== {expr}");
        for iv in oh.iter_range(dt(from), dt(to)) {
            eprintln!("   got {} .. {} {:?}", iv.range.start, iv.range.end, iv.kind);
        }
        for iv in expected_naive(&oh, dt(from), dt(to)) {
            eprintln!("   exp {} .. {} {:?}", iv.0, iv.1, iv.2);
        }
    }
}

// Idea 32 (outside of the quantification of the statement, which lists holidays and locale only):
// with `approx_bound_interval_size`, the stream is not a partition of the window any more.
#[test]
fn idea32_approx_bound_stream_structure() {
    let ctx = Context::default().approx_bound_interval_size(Duration::days(365));
    let r = check_ctx("2030", ctx, dt("2020-01-01 00:00"), dt("2040-01-01 00:00"));
    assert!(r.is_ok(), "\n{}", r.unwrap_err());
}

// Same as idea 30 for the offset variant (idea 6b), public API only.
#[test]
fn idea30b_state_vs_stream_offsets() {
    let oh = OpeningHours::parse("Dec 30+Su-Jan 03").unwrap();
    let probe = dt("1998-01-02 12:00");
    let iv = oh
        .iter_range(dt("1996-06-01 00:00"), dt("1999-06-01 00:00"))
        .find(|iv| iv.range.start <= probe && probe < iv.range.end)
        .unwrap();
    assert_eq!(oh.state(probe), iv.kind, "state() at {probe} against interval {:?}..{:?}", iv.range.start, iv.range.end);
}
