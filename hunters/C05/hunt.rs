#![allow(dead_code)]
use std::sync::Arc;

use chrono::Duration;
use opening_hours_syntax::parse;
use opening_hours_syntax::rules::day::*;
use opening_hours_syntax::rules::time::*;
use opening_hours_syntax::rules::*;
use opening_hours_syntax::ExtendedTime;

// ---------------------------------------------------------------------------
// Generator of (sentence, expected expression) pairs
// ---------------------------------------------------------------------------

struct Rng(u64);

impl Rng {
    fn next(&mut self) -> u64 {
        self.0 ^= self.0 << 13;
        self.0 ^= self.0 >> 7;
        self.0 ^= self.0 << 17;
        self.0
    }
    fn below(&mut self, n: u64) -> u64 {
        (self.next() >> 11) % n
    }
    fn range(&mut self, lo: u64, hi: u64) -> u64 {
        lo + self.below(hi - lo + 1)
    }
    fn coin(&mut self) -> bool {
        self.below(2) == 0
    }
    fn pick<'a, T>(&mut self, xs: &'a [T]) -> &'a T {
        &xs[self.below(xs.len() as u64) as usize]
    }
}

thread_local! {
    static FIELD: std::cell::Cell<usize> = std::cell::Cell::new(0);
    static TARGET: std::cell::Cell<usize> = std::cell::Cell::new(usize::MAX);
    static VARIANT: std::cell::Cell<usize> = std::cell::Cell::new(0);
    static NOTE: std::cell::RefCell<String> = std::cell::RefCell::new(String::new());
}

/// Count one more numeric field, returns a corrupted rendering if it is the targeted one.
fn corrupt(kind: &str, opts: &[String]) -> Option<String> {
    let c = FIELD.with(|f| {
        let c = f.get();
        f.set(c + 1);
        c
    });
    if c == TARGET.with(|t| t.get()) {
        let v = VARIANT.with(|v| v.get());
        let o = opts[v % opts.len()].clone();
        NOTE.with(|n| *n.borrow_mut() = format!("{kind} -> {o:?}"));
        Some(o)
    } else {
        None
    }
}

fn strs(xs: &[&str]) -> Vec<String> {
    xs.iter().map(|x| x.to_string()).collect()
}

const WDAYS: [(&str, Weekday); 7] = [
    ("Mo", Weekday::Mon),
    ("Tu", Weekday::Tue),
    ("We", Weekday::Wed),
    ("Th", Weekday::Thu),
    ("Fr", Weekday::Fri),
    ("Sa", Weekday::Sat),
    ("Su", Weekday::Sun),
];

const MONTHS: [(&str, Month); 12] = [
    ("Jan", Month::January),
    ("Feb", Month::February),
    ("Mar", Month::March),
    ("Apr", Month::April),
    ("May", Month::May),
    ("Jun", Month::June),
    ("Jul", Month::July),
    ("Aug", Month::August),
    ("Sep", Month::September),
    ("Oct", Month::October),
    ("Nov", Month::November),
    ("Dec", Month::December),
];

const EVENTS: [(&str, TimeEvent); 4] = [
    ("dawn", TimeEvent::Dawn),
    ("sunrise", TimeEvent::Sunrise),
    ("sunset", TimeEvent::Sunset),
    ("dusk", TimeEvent::Dusk),
];

fn gen_year(r: &mut Rng) -> Yr {
    let y = *r.pick(&[1900u16, 1901, 1999, 2000, 2020, 2021, 2024, 2999, 9998, 9999]);
    let s = corrupt("year", &strs(&["1899", "1000", "0", "10000", "99999", "190", "0000"]))
        .unwrap_or_else(|| y.to_string());
    Yr(y, s)
}

#[derive(Clone)]
struct Yr(u16, String);

impl std::fmt::Display for Yr {
    fn fmt(&self, f: &mut std::fmt::Formatter<'_>) -> std::fmt::Result {
        write!(f, "{}", self.1)
    }
}

fn gen_positive(r: &mut Rng, max: u64) -> (String, u64) {
    let v = match r.below(4) {
        0 => 1,
        1 => 2,
        2 => max,
        _ => r.range(1, max),
    };
    let mut s = match r.below(4) {
        0 => format!("0{v}"),
        1 => format!("000{v}"),
        _ => format!("{v}"),
    };
    if let Some(c) = corrupt("positive number", &strs(&["0", "00", "000"])) {
        s = c;
    }
    (s, v)
}

fn gen_day_offset(r: &mut Rng) -> (String, i64) {
    let (s, v) = gen_positive(r, 400);
    let v = v as i64;
    let plural = if r.coin() { "s" } else { "" };
    if r.coin() {
        (format!(" +{s} day{plural}"), v)
    } else {
        (format!(" -{s} day{plural}"), -v)
    }
}

// --- time

fn gen_hm(r: &mut Rng, max_hour: u64) -> (String, u8, u8) {
    let h = match r.below(5) {
        0 => 0,
        1 => max_hour,
        2 => r.range(0, 9),
        _ => r.range(0, max_hour),
    };
    let m = if h == 24 && max_hour == 24 || h == 48 {
        0
    } else {
        *r.pick(&[0u64, 1, 9, 10, 30, 59])
    };
    let mut s = if h < 10 && r.coin() {
        format!("{h}:{m:02}")
    } else {
        format!("{h:02}:{m:02}")
    };
    let hour_opts = if max_hour == 24 {
        strs(&["25:00", "24:01", "24:30", "29:59", "30:00", "99:00", "100:00", "024:00"])
    } else {
        strs(&["49:00", "48:01", "48:59", "50:00", "99:00", "100:00", "048:00", "49:30"])
    };
    if let Some(c) = corrupt(if max_hour == 24 { "hour" } else { "extended hour" }, &hour_opts) {
        s = c;
    }
    if let Some(c) = corrupt("minute", &[format!("{h:02}:60"), format!("{h:02}:99"), format!("{h}:60")]) {
        s = c;
    }
    (s, h as u8, m as u8)
}

fn gen_variable(r: &mut Rng) -> (String, VariableTime) {
    let (es, ev) = *r.pick(&EVENTS);
    if r.coin() {
        (es.to_string(), VariableTime { event: ev, offset: 0 })
    } else {
        let (s, h, m) = gen_hm(r, 24);
        let mins = h as i16 * 60 + m as i16;
        if r.coin() {
            (format!("({es}+{s})"), VariableTime { event: ev, offset: mins })
        } else {
            (format!("({es}-{s})"), VariableTime { event: ev, offset: -mins })
        }
    }
}

fn gen_time(r: &mut Rng, extended: bool) -> (String, Time) {
    if r.below(4) == 0 {
        let (s, v) = gen_variable(r);
        (s, Time::Variable(v))
    } else {
        let (s, h, m) = gen_hm(r, if extended { 48 } else { 24 });
        (s, Time::Fixed(ExtendedTime::new(h, m).unwrap()))
    }
}

fn gen_timespan(r: &mut Rng) -> (String, TimeSpan) {
    let (ss, start) = gen_time(r, false);
    match r.below(6) {
        0 => (
            format!("{ss}+"),
            TimeSpan {
                range: start..Time::Fixed(ExtendedTime::MIDNIGHT_24),
                open_end: true,
                repeats: None,
            },
        ),
        1 | 2 => {
            let (es, end) = gen_time(r, true);
            let dash = *r.pick(&["-", "-", " - ", " -", "- "]);
            (format!("{ss}{dash}{es}"), TimeSpan { range: start..end, open_end: false, repeats: None })
        }
        3 => {
            let (es, end) = gen_time(r, true);
            let dash = *r.pick(&["-", "-", " - ", " -", "- "]);
            (format!("{ss}{dash}{es}+"), TimeSpan { range: start..end, open_end: true, repeats: None })
        }
        _ => {
            let (es, end) = gen_time(r, true);
            let dash = *r.pick(&["-", "-", " -"]);
            let slash = *r.pick(&["/", "/", " / ", " /", "/ "]);
            if r.coin() {
                let m = *r.pick(&[1u64, 5, 10, 30, 59]);
                let ms = corrupt("repeat minute", &strs(&["60", "99", "00"]))
                    .unwrap_or_else(|| format!("{m:02}"));
                (
                    format!("{ss}{dash}{es}{slash}{ms}"),
                    TimeSpan {
                        range: start..end,
                        open_end: false,
                        repeats: Some(Duration::minutes(m as i64)),
                    },
                )
            } else {
                let (hs, h, m) = gen_hm(r, 24);
                if h == 0 && m == 0 {
                    return gen_timespan(r);
                }
                (
                    format!("{ss}{dash}{es}{slash}{hs}"),
                    TimeSpan {
                        range: start..end,
                        open_end: false,
                        repeats: Some(Duration::minutes(h as i64 * 60 + m as i64)),
                    },
                )
            }
        }
    }
}

fn gen_time_selector(r: &mut Rng) -> (String, Vec<TimeSpan>) {
    let n = *r.pick(&[1, 1, 1, 2, 3]);
    let mut s = String::new();
    let mut v = Vec::new();
    for i in 0..n {
        let (ts, t) = gen_timespan(r);
        if i > 0 {
            s.push(',');
        }
        s.push_str(&ts);
        v.push(t);
    }
    (s, v)
}

// --- weekday

fn fmt_nth(a: u64) -> String {
    corrupt("nth", &strs(&["0", "6", "9", "10"])).unwrap_or_else(|| a.to_string())
}

fn gen_nth_list(r: &mut Rng) -> (String, [bool; 5], [bool; 5]) {
    let mut pos = [false; 5];
    let mut neg = [false; 5];
    let n = r.range(1, 3);
    let mut parts = Vec::new();
    for _ in 0..n {
        match r.below(3) {
            0 => {
                let a = r.range(1, 5);
                pos[a as usize - 1] = true;
                parts.push(fmt_nth(a));
            }
            1 => {
                let a = r.range(1, 5);
                let b = r.range(a, 5);
                for i in a..=b {
                    pos[i as usize - 1] = true;
                }
                parts.push(format!("{}-{}", fmt_nth(a), fmt_nth(b)));
            }
            _ => {
                let a = r.range(1, 5);
                neg[a as usize - 1] = true;
                parts.push(format!("-{}", fmt_nth(a)));
            }
        }
    }
    (parts.join(","), pos, neg)
}

fn gen_weekday_range(r: &mut Rng) -> (String, WeekDayRange) {
    let (s1, d1) = *r.pick(&WDAYS);
    match r.below(4) {
        0 => (
            s1.to_string(),
            WeekDayRange::Fixed {
                range: d1..=d1,
                offset: 0,
                nth_from_start: [true; 5],
                nth_from_end: [true; 5],
            },
        ),
        1 => {
            let (s2, d2) = *r.pick(&WDAYS);
            (
                format!("{s1}-{s2}"),
                WeekDayRange::Fixed {
                    range: d1..=d2,
                    offset: 0,
                    nth_from_start: [true; 5],
                    nth_from_end: [true; 5],
                },
            )
        }
        _ => {
            let (ns, pos, neg) = gen_nth_list(r);
            let (os, off) = if r.coin() { gen_day_offset(r) } else { (String::new(), 0) };
            (
                format!("{s1}[{ns}]{os}"),
                WeekDayRange::Fixed {
                    range: d1..=d1,
                    offset: off,
                    nth_from_start: pos,
                    nth_from_end: neg,
                },
            )
        }
    }
}

fn gen_holiday(r: &mut Rng) -> (String, WeekDayRange) {
    match r.below(3) {
        0 => ("SH".to_string(), WeekDayRange::Holiday { kind: HolidayKind::School, offset: 0 }),
        1 => ("PH".to_string(), WeekDayRange::Holiday { kind: HolidayKind::Public, offset: 0 }),
        _ => {
            let (os, off) = gen_day_offset(r);
            (format!("PH{os}"), WeekDayRange::Holiday { kind: HolidayKind::Public, offset: off })
        }
    }
}

fn gen_seq(
    r: &mut Rng,
    f: fn(&mut Rng) -> (String, WeekDayRange),
) -> (String, Vec<WeekDayRange>) {
    let n = *r.pick(&[1, 1, 2, 3]);
    let mut parts = Vec::new();
    let mut v = Vec::new();
    for _ in 0..n {
        let (s, x) = f(r);
        parts.push(s);
        v.push(x);
    }
    (parts.join(","), v)
}

fn gen_weekday_selector(r: &mut Rng) -> (String, Vec<WeekDayRange>) {
    match r.below(6) {
        0 | 1 => gen_seq(r, gen_weekday_range),
        2 => gen_seq(r, gen_holiday),
        3 | 4 => {
            let (s1, mut v1) = gen_seq(r, gen_holiday);
            let (s2, v2) = gen_seq(r, gen_weekday_range);
            let sep = if r.coin() { "," } else { " " };
            v1.extend(v2);
            (format!("{s1}{sep}{s2}"), v1)
        }
        _ => {
            let (s1, mut v1) = gen_seq(r, gen_weekday_range);
            let (s2, v2) = gen_seq(r, gen_holiday);
            let sep = if r.coin() { "," } else { " " };
            v1.extend(v2);
            (format!("{s1}{sep}{s2}"), v1)
        }
    }
}

// --- week

fn gen_weeknum(r: &mut Rng) -> (String, u8) {
    let v = *r.pick(&[1u8, 2, 9, 10, 19, 49, 50, 52, 53]);
    let s = if v < 10 && r.coin() { format!("0{v}") } else { format!("{v}") };
    let s = corrupt("weeknum", &strs(&["0", "00", "54", "59", "60", "99", "100"])).unwrap_or(s);
    (s, v)
}

fn gen_week_selector(r: &mut Rng) -> (String, Vec<WeekRange>) {
    let n = *r.pick(&[1, 1, 2, 3]);
    let mut parts = Vec::new();
    let mut v = Vec::new();
    for _ in 0..n {
        let (s1, w1) = gen_weeknum(r);
        match r.below(3) {
            0 => {
                parts.push(s1);
                v.push(WeekRange { range: WeekNum(w1)..=WeekNum(w1), step: 1 });
            }
            1 => {
                let (s2, w2) = gen_weeknum(r);
                parts.push(format!("{s1}-{s2}"));
                v.push(WeekRange { range: WeekNum(w1)..=WeekNum(w2), step: 1 });
            }
            _ => {
                let (s2, w2) = gen_weeknum(r);
                let (ss, st) = gen_positive(r, 255);
                parts.push(format!("{s1}-{s2}/{ss}"));
                v.push(WeekRange { range: WeekNum(w1)..=WeekNum(w2), step: st as u8 });
            }
        }
    }
    let kw = if r.below(4) == 0 { "week" } else { "week " };
    (format!("{kw}{}", parts.join(",")), v)
}

// --- year

fn gen_year_selector(r: &mut Rng, allow_single: bool) -> (String, Vec<YearRange>) {
    loop {
        let n = *r.pick(&[1, 1, 2, 3]);
        let mut parts = Vec::new();
        let mut v = Vec::new();
        for _ in 0..n {
            let y1 = gen_year(r);
            match r.below(4) {
                0 => {
                    parts.push(format!("{y1}"));
                    v.push(YearRange { range: Year(y1.0)..=Year(y1.0), step: 1 });
                }
                1 => {
                    parts.push(format!("{y1}+"));
                    v.push(YearRange { range: Year(y1.0)..=Year(9999), step: 1 });
                }
                2 => {
                    let y2 = gen_year(r);
                    parts.push(format!("{y1}-{y2}"));
                    v.push(YearRange { range: Year(y1.0)..=Year(y2.0), step: 1 });
                }
                _ => {
                    let y2 = gen_year(r);
                    let (ss, st) = gen_positive(r, 65535);
                    parts.push(format!("{y1}-{y2}/{ss}"));
                    v.push(YearRange { range: Year(y1.0)..=Year(y2.0), step: st as u16 });
                }
            }
        }
        let s = parts.join(",");
        // a selector ending with a bare year directly followed by a month is documented as
        // being read as the year of the monthday range
        let last_is_bare = v.last().map(|y| y.range.start() == y.range.end()).unwrap()
            && !s.ends_with('+');
        if allow_single || !last_is_bare {
            return (s, v);
        }
    }
}

// --- monthday

fn gen_daynum(r: &mut Rng, min: u8) -> (String, u8) {
    let v = r.range(min as u64, 31) as u8;
    let s = if v < 10 && r.coin() { format!("0{v}") } else { format!("{v}") };
    let s = corrupt("daynum", &strs(&["0", "00", "32", "39", "40", "99", "100"])).unwrap_or(s);
    (s, v)
}

fn gen_date(r: &mut Rng, first: bool) -> (String, Date) {
    let _ = first;
    let year = if r.below(3) == 0 { Some(gen_year(r)) } else { None };
    let ys = match &year {
        Some(y) if r.coin() => format!("{y} "),
        Some(y) => format!("{y}"),
        None => String::new(),
    };
    let year = year.map(|y| y.0);
    if r.below(4) == 0 {
        let sp = if year.is_some() && ys.ends_with(' ') { "" } else { "" };
        (format!("{ys}{sp}easter"), Date::Easter { year })
    } else {
        let (ms, m) = *r.pick(&MONTHS);
        let (ds, d) = gen_daynum(r, 1);
        let sp = if r.coin() { " " } else { "" };
        (format!("{ys}{ms}{sp}{ds}"), Date::Fixed { year, month: m, day: d })
    }
}

fn gen_date_offset(r: &mut Rng) -> (String, DateOffset) {
    match r.below(4) {
        0 => (String::new(), DateOffset::default()),
        1 => {
            let (os, off) = gen_day_offset(r);
            (os, DateOffset { wday_offset: WeekDayOffset::None, day_offset: off })
        }
        k => {
            let (ws, wd) = *r.pick(&WDAYS);
            let (sign, wo) = if r.coin() {
                ("+", WeekDayOffset::Next(wd))
            } else {
                ("-", WeekDayOffset::Prev(wd))
            };
            if k == 2 {
                (format!("{sign}{ws}"), DateOffset { wday_offset: wo, day_offset: 0 })
            } else {
                let (os, off) = gen_day_offset(r);
                (format!("{sign}{ws}{os}"), DateOffset { wday_offset: wo, day_offset: off })
            }
        }
    }
}

fn gen_monthday_range(r: &mut Rng) -> (String, MonthdayRange) {
    match r.below(6) {
        0 => {
            let year = if r.below(3) == 0 { Some(gen_year(r)) } else { None };
            let ys = year.as_ref().map(|y| y.to_string()).unwrap_or_default();
            let year = year.map(|y| y.0);
            let (ms, m) = *r.pick(&MONTHS);
            (format!("{ys}{ms}"), MonthdayRange::Month { range: m..=m, year })
        }
        1 => {
            let year = if r.below(3) == 0 { Some(gen_year(r)) } else { None };
            let ys = year.as_ref().map(|y| y.to_string()).unwrap_or_default();
            let year = year.map(|y| y.0);
            let (ms, m) = *r.pick(&MONTHS);
            let (ms2, m2) = *r.pick(&MONTHS);
            (format!("{ys}{ms}-{ms2}"), MonthdayRange::Month { range: m..=m2, year })
        }
        2 => {
            let (ds, d) = gen_date(r, true);
            let (os, o) = gen_date_offset(r);
            (format!("{ds}{os}"), MonthdayRange::Date { start: (d, o), end: (d, o) })
        }
        3 => {
            let (ds, d) = gen_date(r, true);
            let (os, o) = gen_date_offset(r);
            let end = if d.has_year() {
                Date::ymd(31, Month::December, 9999)
            } else {
                Date::md(31, Month::December)
            };
            (
                format!("{ds}{os}+"),
                MonthdayRange::Date { start: (d, o), end: (end, DateOffset::default()) },
            )
        }
        4 => {
            let (ds, d) = gen_date(r, true);
            let (os, o) = gen_date_offset(r);
            let (ds2, d2) = gen_date(r, false);
            let (os2, o2) = gen_date_offset(r);
            let dash = *r.pick(&["-", "-", " - ", " -", "- "]);
            // A space followed by a dash could be read as the beginning of an offset
            (
                format!("{ds}{os}{dash}{ds2}{os2}"),
                MonthdayRange::Date { start: (d, o), end: (d2, o2) },
            )
        }
        _ => {
            // date - daynum
            let year = if r.below(3) == 0 { Some(gen_year(r)) } else { None };
            let ys = match &year {
                Some(y) if r.coin() => format!("{y} "),
                Some(y) => format!("{y}"),
                None => String::new(),
            };
            let year = year.map(|y| y.0);
            let (ms, m) = *r.pick(&MONTHS);
            let (ds, d) = gen_daynum(r, 1);
            let (ds2, d2) = gen_daynum(r, d);
            let (os, o) = gen_date_offset(r);
            let (os2, o2) = gen_date_offset(r);
            let sp = if r.coin() { " " } else { "" };
            let dash = *r.pick(&["-", "-", " - ", " -", "- "]);
            (
                format!("{ys}{ms}{sp}{ds}{os}{dash}{ds2}{os2}"),
                MonthdayRange::Date {
                    start: (Date::Fixed { year, month: m, day: d }, o),
                    end: (Date::Fixed { year, month: m, day: d2 }, o2),
                },
            )
        }
    }
}

fn gen_monthday_selector(r: &mut Rng) -> (String, Vec<MonthdayRange>) {
    let n = *r.pick(&[1, 1, 2, 3]);
    let mut parts = Vec::new();
    let mut v = Vec::new();
    for _ in 0..n {
        let (s, x) = gen_monthday_range(r);
        parts.push(s);
        v.push(x);
    }
    (parts.join(","), v)
}

// --- rule

fn gen_comment(r: &mut Rng) -> String {
    r.pick(&["c", "by appointment", "a; b", "x, y", "||", "été ☀", " ", "Mo-Fr 10:00", "off"])
        .to_string()
}

struct GenRule {
    text: String,
    day: DaySelector,
    time: Vec<TimeSpan>,
    kind: RuleKind,
    comments: Vec<String>,
}

fn starts_with_digit(s: &str) -> bool {
    s.chars().next().map(|c| c.is_ascii_digit()).unwrap_or(false)
}

fn ends_with_digit(s: &str) -> bool {
    s.chars().last().map(|c| c.is_ascii_digit()).unwrap_or(false)
}

fn gen_rule(r: &mut Rng) -> GenRule {
    let mut text = String::new();
    let mut day = DaySelector::default();
    let mut time = Vec::new();
    let mut comments = Vec::new();

    let shape = r.below(20);

    if shape == 0 {
        text.push_str("24/7");
    } else if shape == 1 {
        // modifier only: nothing
    } else {
        let mut wide_nonempty = false;

        if shape == 2 {
            let c = gen_comment(r);
            text.push_str(&format!("\"{c}\":"));
            comments.push(c);
        } else {
            let has_month = r.below(3) == 0;
            let has_year = r.below(4) == 0;
            let has_week = r.below(4) == 0;

            if has_year {
                let (s, v) = gen_year_selector(r, !has_month);
                text.push_str(&s);
                day.year = v;
                wide_nonempty = true;
            }

            if has_month {
                let (mut s, mut v) = gen_monthday_selector(r);
                // avoid gluing digits of the year selector with a leading year of the date
                while ends_with_digit(&text) && starts_with_digit(&s) {
                    (s, v) = gen_monthday_selector(r);
                }
                text.push_str(&s);
                day.monthday = v;
                wide_nonempty = true;
            }

            if has_week {
                let (s, v) = gen_week_selector(r);
                if wide_nonempty {
                    text.push_str(*r.pick(&[" ", " ", "", ":", ": "]));
                }
                text.push_str(&s);
                day.week = v;
                wide_nonempty = true;
            }
        }

        let has_wd = r.below(2) == 0;
        let has_time = r.below(2) == 0 || (!wide_nonempty && !has_wd && shape != 2);

        let mut small = String::new();

        if has_wd {
            let (s, v) = gen_weekday_selector(r);
            small.push_str(&s);
            day.weekday = v;
        }

        if has_time {
            let (s, v) = gen_time_selector(r);
            if has_wd {
                small.push(' ');
            }
            small.push_str(&s);
            time = v;
        }

        if wide_nonempty {
            if small.is_empty() {
                text.push_str(*r.pick(&["", "", ":", " "]));
            } else {
                let mut sep = *r.pick(&[" ", " ", ":", ": ", ""]);
                if sep.is_empty() && ends_with_digit(&text) && starts_with_digit(&small) {
                    sep = " ";
                }
                // `+1 day` followed by `sunrise` is read as `+1 days` followed by `unrise`
                if sep.is_empty() && text.ends_with("day") && small.starts_with('s') {
                    sep = " ";
                }
                // `Jan 1+Mo` is a date offset
                if sep.is_empty() && text.ends_with('+') {
                    sep = " ";
                }
                text.push_str(sep);
            }
        }

        text.push_str(&small);
    }

    // modifier
    let selector_empty = text.is_empty();
    let mut kind = RuleKind::Open;
    let mut m = r.below(6);
    if selector_empty && m == 0 {
        m = 1 + r.below(5);
    }

    let sp = |r: &mut Rng| if r.below(4) == 0 { "" } else { " " };

    match m {
        0 => {}
        1 => {
            let s = sp(r);
            text.push_str(&format!("{s}open"));
        }
        2 => {
            let s = sp(r);
            let kw = if r.coin() { "off" } else { "closed" };
            text.push_str(&format!("{s}{kw}"));
            kind = RuleKind::Closed;
        }
        3 => {
            let s = sp(r);
            text.push_str(&format!("{s}unknown"));
            kind = RuleKind::Unknown;
        }
        4 => {
            let c = gen_comment(r);
            let s = sp(r);
            text.push_str(&format!("{s}\"{c}\""));
            comments.push(c);
        }
        _ => {
            let c = gen_comment(r);
            let s = sp(r);
            let s2 = sp(r);
            let (kw, k) = *r.pick(&[
                ("open", RuleKind::Open),
                ("off", RuleKind::Closed),
                ("closed", RuleKind::Closed),
                ("unknown", RuleKind::Unknown),
            ]);
            text.push_str(&format!("{s}{kw}{s2}\"{c}\""));
            kind = k;
            comments.push(c);
        }
    }

    GenRule { text, day, time, kind, comments }
}

fn gen_expression(r: &mut Rng) -> (String, OpeningHoursExpression) {
    let n = *r.pick(&[1, 1, 1, 2, 2, 3]);
    let mut text = String::new();
    let mut rules = Vec::new();

    for i in 0..n {
        let rule = gen_rule(r);
        let mut operator = RuleOperator::Normal;

        if i > 0 {
            let (sep, op) = *r.pick(&[
                (";", RuleOperator::Normal),
                ("; ", RuleOperator::Normal),
                (" ; ", RuleOperator::Normal),
                (" ;", RuleOperator::Normal),
                (", ", RuleOperator::Additional),
                (" || ", RuleOperator::Fallback),
                ("|| ", RuleOperator::Fallback),
            ]);
            text.push_str(sep);
            operator = op;
        }

        text.push_str(&rule.text);

        rules.push(RuleSequence {
            day_selector: rule.day,
            time_selector: TimeSelector::new(rule.time),
            kind: rule.kind,
            operator,
            comments: rule
                .comments
                .into_iter()
                .map(|s| Arc::<str>::from(s.into_boxed_str()))
                .collect::<Vec<_>>()
                .into(),
        });
    }

    (text, OpeningHoursExpression { rules })
}

// ---------------------------------------------------------------------------
// Generated checks (ideas that held)
// ---------------------------------------------------------------------------

/// Every generated sentence (all selector kinds, all syntactic variants the generator knows of)
/// parses to the expression built alongside it.
#[test]
fn held_differential_generated() {
    let mut r = Rng(0x9E3779B97F4A7C15);
    let mut failures = std::collections::BTreeMap::<String, String>::new();

    for _ in 0..100_000 {
        let (text, expected) = gen_expression(&mut r);
        match parse(&text) {
            Ok(got) if got == expected => {}
            Ok(got) => {
                if failures.len() < 60 {
                    failures.insert(
                        text.clone(),
                        format!("MISPARSE\n   got      `{got}`\n   expected `{expected}`"),
                    );
                }
            }
            Err(e) => {
                if failures.len() < 60 {
                    failures.insert(
                        text.clone(),
                        format!("REJECTED {}", e.to_string().lines().last().unwrap_or("").trim()),
                    );
                }
            }
        }
    }

    for (k, v) in &failures {
        println!("`{k}` => {v}");
    }
    assert!(failures.is_empty(), "{} failures", failures.len());
}

/// Every single numeric field of generated sentences replaced by out-of-range values must be
/// rejected. Two families are known to be accepted and have their own failing tests below:
///  - a zero repetition step (`/00`)
///  - a start hour following a bare month (`Jul 99:00-...` read as `Jul 9 09:00-...`)
#[test]
fn held_corrupted_fields_rejected() {
    let mut seed_rng = Rng(0xDEADBEEFCAFEF00D);
    let mut accepted = std::collections::BTreeMap::<String, Vec<(String, String, String)>>::new();
    let mut checked = 0u64;

    for _ in 0..1500 {
        let seed = seed_rng.next() | 1;

        // first pass: count fields
        FIELD.with(|f| f.set(0));
        TARGET.with(|t| t.set(usize::MAX));
        let (orig, _) = gen_expression(&mut Rng(seed));
        let count = FIELD.with(|f| f.get());
        assert!(parse(&orig).is_ok(), "{orig}");

        for target in 0..count {
            for variant in 0..8 {
                FIELD.with(|f| f.set(0));
                TARGET.with(|t| t.set(target));
                VARIANT.with(|v| v.set(variant));
                let (text, _) = gen_expression(&mut Rng(seed));
                let note = NOTE.with(|n| n.borrow().clone());

                if text == orig {
                    continue; // the corrupted field was part of a discarded attempt
                }

                checked += 1;

                if let Ok(got) = parse(&text) {
                    if note == "repeat minute -> \"00\"" || note.starts_with("hour -> ") {
                        continue; // see defect_* tests
                    }

                    let e = accepted.entry(note).or_default();
                    if e.len() < 6 {
                        e.push((orig.clone(), text, got.to_string()));
                    }
                }
            }
        }
    }

    TARGET.with(|t| t.set(usize::MAX));
    println!("checked {checked} corruptions");

    for (note, xs) in &accepted {
        println!("== {note}");
        for (orig, text, got) in xs {
            println!("   orig `{orig}`\n   corr `{text}`\n   got  `{got}`");
        }
    }

    assert!(accepted.is_empty());
}

/// The rendering of a parsed expression parses back to the same expression.
#[test]
fn held_roundtrip_display() {
    let mut r = Rng(0x1234567812345678);
    let mut failures = std::collections::BTreeMap::<String, String>::new();

    for _ in 0..30_000 {
        let (text, _) = gen_expression(&mut r);
        let Ok(first) = parse(&text) else { continue };
        if first.rules.iter().any(|r| r.comments.len() > 1) {
            continue; // several comments are rendered as a single one
        }
        let shown = first.to_string();
        match parse(&shown) {
            Ok(second) if second == first => {}
            Ok(second) => {
                failures.insert(shown.clone(), format!("from `{text}` reparsed as `{second}`"));
            }
            Err(e) => {
                failures.insert(
                    shown.clone(),
                    format!("from `{text}` REJECTED {}", e.to_string().lines().last().unwrap_or("").trim()),
                );
            }
        }
    }

    for (k, v) in &failures {
        println!("`{k}` => {v}");
    }
    assert!(failures.is_empty());
}

#[test]
fn held_long_inputs_are_fine() {
    let many_rules = vec!["Mo-Fr 10:00-12:00"; 20_000].join("; ");
    assert_eq!(parse(&many_rules).unwrap().rules.len(), 20_000);
    let long_list = format!("Mo {}", vec!["10:00-12:00"; 20_000].join(","));
    assert_eq!(parse(&long_list).unwrap().rules[0].time_selector.time.len(), 20_000);
    let long_comment = format!("Mo \"{}\"", "x".repeat(500_000));
    assert!(parse(&long_comment).is_ok());
    let long_days = vec!["Jan 1 +1 day-Feb 2-Mo -3 days"; 5_000].join(",");
    assert_eq!(parse(&long_days).unwrap().rules[0].day_selector.monthday.len(), 5_000);
}

// ---------------------------------------------------------------------------
// Hand written checks (ideas that held)
// ---------------------------------------------------------------------------

fn shown(s: &str) -> String {
    match parse(s) {
        Ok(e) => e.to_string(),
        Err(e) => format!("ERR {}", e.to_string().lines().last().unwrap_or("").trim()),
    }
}

#[test]
fn held_out_of_range_fields_are_rejected() {
    for s in [
        // empty
        "", " ",
        // hours / minutes / extended time
        "25:00-26:00", "24:01-26:00", "24:30-25:00", "Mo 25:00-26:00", "10:60-12:00", "10:00-12:60",
        "10:00-48:01", "10:00-49:00", "10:00-50:00", "10:00-99:00", "10:00-100:00", "27:43+", "24:11+",
        "(sunrise+25:00)-sunset", "(sunrise+01:60)-sunset", "10:00-12:00/60", "10:00-12:00/25:00",
        "Jan 25:00-26:00", "Jan 1 25:00-26:00", "Jan 1:25:00-26:00", "2020 25:00-26:00",
        // days
        "Jan 0", "Jan 00", "Jan 32", "Jan 40", "Jan 99", "Jan 1-0", "Jan 1-32", "Jan 0-5", "Jan 00-15",
        "Jan 1-Feb 0", "Jan 1-Feb 32", "Jan 32 10:00-12:00", "Jan 001",
        // weeks
        "week 0", "week 00", "week 54", "week 60", "week 99", "week 1-54", "week 0-5", "week 1-0",
        "week 54 Mo", "week 1-53/0", "week 1-53/00",
        // nth
        "Mo[0]", "Mo[6]", "Mo[-0]", "Mo[-6]", "Mo[1-6]", "Mo[0-3]", "Mo[1,6]", "Mo[9]", "Mo[10]",
        // years
        "1899", "1000", "0", "10000", "99999", "1899 Jan 1", "10000 Jan 1", "2020-1899", "2020-10000",
        "1899-2020", "2020-2030/0", "2020-2030/00", "1899Jan", "Jan 1-1899 Feb 1",
        // zero offsets
        "PH +0 day", "Mo[1] -0 days", "Jan 1 +0 days", "easter +00 days",
        // unbalanced quotes
        "\"", "Mo \"foo", "Mo foo\"", "\"foo", "Mo \"foo\" \"", "\"a\"b\":Mo", "\"foo\":Mo \"bar",
        "Mo \"a\" ; Tu \"b", "\"a\":\"b", "Mo \"ring \"the bell\"\"",
        // unsupported
        "Mo 10:00", "10:00", "sunrise", "10:00-12:00,14:00", "easter-5", "easter +1 day-5",
        // garbage
        "this is not a valid expression", "10:00-12:00 tomorrow", "Mo;", ";Mo", "Mo;;Tu", "Mo||Tu",
    ] {
        assert!(parse(s).is_err(), "`{s}` accepted as `{}`", shown(s));
    }
}

#[test]
fn held_syntactic_variants() {
    for (s, expected) in [
        // ambiguity year / date documented in the grammar
        ("2020Jan-Mar,Aug", "2020Jan-Mar,Aug"),
        ("2020,2022Jan-Mar,Aug", "2020,2022Jan-Mar,Aug"),
        ("2020-2022 easter", "2020-2022easter"),
        ("2060+Jan 1", "2060-9999Jan 1"),
        ("2020 week 1", "2020 week01"),
        ("2020week1", "2020 week01"),
        ("Jan:week 1", "Jan week01"),
        ("Jan: week 1", "Jan week01"),
        // day numbers against hours
        ("Jan 1-5:10:00-12:00", "Jan 1-Jan 5 10:00-12:00"),
        ("Jan 5:9:00-12:00", "Jan 5 09:00-12:00"),
        ("Jan 5:10:00+", "Jan 5 10:00+"),
        ("Jan 10:00+", "Jan 10:00+"),
        ("Jun24:00+", "Jun 24:00+"),
        ("Jan 1: 10:00-12:00", "Jan 1 10:00-12:00"),
        ("Jan 1:10:00-12:00", "Jan 1 10:00-12:00"),
        ("Jan 11:00-12:00", "Jan 11:00-12:00"),
        ("Jan 1,Feb 10:00-12:00", "Jan 1,Feb 10:00-12:00"),
        ("week 1:10:00-12:00", "week01 10:00-12:00"),
        ("2020:10:00-12:00", "2020 10:00-12:00"),
        // offsets
        ("Jan 1+Mo", "Jan 1+Mo"),
        ("Jan 1+ Mo", "Jan 1-Dec 31 Mo"),
        ("Jan 1+Mo+", "Jan 1+Mo-Dec 31"),
        ("2020 Jan 1+", "2020 Jan 1-9999 Dec 31"),
        ("Jan 1 -2 days-Feb 1 +3 days", "Jan 1 -2 days-Feb 1 +3 days"),
        ("Jan 1 - 2", "Jan 1-Jan 2"),
        ("Jan 1 -2 10:00-12:00", "Jan 1-Jan 2 10:00-12:00"),
        ("easter -1 day-easter +1 day", "easter -1 day-easter +1 day"),
        ("Mo[1] -1 day", "Mo[1] -1 day"),
        ("PH -1 day,Mo", "PH -1 day,Mo"),
        ("PH +9223372036854775807 days", "PH +9223372036854775807 days"),
        // time
        ("(sunrise-00:30)-(sunset+00:30)", "(sunrise-00:30)-(sunset+00:30)"),
        ("(sunrise+24:00)-dusk", "(sunrise+24:00)-dusk"),
        ("(sunrise+00:00)-dusk", "sunrise-dusk"),
        ("10:00-sunset+", "10:00-sunset+"),
        ("10:00-12:00/1:30", "10:00-12:00/01:30"),
        ("10:00-12:00/24:00", "10:00-12:00/24:00"),
        ("10:00-12:00/10,14:00-16:00", "10:00-12:00/10,14:00-16:00"),
        ("10:00 -12:00 / 30", "10:00-12:00/30"),
        ("24:00-26:00", "24:00-26:00"),
        ("10:00-48:00", "10:00-48:00"),
        ("9:00-2:00", "09:00-02:00"),
        // weekdays / holidays
        ("Mo[1-3,5]", "Mo[1,2,3,5]"),
        ("Mo[-1,1]", "Mo[1,-1]"),
        ("PH Mo", "PH,Mo"),
        ("Mo PH", "Mo,PH"),
        ("Mo,Tu,PH", "Mo,Tu,PH"),
        ("PH,SH,Mo-Fr", "PH,SH,Mo-Fr"),
        ("Su-Mo", "Su-Mo"),
        // modifiers, comments and separators
        ("Mooff", "Mo closed"),
        ("Mo off\"foo\"", "Mo closed \"foo\""),
        ("\"foo\"", "24/7 \"foo\""),
        ("\"a\":Mo \"b\"", "Mo \"a, b\""),
        ("\"a\": off", "24/7 closed \"a\""),
        ("Mo || closed", "Mo || 24/7 closed"),
        ("Mo|| Tu", "Mo || Tu"),
        ("Mo;Tu", "Mo ; Tu"),
        ("Mo , Tu", "Mo, Tu"),
        ("Mo, Tu off", "Mo, Tu closed"),
        ("Jan, Feb off", "Jan, Feb closed"),
        ("Jan,Feb off", "Jan,Feb closed"),
        ("Jan, easter off", "Jan, easter closed"),
        ("Jan,easter off", "Jan,easter closed"),
        ("Mo 10:00-12:00, 13:00-14:00", "Mo 10:00-12:00, 13:00-14:00"),
        ("Mo 10:00-12:00,13:00-14:00", "Mo 10:00-12:00,13:00-14:00"),
        ("24/7 off", "24/7 closed"),
    ] {
        assert_eq!(shown(s), expected, "for `{s}`");
    }
}

// ---------------------------------------------------------------------------
// Suspected defects: each test asserts what the property requires
// ---------------------------------------------------------------------------

/// Statement: "Strings with out-of-range fields (... zero steps) ... are rejected with an error".
/// The steps of week and year ranges are checked (`week 1-53/0`, `2020-2030/0`) but the
/// repetition step of a time span is not.
#[test]
fn defect_zero_time_step_is_accepted() {
    for s in [
        "10:00-12:00/00",
        "10:00-12:00/00:00",
        "10:00-12:00/0:00",
        "Mo-Fr 08:00-18:00/00 open",
    ] {
        assert!(parse(s).is_err(), "`{s}` accepted as `{}` ({:?})", shown(s), parse(s).unwrap());
    }
}

/// Relaxation documented in the grammar: "Relaxed: spaces are normally not allowed" (timespan).
/// `10:00 - 12:00` and `10:00 - 12:00+` and `10:00 -12:00 / 30` are accepted, but as soon as a
/// repetition follows, a space after the dash is refused.
#[test]
fn defect_space_after_dash_refused_when_a_step_follows() {
    let expected = parse("10:00-12:00/30").unwrap();
    assert_eq!(parse("10:00 - 12:00").unwrap(), parse("10:00-12:00").unwrap());
    assert_eq!(parse("10:00 - 12:00+").unwrap(), parse("10:00-12:00+").unwrap());
    assert_eq!(parse("10:00 -12:00 / 30").unwrap(), expected);

    for s in ["10:00 - 12:00/30", "10:00- 12:00/30", "10:00 - 12:00 / 30", "Mo 4:00 - 8:00/30"] {
        assert!(parse(s).is_ok(), "`{s}` => {}", shown(s));
    }

    assert_eq!(parse("10:00 - 12:00/30").unwrap(), expected);
    assert_eq!(parse("10:00 - 12:00/01:30").unwrap(), parse("10:00-12:00/01:30").unwrap());
}

/// Statement: "empty input ... rejected". `""` and `" "` are rejected and the grammar has a guard
/// against empty rules, yet a rule made of two blanks, or of the lone readability separator, is
/// accepted and read as `24/7` (which, as a last rule, makes the whole expression always open).
#[test]
fn defect_blank_rule_is_read_as_always_open() {
    for s in ["  ", ":", ": ", "Mo 10:00-12:00;   ", "Mo 10:00-12:00 ||   ", "Mo 10:00-12:00,   ", "Mo 10:00-12:00;:"] {
        assert!(parse(s).is_err(), "`{s}` accepted as `{}`", shown(s));
    }
}

/// Relaxation "optional spaces": a space is accepted between a year and a full date
/// (`2021 Apr 10`), between a year selector and `easter`, `week`, a weekday or a time, but not
/// between a year (selector) and a month.
#[test]
fn defect_space_between_year_and_month_refused() {
    // what is accepted
    assert!(parse("2021 Apr 10 00:00-01:00").is_ok());
    assert!(parse("2013,2015 easter").is_ok());
    assert!(parse("2013,2015 week 1").is_ok());
    assert!(parse("2013,2015 Mo").is_ok());
    assert!(parse("2013,2015 10:00-12:00").is_ok());

    for (s, same_as) in [
        ("2021 Apr", "2021Apr"),
        ("2021 Apr-Jun", "2021Apr-Jun"),
        ("2021 Apr 10:00-12:00", "2021Apr 10:00-12:00"),
        ("2021 Apr: 10:00-12:00", "2021Apr: 10:00-12:00"),
        ("2021 Apr,Jun off", "2021Apr,Jun off"),
        ("2013,2015 Jan 1", "2013,2015Jan 1"),
        ("2013-2015 Jan-Mar", "2013-2015Jan-Mar"),
        ("2060+ Jan 1", "2060+Jan 1"),
        ("Jan,2013 Mar", "Jan,2013Mar"),
    ] {
        let expected = parse(same_as).unwrap();
        match parse(s) {
            Ok(got) => assert_eq!(got, expected, "for `{s}`"),
            Err(e) => panic!("`{s}` rejected: {}", e.to_string().lines().last().unwrap_or("").trim()),
        }
    }
}

/// Statement: "parses to the expression it denotes: same selectors, ranges ...". A descending
/// range in the nth list sets no position, and a list without any position is then taken for
/// "no list at all": `Mo[5-1]` is every Monday.
#[test]
fn defect_descending_nth_range_drops_the_nth_selector() {
    let every_monday = parse("Mo").unwrap();

    for s in ["Mo[5-1]", "Mo[3-2]", "Mo[2-1] 10:00-12:00"] {
        if let Ok(got) = parse(s) {
            assert_ne!(
                got.rules[0].day_selector, every_monday.rules[0].day_selector,
                "`{s}` is read as `{got}`"
            );
        }
    }
}

/// Statement: "':' or a space after wide-range selectors". The comment form of the wide-range
/// selectors (`"comment":`) does not accept the space.
#[test]
fn judgement_space_after_comment_wide_range_selector() {
    assert_eq!(shown("Jan: Mo"), "Jan Mo");
    assert_eq!(shown("\"foo\":Mo"), "Mo \"foo\"");
    assert_eq!(shown("\"foo\": Mo"), "Mo \"foo\"");
    assert_eq!(shown("\"foo\": 10:00-12:00"), "10:00-12:00 \"foo\"");
}

/// Statement: "start hour above 24 ... rejected", quantified over single-field corruptions.
/// Changing the start hour of `Jul 8:00-04:00` to 99, 32 or 100 is accepted: the first digit(s)
/// are taken for a day number (while `Jul 25:00-26:00` is rejected).
#[test]
fn judgement_out_of_range_hour_after_month_is_reinterpreted() {
    assert!(parse("Jul 8:00-04:00").is_ok());
    assert!(parse("Jul 25:00-26:00").is_err());

    for s in ["Jul 99:00-04:00", "Jul 32:00-10:00", "Jul 100:00-04:00", "Jul 024:00-04:00", "week 54:00-10:00"] {
        assert!(parse(s).is_err(), "`{s}` accepted as `{}`", shown(s));
    }
}

/// `"day" ~ "s"?` is greedy: a day offset directly followed (no readability separator, which is
/// optional) by `sunrise`/`sunset` is not recognised.
#[test]
fn judgement_day_offset_followed_by_sun_event() {
    assert_eq!(shown("Jan 1 +1 day 10:00-12:00"), "Jan 1 +1 day 10:00-12:00");
    assert_eq!(shown("Jan 1 +1 day10:00-12:00"), "Jan 1 +1 day 10:00-12:00");
    assert_eq!(shown("Jan 1 +1 daydawn-dusk"), "Jan 1 +1 day dawn-dusk");
    assert_eq!(shown("Jan 1 +1 daysunrise-sunset"), "Jan 1 +1 day sunrise-sunset");
}

/// The rollover of `date - daynum` builds a year outside of 1900..9999.
#[test]
fn judgement_rollover_builds_year_10000() {
    assert_eq!(shown("2020 Dec 31-5"), "2020 Dec 31-2021 Jan 5");
    assert!(!shown("9999 Dec 31-5").contains("10000"), "{}", shown("9999 Dec 31-5"));
}
