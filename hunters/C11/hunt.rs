//! Hunt for violations of property C11 (sun events).
#![cfg(all(feature = "auto-timezone", feature = "auto-country"))]

use std::panic::{catch_unwind, AssertUnwindSafe};

use chrono::{DateTime, Datelike, Duration, NaiveDate, NaiveDateTime, NaiveTime, TimeZone, Utc};
use chrono_tz::Tz;
use opening_hours::localization::{Coordinates, Localize, NoLocation, TzLocation};
use opening_hours::{Context, OpeningHours};
use opening_hours_syntax::rules::time::TimeEvent;

fn d(y: i32, m: u32, day: u32) -> NaiveDate {
    NaiveDate::from_ymd_opt(y, m, day).unwrap()
}

fn t(h: u32, m: u32) -> NaiveTime {
    NaiveTime::from_hms_opt(h, m, 0).unwrap()
}

/// Independent oracle: instant of the solar noon at longitude `lon` for the
/// mean-solar day `date` (NOAA equation of time).
fn solar_noon_utc(lon: f64, date: NaiveDate) -> DateTime<Utc> {
    let doy = date.ordinal() as f64;
    let g = 2.0 * std::f64::consts::PI / 365.0 * (doy - 1.0);
    let eot = 229.18
        * (0.000075 + 0.001868 * g.cos()
            - 0.032077 * g.sin()
            - 0.014615 * (2.0 * g).cos()
            - 0.040849 * (2.0 * g).sin());
    let minutes = 720.0 - 4.0 * lon - eot;
    let base = date.and_time(NaiveTime::MIN).and_utc();
    base + Duration::seconds((minutes * 60.0).round() as i64)
}

fn events(loc: &TzLocation<Tz>, date: NaiveDate) -> [NaiveTime; 4] {
    [
        loc.event_time(date, TimeEvent::Dawn),
        loc.event_time(date, TimeEvent::Sunrise),
        loc.event_time(date, TimeEvent::Sunset),
        loc.event_time(date, TimeEvent::Dusk),
    ]
}

fn sample_dates() -> Vec<NaiveDate> {
    let mut res = Vec::new();
    let mut date = d(2024, 1, 1);
    while date < d(2025, 1, 1) {
        res.push(date);
        date += Duration::days(4);
    }
    for extra in [
        d(2024, 6, 20),
        d(2024, 6, 21),
        d(2024, 12, 21),
        d(2024, 3, 20),
        d(2024, 9, 22),
        d(1900, 1, 1),
        d(1900, 6, 21),
        d(9999, 6, 21),
        d(9999, 12, 31),
        d(2011, 12, 29),
        d(2011, 12, 31),
    ] {
        res.push(extra);
    }
    res
}

// ---------------------------------------------------------------------------
// 1. Without coordinates: 06:00 / 07:00 / 19:00 / 20:00 on every date
// ---------------------------------------------------------------------------

#[test]
fn s01_no_coords_fixed_events_nolocation() {
    let mut date = d(1900, 1, 1);
    while date <= d(9999, 12, 1) {
        assert_eq!(NoLocation.event_time(date, TimeEvent::Dawn), t(6, 0));
        assert_eq!(NoLocation.event_time(date, TimeEvent::Sunrise), t(7, 0));
        assert_eq!(NoLocation.event_time(date, TimeEvent::Sunset), t(19, 0));
        assert_eq!(NoLocation.event_time(date, TimeEvent::Dusk), t(20, 0));
        date += Duration::days(997);
    }
    let date = d(9999, 12, 31);
    assert_eq!(NoLocation.event_time(date, TimeEvent::Dusk), t(20, 0));
}

#[test]
fn s02_no_coords_fixed_events_tz_only() {
    for tz in [
        chrono_tz::Europe::Paris,
        chrono_tz::Pacific::Apia,
        chrono_tz::America::Anchorage,
        chrono_tz::Australia::Lord_Howe,
        chrono_tz::UTC,
    ] {
        let loc = TzLocation::new(tz);
        for date in sample_dates() {
            assert_eq!(
                events(&loc, date),
                [t(6, 0), t(7, 0), t(19, 0), t(20, 0)],
                "{tz} {date}"
            );
        }
    }
}

#[test]
fn s03_no_coords_expression_intervals() {
    let oh = OpeningHours::parse("dawn-sunrise, sunset-dusk").unwrap();
    for date in [d(1900, 1, 1), d(2024, 2, 29), d(2024, 6, 21), d(9998, 12, 31)] {
        let start = NaiveDateTime::new(date, NaiveTime::MIN);
        let ivs: Vec<_> = oh
            .iter_range(start, start + Duration::days(1))
            .filter(|r| r.kind == opening_hours::RuleKind::Open)
            .map(|r| (r.range.start.time(), r.range.end.time()))
            .collect();
        assert_eq!(ivs, vec![(t(6, 0), t(7, 0)), (t(19, 0), t(20, 0))], "{date}");
    }
    let oh = OpeningHours::parse("sunrise-sunset").unwrap();
    for tz in [chrono_tz::Europe::Paris, chrono_tz::Pacific::Kiritimati] {
        let oh = oh
            .clone()
            .with_context(Context::default().with_locale(TzLocation::new(tz)));
        let date = d(2024, 6, 21);
        assert!(!oh.is_open(tz.from_local_datetime(&date.and_time(t(6, 59))).unwrap()));
        assert!(oh.is_open(tz.from_local_datetime(&date.and_time(t(7, 0))).unwrap()));
        assert!(oh.is_open(tz.from_local_datetime(&date.and_time(t(18, 59))).unwrap()));
        assert!(!oh.is_open(tz.from_local_datetime(&date.and_time(t(19, 0))).unwrap()));
    }
}

// ---------------------------------------------------------------------------
// 2. With coordinates, |lat| <= 60, zone inferred: ordering sweep
// ---------------------------------------------------------------------------

fn grid() -> Vec<(f64, f64)> {
    let mut res = Vec::new();
    let mut lat = -60.0;
    while lat <= 60.0 {
        let mut lon = -180.0;
        while lon <= 180.0 {
            res.push((lat, lon));
            lon += 7.5;
        }
        lat += 5.0;
    }
    res
}

#[test]
fn s04_ordering_sweep_grid() {
    let mut failures = Vec::new();
    let mut count = 0;
    for (lat, lon) in grid() {
        let coords = Coordinates::new(lat, lon).unwrap();
        let loc = TzLocation::from_coords(coords);
        let tz = *loc.get_timezone();
        for date in sample_dates() {
            count += 1;
            let [dawn, sunrise, sunset, dusk] = events(&loc, date);
            let noon = solar_noon_utc(lon, date).with_timezone(&tz).time();
            if !(dawn < sunrise && sunrise < noon && noon < sunset && sunset < dusk) {
                failures.push(format!(
                    "({lat},{lon}) {tz} {date}: dawn={dawn} sunrise={sunrise} noon={noon} sunset={sunset} dusk={dusk}"
                ));
            }
        }
    }
    assert!(
        failures.is_empty(),
        "{} / {} ordering failures, e.g.\n{}",
        failures.len(),
        count,
        failures
            .iter()
            .step_by((failures.len() / 40).max(1))
            .cloned()
            .collect::<Vec<_>>()
            .join("\n")
    );
}

#[test]
fn s05_open_at_noon_closed_at_midnight_sweep() {
    let oh = OpeningHours::parse("sunrise-sunset").unwrap();
    let mut failures = Vec::new();
    for (lat, lon) in grid() {
        let coords = Coordinates::new(lat, lon).unwrap();
        let loc = TzLocation::from_coords(coords);
        let tz = *loc.get_timezone();
        let oh = oh
            .clone()
            .with_context(Context::default().with_locale(loc.clone()));
        for date in sample_dates() {
            if date.year() >= 9999 && date.month() == 12 {
                continue;
            }
            let noon = solar_noon_utc(lon, date).with_timezone(&tz);
            let midnight = noon + Duration::hours(12);
            let prev_midnight = noon - Duration::hours(12);
            if !oh.is_open(noon) {
                failures.push(format!("({lat},{lon}) {tz}: closed at solar noon {noon}"));
            }
            if oh.is_open(midnight) {
                failures.push(format!("({lat},{lon}) {tz}: open at solar midnight {midnight}"));
            }
            if oh.is_open(prev_midnight) {
                failures.push(format!(
                    "({lat},{lon}) {tz}: open at solar midnight {prev_midnight}"
                ));
            }
        }
    }
    assert!(
        failures.is_empty(),
        "{} failures, e.g.\n{}",
        failures.len(),
        failures
            .iter()
            .step_by((failures.len() / 40).max(1))
            .cloned()
            .collect::<Vec<_>>()
            .join("\n")
    );
}

fn check_place(name: &str, lat: f64, lon: f64, date: NaiveDate) {
    let coords = Coordinates::new(lat, lon).unwrap();
    let loc = TzLocation::from_coords(coords);
    let tz = *loc.get_timezone();
    let [dawn, sunrise, sunset, dusk] = events(&loc, date);
    let noon = solar_noon_utc(lon, date).with_timezone(&tz).time();
    assert!(
        dawn < sunrise && sunrise < noon && noon < sunset && sunset < dusk,
        "{name} ({lat},{lon}) {tz} {date}: dawn={dawn} sunrise={sunrise} noon={noon} sunset={sunset} dusk={dusk}"
    );
}

#[test]
fn s06_juneau_summer_solstice() {
    check_place("Juneau", 58.3, -134.42, d(2024, 6, 21));
}

#[test]
fn s07_oslo_summer_solstice() {
    check_place("Oslo", 59.91, 10.75, d(2024, 6, 21));
}

#[test]
fn s08_saint_petersburg_summer_solstice() {
    check_place("Saint Petersburg", 59.93, 30.3, d(2024, 6, 21));
}

#[test]
fn s09_anchorage_may() {
    check_place("Anchorage-ish (60N)", 60.0, -150.0, d(2024, 5, 20));
}

#[test]
fn s10_bethel_alaska_sunset_after_midnight() {
    check_place("Bethel-ish", 60.0, -162.0, d(2024, 6, 21));
}

#[test]
fn s11_kashgar_china() {
    check_place("Kashgar", 39.47, 75.99, d(2024, 6, 21));
    check_place("Kashgar", 39.47, 75.99, d(2024, 12, 21));
}

#[test]
fn s12_pacific_dateline_places() {
    for date in [d(2024, 6, 21), d(2024, 12, 21), d(2024, 9, 28), d(2024, 9, 29)] {
        check_place("Kiritimati", 1.87, -157.4, date);
        check_place("Apia", -13.83, -171.76, date);
        check_place("Nuku'alofa", -21.13, -175.2, date);
        check_place("Chatham", -43.95, -176.55, date);
        check_place("Attu", 52.9, 173.1, date);
        check_place("Anadyr", 64.0_f64.min(60.0), 177.5, date);
        check_place("Baker Island", 0.19, -176.48, date);
    }
}

#[test]
fn s13_south_60_ocean() {
    for lon in [-180.0, -127.5, -52.5, 0.0, 7.4, 7.6, 52.5, 127.5, 180.0] {
        for date in [d(2024, 12, 21), d(2024, 6, 21), d(2024, 1, 15)] {
            check_place("ocean", -60.0, lon, date);
        }
    }
}

#[test]
fn s14_ushuaia_and_punta_arenas() {
    for date in [d(2024, 12, 21), d(2024, 6, 21)] {
        check_place("Ushuaia", -54.8, -68.3, date);
        check_place("Punta Arenas", -53.16, -70.9, date);
    }
}

#[test]
fn s15_dst_transition_days() {
    // Europe/Paris transitions 2024-03-31 and 2024-10-27; US 2024-03-10 / 2024-11-03;
    // Chatham 2024-09-29 / 2024-04-07; Lord Howe (30 min) 2024-10-06 / 2024-04-07.
    for date in [d(2024, 3, 30), d(2024, 3, 31), d(2024, 10, 26), d(2024, 10, 27)] {
        check_place("Paris", 48.85, 2.35, date);
        check_place("Vigo", 42.24, -8.72, date);
    }
    for date in [d(2024, 3, 9), d(2024, 3, 10), d(2024, 11, 2), d(2024, 11, 3)] {
        check_place("Seattle", 47.6, -122.33, date);
        check_place("Adak", 51.88, -176.65, date);
    }
    for date in [d(2024, 9, 28), d(2024, 9, 29), d(2024, 4, 6), d(2024, 4, 7)] {
        check_place("Chatham", -43.95, -176.55, date);
    }
    for date in [d(2024, 10, 5), d(2024, 10, 6), d(2024, 4, 6), d(2024, 4, 7)] {
        check_place("Lord Howe", -31.55, 159.08, date);
    }
}

#[test]
fn s16_samoa_skipped_day_and_around() {
    for date in [d(2011, 12, 29), d(2011, 12, 30), d(2011, 12, 31)] {
        check_place("Apia", -13.83, -171.76, date);
    }
}

#[test]
fn s17_range_ends_with_coords() {
    for date in [d(1900, 1, 1), d(1900, 1, 2), d(9999, 12, 30), d(9999, 12, 31)] {
        check_place("Paris", 48.85, 2.35, date);
        check_place("Sydney", -33.87, 151.2, date);
        check_place("Honolulu", 21.3, -157.85, date);
    }
}

#[test]
fn s18_dense_lat_60_band() {
    // all longitudes at lat 60 / 59 / 58 around the June solstice
    let mut failures = Vec::new();
    for lat in [56.0, 57.0, 58.0, 59.0, 60.0] {
        let mut lon = -180.0;
        while lon <= 180.0 {
            let loc = TzLocation::from_coords(Coordinates::new(lat, lon).unwrap());
            let tz = *loc.get_timezone();
            for date in [d(2024, 5, 15), d(2024, 6, 21), d(2024, 7, 20)] {
                let [dawn, sunrise, sunset, dusk] = events(&loc, date);
                if !(dawn < sunrise && sunrise < sunset && sunset < dusk) {
                    failures.push(format!(
                        "({lat},{lon}) {tz} {date}: dawn={dawn} sunrise={sunrise} sunset={sunset} dusk={dusk}"
                    ));
                }
            }
            lon += 2.5;
        }
    }
    assert!(
        failures.is_empty(),
        "{} failures, e.g.\n{}",
        failures.len(),
        failures
            .iter()
            .step_by((failures.len() / 30).max(1))
            .cloned()
            .collect::<Vec<_>>()
            .join("\n")
    );
}

#[test]
fn s19_every_day_of_year_selected_places() {
    let places = [
        ("Quito", -0.18, -78.47),
        ("Singapore", 1.35, 103.82),
        ("Reykjavik-60", 60.0, -21.9),
        ("Lerwick-60", 60.0, -1.2),
        ("Helsinki-60", 60.0, 24.9),
        ("Magadan", 59.56, 150.8),
        ("Urumqi", 43.8, 87.6),
        ("Madrid", 40.4, -3.7),
        ("Dakar", 14.7, -17.4),
        ("Kathmandu", 27.7, 85.3),
        ("Eucla", -31.68, 128.88),
    ];
    let mut failures = Vec::new();
    for (name, lat, lon) in places {
        let loc = TzLocation::from_coords(Coordinates::new(lat, lon).unwrap());
        let tz = *loc.get_timezone();
        let mut date = d(2023, 1, 1);
        while date < d(2025, 1, 1) {
            let [dawn, sunrise, sunset, dusk] = events(&loc, date);
            let noon = solar_noon_utc(lon, date).with_timezone(&tz).time();
            if !(dawn < sunrise && sunrise < noon && noon < sunset && sunset < dusk) {
                failures.push(format!(
                    "{name} ({lat},{lon}) {tz} {date}: dawn={dawn} sunrise={sunrise} noon={noon} sunset={sunset} dusk={dusk}"
                ));
            }
            date += Duration::days(1);
        }
    }
    assert!(
        failures.is_empty(),
        "{} failures, e.g.\n{}",
        failures.len(),
        failures
            .iter()
            .step_by((failures.len() / 30).max(1))
            .cloned()
            .collect::<Vec<_>>()
            .join("\n")
    );
}

// ---------------------------------------------------------------------------
// 3. Expression-level consequences
// ---------------------------------------------------------------------------

#[test]
fn s20_dawn_dusk_and_twilight_expressions() {
    // With ordered events, "sunset-dusk" is a short evening interval: closed at solar noon,
    // and "dawn-dusk" is closed at solar midnight and open at solar noon.
    let mut failures = Vec::new();
    for (name, lat, lon) in [
        ("Juneau", 58.3, -134.42),
        ("Oslo", 59.91, 10.75),
        ("Saint Petersburg", 59.93, 30.3),
        ("Paris", 48.85, 2.35),
    ] {
        let loc = TzLocation::from_coords(Coordinates::new(lat, lon).unwrap());
        let tz = *loc.get_timezone();
        let ctx = Context::default().with_locale(loc);
        let twilight = OpeningHours::parse("sunset-dusk")
            .unwrap()
            .with_context(ctx.clone());
        let day = OpeningHours::parse("dawn-dusk").unwrap().with_context(ctx);
        for date in [d(2024, 6, 1), d(2024, 6, 21), d(2024, 7, 10)] {
            let noon = solar_noon_utc(lon, date).with_timezone(&tz);
            let midnight = noon + Duration::hours(12);
            if twilight.is_open(noon) {
                failures.push(format!("{name}: sunset-dusk open at solar noon {noon}"));
            }
            if twilight.is_open(midnight) {
                failures.push(format!("{name}: sunset-dusk open at solar midnight {midnight}"));
            }
            if !day.is_open(noon) {
                failures.push(format!("{name}: dawn-dusk closed at solar noon {noon}"));
            }
            if day.is_open(midnight) {
                failures.push(format!("{name}: dawn-dusk open at solar midnight {midnight}"));
            }
        }
    }
    assert!(failures.is_empty(), "{}", failures.join("\n"));
}

#[test]
fn s21_sunrise_sunset_boundaries_match_event_times() {
    // the interval of "sunrise-sunset" starts/ends exactly at the (minute-truncated) events
    let oh = OpeningHours::parse("sunrise-sunset").unwrap();
    for (lat, lon) in [(48.85, 2.35), (-33.87, 151.2), (60.0, -150.0), (0.0, 0.0)] {
        let loc = TzLocation::from_coords(Coordinates::new(lat, lon).unwrap());
        let tz = *loc.get_timezone();
        let oh = oh
            .clone()
            .with_context(Context::default().with_locale(loc.clone()));
        for date in [d(2024, 1, 10), d(2024, 6, 21), d(2024, 10, 27)] {
            let [_, sunrise, sunset, _] = events(&loc, date);
            if sunset < sunrise {
                continue;
            }
            let sr = tz.from_local_datetime(&date.and_time(sunrise)).earliest().unwrap();
            let ss = tz.from_local_datetime(&date.and_time(sunset)).earliest().unwrap();
            assert!(oh.is_open(sr + Duration::minutes(1)), "({lat},{lon}) {date} {sr}");
            assert!(!oh.is_open(sr - Duration::minutes(1)), "({lat},{lon}) {date} {sr}");
            assert!(oh.is_open(ss - Duration::minutes(2)), "({lat},{lon}) {date} {ss}");
            assert!(!oh.is_open(ss + Duration::minutes(1)), "({lat},{lon}) {date} {ss}");
        }
    }
}

// ---------------------------------------------------------------------------
// 4. Coordinate acceptance
// ---------------------------------------------------------------------------

#[test]
fn s22_acceptance_iff_in_range() {
    let vals = [
        f64::NAN,
        f64::NEG_INFINITY,
        f64::INFINITY,
        f64::MIN,
        f64::MAX,
        -180.0000001,
        -180.0,
        -179.9999999,
        -90.0000001,
        -90.0,
        -89.9999999,
        -0.0,
        0.0,
        f64::MIN_POSITIVE,
        5e-324,
        -5e-324,
        89.9999999,
        90.0,
        90.00000000000001,
        90.0000001,
        179.9999999,
        180.0,
        180.00000000000003,
        180.0000001,
        360.0,
    ];
    for lat in vals {
        for lon in vals {
            let expected = !lat.is_nan()
                && !lon.is_nan()
                && (-90.0..=90.0).contains(&lat)
                && (-180.0..=180.0).contains(&lon);
            assert_eq!(
                Coordinates::new(lat, lon).is_some(),
                expected,
                "lat={lat:?} lon={lon:?}"
            );
            if let Some(c) = Coordinates::new(lat, lon) {
                assert_eq!(c.lat().to_bits(), lat.to_bits());
                assert_eq!(c.lon().to_bits(), lon.to_bits());
            }
        }
    }
}

#[test]
fn s23_every_accepted_pair_yields_zone_and_evaluates() {
    let lats = [
        -90.0, -89.9999999, -85.0, -75.0, -66.6, -60.0, -45.0, -23.44, -0.0, 0.0, 5e-324, 23.44,
        45.0, 60.0, 66.6, 70.0, 80.0, 89.9999999, 90.0,
    ];
    let lons = [
        -180.0, -179.9999999, -172.5, -135.0, -90.0, -45.0, -0.0, 0.0, 5e-324, 45.0, 90.0, 135.0,
        172.5, 179.9999999, 180.0,
    ];
    let mut failures = Vec::new();
    for lat in lats {
        for lon in lons {
            let res = catch_unwind(AssertUnwindSafe(|| {
                let coords = Coordinates::new(lat, lon).expect("accepted");
                let loc = TzLocation::from_coords(coords);
                let tz = *loc.get_timezone();
                let ctx = Context::from_coords(coords);
                let oh = OpeningHours::parse("sunrise-sunset; (dawn-00:30)-(dusk+00:30) unknown; PH off")
                    .unwrap()
                    .with_context(ctx);
                for date in [d(1900, 1, 1), d(2024, 6, 21), d(2024, 12, 21), d(9999, 12, 30)] {
                    for ev in [
                        TimeEvent::Dawn,
                        TimeEvent::Sunrise,
                        TimeEvent::Sunset,
                        TimeEvent::Dusk,
                    ] {
                        let _ = loc.event_time(date, ev);
                    }
                    let dt = tz.from_utc_datetime(&date.and_time(t(12, 0)));
                    let _ = oh.state(dt);
                    let _ = oh.next_change(dt);
                    let _ = oh.iter_from(dt).take(5).count();
                }
                tz.name().to_string()
            }));
            match res {
                Ok(name) if name.is_empty() => failures.push(format!("({lat},{lon}): empty zone")),
                Ok(_) => {}
                Err(_) => failures.push(format!("({lat},{lon}): panicked")),
            }
        }
    }
    assert!(failures.is_empty(), "{}", failures.join("\n"));
}

#[test]
fn s24_zone_lookup_never_falls_back_silently_within_60() {
    // "every accepted pair yields a zone": the inferred zone's standard offset must be
    // reasonably consistent with the longitude (within 4 hours) — guards against a UTC fallback
    // in the middle of the Pacific.
    let mut failures = Vec::new();
    for (lat, lon) in grid() {
        let loc = TzLocation::from_coords(Coordinates::new(lat, lon).unwrap());
        let tz = *loc.get_timezone();
        let dt = tz.from_utc_datetime(&d(2024, 1, 15).and_time(t(12, 0)));
        use chrono::Offset;
        let off_h = dt.offset().fix().local_minus_utc() as f64 / 3600.0;
        let mut diff = (off_h - lon / 15.0).abs();
        if diff > 12.0 {
            diff = 24.0 - diff;
        }
        if diff > 4.0 {
            failures.push(format!("({lat},{lon}) -> {tz} offset {off_h}"));
        }
    }
    assert!(failures.is_empty(), "{}", failures.join("\n"));
}

#[test]
fn s25_lon_plus_minus_180_same_events() {
    // lon=180 and lon=-180 are the same meridian: the local times of the events must agree
    // up to the day-to-day drift (a few minutes), whatever zone is chosen for each.
    for lat in [-60.0, -30.0, 0.0, 30.0, 60.0] {
        let a = TzLocation::from_coords(Coordinates::new(lat, 180.0).unwrap());
        let b = TzLocation::from_coords(Coordinates::new(lat, -180.0).unwrap());
        for date in [d(2024, 3, 20), d(2024, 6, 21), d(2024, 12, 21)] {
            let ea = events(&a, date);
            let eb = events(&b, date);
            for (x, y) in ea.iter().zip(eb.iter()) {
                let diff = (*x - *y).num_minutes().abs();
                let diff = diff.min(1440 - diff);
                assert!(diff <= 6, "lat={lat} {date}: {ea:?} vs {eb:?}");
            }
        }
    }
}

#[test]
fn s26_subminute_instants_around_noon() {
    let lon = 2.35;
    let loc = TzLocation::from_coords(Coordinates::new(48.85, lon).unwrap());
    let tz = *loc.get_timezone();
    let oh = OpeningHours::parse("sunrise-sunset")
        .unwrap()
        .with_context(Context::default().with_locale(loc));
    for date in sample_dates().into_iter().take(90) {
        let noon = solar_noon_utc(lon, date).with_timezone(&tz);
        for ns in [0, 1, 999_999_999] {
            let dt = noon + Duration::nanoseconds(ns);
            assert!(oh.is_open(dt));
            assert!(!oh.is_open(dt + Duration::hours(12)));
        }
    }
}

#[test]
fn s27_explicit_coords_with_inferred_zone_equals_from_coords() {
    let coords = Coordinates::new(58.3, -134.42).unwrap();
    let a = TzLocation::from_coords(coords);
    let b = TzLocation::new(chrono_tz::America::Juneau).with_coords(coords);
    assert_eq!(a, b);
}

#[test]
fn s28_attu_island_summer() {
    // lat 52.9: far from the 60 degrees limit
    check_place("Attu", 52.9, 173.1, d(2024, 6, 21));
}

#[test]
fn s29_zone_without_offset_in_1900() {
    // America/Iqaluit and America/Rankin_Inlet are "-00" (= UTC) in tzdata before 1942 / 1957
    check_place("Ungava bay", 60.0, -67.5, d(1900, 6, 21));
}

#[test]
fn s29b_zone_without_offset_in_1900_equinox() {
    check_place("Hudson bay west coast", 60.0, -94.5, d(1900, 3, 20));
    check_place("Ungava bay", 59.0, -67.5, d(1900, 3, 20));
}

#[test]
fn s30_open_noon_closed_midnight_every_day_dateline_and_dst_places() {
    let places = [
        ("Kiritimati", 1.87, -157.4),
        ("Apia", -13.83, -171.76),
        ("Nuku'alofa", -21.13, -175.2),
        ("Chatham", -43.95, -176.55),
        ("Attu", 52.9, 173.1),
        ("Adak", 51.88, -176.65),
        ("Lord Howe", -31.55, 159.08),
        ("Paris", 48.85, 2.35),
        ("Bethel", 60.0, -162.0),
        ("Nome zone", 60.0, -165.0),
        ("Santiago", -33.45, -70.66),
        ("Havana", 23.13, -82.38),
        ("Kashgar", 39.47, 75.99),
    ];
    let mut failures = Vec::new();
    for (name, lat, lon) in places {
        let loc = TzLocation::from_coords(Coordinates::new(lat, lon).unwrap());
        let tz = *loc.get_timezone();
        let oh = OpeningHours::parse("sunrise-sunset")
            .unwrap()
            .with_context(Context::default().with_locale(loc));
        for year in [1900, 2011, 2024] {
            let mut date = d(year, 1, 1);
            while date <= d(year, 12, 31) {
                let noon = solar_noon_utc(lon, date).with_timezone(&tz);
                let midnight = noon + Duration::hours(12);
                if noon.year() < 1900 {
                    date += Duration::days(1);
                    continue; // before the supported range
                }
                if !oh.is_open(noon) {
                    failures.push(format!("{name} {tz}: closed at solar noon {noon}"));
                }
                if oh.is_open(midnight) {
                    failures.push(format!("{name} {tz}: open at solar midnight {midnight}"));
                }
                date += Duration::days(1);
            }
        }
    }
    assert!(
        failures.is_empty(),
        "{} failures, e.g.\n{}",
        failures.len(),
        failures
            .iter()
            .step_by((failures.len() / 30).max(1))
            .cloned()
            .collect::<Vec<_>>()
            .join("\n")
    );
}

#[test]
fn s31_lowest_latitude_with_unordered_events() {
    // Informative: find the lowest |lat| on a 1-degree grid where the order is broken in 2024.
    let mut worst: Option<(f64, String)> = None;
    let mut lat = -60.0;
    while lat <= 60.0 {
        let mut lon = -180.0;
        while lon <= 180.0 {
            let loc = TzLocation::from_coords(Coordinates::new(lat, lon).unwrap());
            for date in [d(2024, 6, 21), d(2024, 12, 21)] {
                let [dawn, sunrise, sunset, dusk] = events(&loc, date);
                if !(dawn < sunrise && sunrise < sunset && sunset < dusk) {
                    let abs: f64 = lat;
                    let abs = abs.abs();
                    if worst.as_ref().map(|w| abs < w.0).unwrap_or(true) {
                        worst = Some((
                            abs,
                            format!(
                                "({lat},{lon}) {} {date}: dawn={dawn} sunrise={sunrise} sunset={sunset} dusk={dusk}",
                                loc.get_timezone()
                            ),
                        ));
                    }
                }
            }
            lon += 1.0;
        }
        lat += 1.0;
    }
    assert!(worst.is_none(), "lowest latitude with unordered events: {worst:?}");
}

#[test]
fn s32_southern_hemisphere_summer_dense() {
    let mut failures = Vec::new();
    for lat in [-60.0, -58.0, -56.0, -54.0, -50.0, -46.0] {
        let mut lon = -180.0;
        while lon <= 180.0 {
            let loc = TzLocation::from_coords(Coordinates::new(lat, lon).unwrap());
            for date in [d(2024, 11, 20), d(2024, 12, 21), d(2024, 1, 20)] {
                let [dawn, sunrise, sunset, dusk] = events(&loc, date);
                if !(dawn < sunrise && sunrise < sunset && sunset < dusk) {
                    failures.push(format!(
                        "({lat},{lon}) {} {date}: dawn={dawn} sunrise={sunrise} sunset={sunset} dusk={dusk}",
                        loc.get_timezone()
                    ));
                }
            }
            lon += 1.5;
        }
    }
    assert!(failures.is_empty(), "{} failures:\n{}", failures.len(), failures.join("\n"));
}
