//! Defect hunt for the property "CompactCalendar is a faithful set of dates, also across
//! serialization". One test per idea; a failing test is a confirmed defect.

use std::collections::hash_map::DefaultHasher;
use std::collections::BTreeSet;
use std::hash::{Hash, Hasher};
use std::io::{self, Cursor, Read, Write};
use std::ops::Bound;

use chrono::{Datelike, NaiveDate};
use compact_calendar::CompactCalendar;

// ---------------------------------------------------------------------------------------------
// helpers
// ---------------------------------------------------------------------------------------------

fn d(y: i32, m: u32, day: u32) -> NaiveDate {
    NaiveDate::from_ymd_opt(y, m, day).unwrap()
}

struct Rng(u64);

impl Rng {
    fn next(&mut self) -> u64 {
        let mut x = self.0;
        x ^= x << 13;
        x ^= x >> 7;
        x ^= x << 17;
        self.0 = x;
        x
    }

    fn below(&mut self, n: u64) -> u64 {
        self.next() % n
    }

    fn date(&mut self, year_lo: i32, year_hi: i32) -> NaiveDate {
        let year = year_lo + self.below((year_hi - year_lo + 1) as u64) as i32;
        let ndays = if NaiveDate::from_ymd_opt(year, 2, 29).is_some() { 366 } else { 365 };

        // bias towards month / year boundaries
        let ord = match self.below(8) {
            0 => 1,
            1 => ndays,
            2 => 31,
            3 => 32,
            4 => 59 + self.below(3) as u32,
            _ => 1 + self.below(ndays as u64) as u32,
        };

        NaiveDate::from_yo_opt(year, ord).unwrap()
    }
}

fn model_first_after(model: &BTreeSet<NaiveDate>, q: NaiveDate) -> Option<NaiveDate> {
    model
        .range((Bound::Excluded(q), Bound::Unbounded))
        .next()
        .copied()
}

fn roundtrip(cal: &CompactCalendar) -> CompactCalendar {
    let mut buf = Vec::new();
    cal.serialize(&mut buf).unwrap();
    let mut cur = Cursor::new(buf.as_slice());
    let res = CompactCalendar::deserialize(&mut cur).unwrap();
    assert_eq!(cur.position() as usize, buf.len(), "did not consume exactly the bytes written");
    res
}

fn hash_of<T: Hash>(x: &T) -> u64 {
    let mut h = DefaultHasher::new();
    x.hash(&mut h);
    h.finish()
}

/// Check every clause of the statement on `cal` against `model` for the given query dates.
fn check_against(cal: &CompactCalendar, model: &BTreeSet<NaiveDate>, queries: &[NaiveDate]) {
    assert_eq!(cal.count() as usize, model.len(), "count");
    let listed: Vec<_> = cal.iter().collect();
    let expect: Vec<_> = model.iter().copied().collect();
    assert_eq!(listed, expect, "ordered iteration");

    for &q in queries.iter().chain(model.iter()) {
        assert_eq!(cal.contains(q), model.contains(&q), "contains({q})");
        assert_eq!(cal.first_after(q), model_first_after(model, q), "first_after({q})");

        for n in [q.pred_opt(), q.succ_opt()].into_iter().flatten() {
            assert_eq!(cal.contains(n), model.contains(&n), "contains({n})");
            assert_eq!(cal.first_after(n), model_first_after(model, n), "first_after({n})");
        }
    }

    // equality is set equality: rebuilding the same set in sorted and reverse order is equal
    let fwd: CompactCalendar = model.iter().copied().collect();
    let mut bwd = CompactCalendar::default();
    for &x in model.iter().rev() {
        assert!(bwd.insert(x));
    }
    assert_eq!(cal, &fwd, "equality vs sorted rebuild");
    assert_eq!(cal, &bwd, "equality vs reverse rebuild");
    assert_eq!(hash_of(cal), hash_of(&bwd));
    assert_eq!(cal.cmp(&bwd), std::cmp::Ordering::Equal);

    // serialization
    let back = roundtrip(cal);
    assert_eq!(&back, cal, "roundtrip equality");
    assert_eq!(back.iter().collect::<Vec<_>>(), expect);
}

fn differential(seed: u64, year_lo: i32, year_hi: i32, n_ops: usize, check_every: usize) {
    let mut rng = Rng(seed);
    let mut cal = CompactCalendar::default();
    let mut model = BTreeSet::new();
    let mut history = Vec::new();

    for i in 0..n_ops {
        // sometimes re-insert an old date
        let date = if !history.is_empty() && rng.below(5) == 0 {
            history[rng.below(history.len() as u64) as usize]
        } else {
            rng.date(year_lo, year_hi)
        };

        history.push(date);
        assert_eq!(cal.insert(date), model.insert(date), "insert({date}) at step {i}");
        assert!(cal.contains(date));

        if i % check_every == 0 || i + 1 == n_ops {
            let queries: Vec<_> = (0..20)
                .map(|_| rng.date(year_lo - 3, year_hi + 3))
                .collect();
            check_against(&cal, &model, &queries);
        }
    }
}

// ---------------------------------------------------------------------------------------------
// 1-4: randomised differentials against BTreeSet
// ---------------------------------------------------------------------------------------------

#[test]
fn idea01_differential_small_span() {
    for seed in 1..=40 {
        differential(seed * 7919, 2018, 2024, 120, 7);
    }
}

#[test]
fn idea02_differential_negative_years_across_zero() {
    for seed in 1..=40 {
        differential(seed * 104729, -6, 5, 120, 7);
    }
}

#[test]
fn idea03_differential_single_year_dense() {
    for seed in 1..=20 {
        differential(seed * 31337, 2024, 2024, 500, 50);
    }
}

#[test]
fn idea04_differential_sparse_wide_span() {
    for seed in 1..=10 {
        differential(seed * 99991, -400, 400, 60, 10);
    }
}

// ---------------------------------------------------------------------------------------------
// 5-8: extreme years
// ---------------------------------------------------------------------------------------------

#[test]
fn idea05_min_and_max_dates_max_first() {
    let (lo, hi) = (NaiveDate::MIN, NaiveDate::MAX);
    let mut cal = CompactCalendar::default();
    assert!(cal.insert(hi));
    assert!(cal.insert(lo));
    assert!(!cal.insert(hi));
    assert!(!cal.insert(lo));
    let model: BTreeSet<_> = [lo, hi].into_iter().collect();
    assert_eq!(cal.count(), 2);
    assert_eq!(cal.iter().collect::<Vec<_>>(), vec![lo, hi]);
    assert_eq!(cal.first_after(lo), Some(hi));
    assert_eq!(cal.first_after(hi), None);
    assert_eq!(cal.first_after(hi.pred_opt().unwrap()), Some(hi));
    assert_eq!(cal.first_after(d(0, 6, 15)), Some(hi));
    assert!(!cal.contains(d(0, 1, 1)));
    assert!(!cal.contains(lo.succ_opt().unwrap()));
    assert!(!cal.contains(hi.pred_opt().unwrap()));
    let back = roundtrip(&cal);
    assert_eq!(back, cal);
    assert_eq!(back.iter().collect::<BTreeSet<_>>(), model);
}

#[test]
fn idea06_min_and_max_dates_min_first() {
    let (lo, hi) = (NaiveDate::MIN, NaiveDate::MAX);
    let mut a = CompactCalendar::default();
    assert!(a.insert(lo));
    assert!(a.insert(hi));
    let mut b = CompactCalendar::default();
    assert!(b.insert(hi));
    assert!(b.insert(lo));
    assert_eq!(a, b);
    assert_eq!(a.first_after(lo), Some(hi));
    // query dates outside the stored span while the calendar holds a single extreme year
    let mut only_hi = CompactCalendar::default();
    only_hi.insert(hi);
    assert_eq!(only_hi.first_after(lo), Some(hi));
    assert!(!only_hi.contains(lo));
    let mut only_lo = CompactCalendar::default();
    only_lo.insert(lo);
    assert_eq!(only_lo.first_after(hi), None);
    assert_eq!(only_lo.first_after(lo), None);
    assert!(!only_lo.contains(hi));
    assert!(only_lo.contains(lo));
}

#[test]
fn idea07_years_far_apart_middle_insert() {
    let dates = [d(-200_000, 3, 1), d(200_000, 12, 31), d(0, 2, 29), d(-1, 12, 31), d(1, 1, 1)];
    let mut cal = CompactCalendar::default();
    let mut model = BTreeSet::new();
    for &x in &dates {
        assert_eq!(cal.insert(x), model.insert(x));
    }
    let queries = [
        d(-200_001, 12, 31),
        d(-200_000, 2, 28),
        d(-100_000, 7, 7),
        d(-1, 12, 30),
        d(0, 1, 1),
        d(0, 12, 31),
        d(150_000, 1, 1),
        d(200_001, 1, 1),
        NaiveDate::MIN,
        NaiveDate::MAX,
    ];
    check_against(&cal, &model, &queries);
}

#[test]
fn idea08_year_zero_and_negative_only() {
    let dates = [d(-3, 12, 31), d(-3, 1, 1), d(-1, 6, 6), d(0, 1, 1), d(-2, 2, 28)];
    let mut cal = CompactCalendar::default();
    let mut model = BTreeSet::new();
    for &x in &dates {
        assert_eq!(cal.insert(x), model.insert(x));
    }
    let queries = [d(-4, 12, 31), d(-4, 1, 1), d(1, 1, 1), d(0, 1, 2), d(-10, 5, 5), d(10, 5, 5)];
    check_against(&cal, &model, &queries);
}

// ---------------------------------------------------------------------------------------------
// 9-12: growth paths of insert (front / back, off-by-one on gaps)
// ---------------------------------------------------------------------------------------------

#[test]
fn idea09_front_growth_by_exactly_one_and_many() {
    for gap in [1, 2, 3, 10, 100] {
        let mut cal = CompactCalendar::default();
        let a = d(2020, 5, 5);
        let b = d(2020 - gap, 5, 5);
        assert!(cal.insert(a));
        assert!(cal.insert(b));
        assert!(!cal.insert(a));
        assert!(!cal.insert(b));
        assert_eq!(cal.iter().collect::<Vec<_>>(), vec![b, a], "gap {gap}");
        assert_eq!(cal.count(), 2);
        assert_eq!(cal.first_after(b), Some(a));
        assert_eq!(cal.first_after(d(2020 - gap - 1, 12, 31)), Some(b));
        for y in (2020 - gap + 1)..2020 {
            assert!(!cal.contains(d(y, 5, 5)));
            assert_eq!(cal.first_after(d(y, 5, 5)), Some(a));
        }
    }
}

#[test]
fn idea10_back_growth_by_exactly_one_and_many() {
    for gap in [1, 2, 3, 10, 100] {
        let mut cal = CompactCalendar::default();
        let a = d(2020, 5, 5);
        let b = d(2020 + gap, 5, 5);
        assert!(cal.insert(a));
        assert!(cal.insert(b));
        assert!(!cal.insert(a));
        assert!(!cal.insert(b));
        assert_eq!(cal.iter().collect::<Vec<_>>(), vec![a, b], "gap {gap}");
        assert_eq!(cal.first_after(a), Some(b));
        assert_eq!(cal.first_after(b), None);
        assert_eq!(cal.first_after(d(2020 + gap + 1, 1, 1)), None);
        for y in 2021..(2020 + gap) {
            assert!(!cal.contains(d(y, 5, 5)));
            assert_eq!(cal.first_after(d(y, 5, 5)), Some(b));
        }
    }
}

#[test]
fn idea11_alternating_front_back_growth_wraps_ring_buffer() {
    // alternate push_front / push_back so that the VecDeque is wrapped in memory
    let mut cal = CompactCalendar::default();
    let mut model = BTreeSet::new();
    for i in 0..40 {
        let year = if i % 2 == 0 { 2000 + i } else { 2000 - i };
        let date = d(year, 1 + (i as u32 % 12), 1 + (i as u32 % 28));
        assert_eq!(cal.insert(date), model.insert(date));
    }
    let queries: Vec<_> = (1955..2045).map(|y| d(y, 6, 30)).collect();
    check_against(&cal, &model, &queries);
}

#[test]
fn idea12_insert_into_gap_year_after_growth() {
    let mut cal = CompactCalendar::default();
    let mut model = BTreeSet::new();
    for x in [d(2030, 1, 1), d(2010, 12, 31), d(2020, 2, 29), d(2020, 2, 29), d(2011, 1, 1), d(2029, 12, 31)] {
        assert_eq!(cal.insert(x), model.insert(x), "{x}");
    }
    let queries = [d(2010, 12, 30), d(2015, 1, 1), d(2020, 2, 28), d(2020, 3, 1), d(2029, 12, 30)];
    check_against(&cal, &model, &queries);
}

// ---------------------------------------------------------------------------------------------
// 13-19: first_after boundaries
// ---------------------------------------------------------------------------------------------

#[test]
fn idea13_first_after_is_strict() {
    let mut cal = CompactCalendar::default();
    let a = d(2022, 3, 5);
    cal.insert(a);
    assert_eq!(cal.first_after(a), None);
    assert_eq!(cal.first_after(a.pred_opt().unwrap()), Some(a));
    cal.insert(a.succ_opt().unwrap());
    assert_eq!(cal.first_after(a), a.succ_opt());
}

#[test]
fn idea14_first_after_day31_and_day30_bits() {
    let mut cal = CompactCalendar::default();
    cal.insert(d(2022, 1, 31));
    assert_eq!(cal.first_after(d(2022, 1, 30)), Some(d(2022, 1, 31)));
    assert_eq!(cal.first_after(d(2022, 1, 31)), None);
    cal.insert(d(2022, 2, 1));
    assert_eq!(cal.first_after(d(2022, 1, 31)), Some(d(2022, 2, 1)));
    cal.insert(d(2022, 1, 1));
    assert_eq!(cal.first_after(d(2021, 12, 31)), Some(d(2022, 1, 1)));
    assert_eq!(cal.first_after(d(2022, 1, 1)), Some(d(2022, 1, 31)));
}

#[test]
fn idea15_first_after_every_day_of_full_leap_year() {
    let mut cal = CompactCalendar::default();
    let mut model = BTreeSet::new();
    let mut day = d(2024, 1, 1);
    while day.year() == 2024 {
        assert!(cal.insert(day));
        model.insert(day);
        day = day.succ_opt().unwrap();
    }
    assert_eq!(cal.count(), 366);
    check_against(&cal, &model, &[d(2023, 12, 31), d(2025, 1, 1), d(2023, 1, 1)]);
}

#[test]
fn idea16_first_after_dec31_skips_empty_years() {
    let mut cal = CompactCalendar::default();
    cal.insert(d(2000, 12, 31));
    cal.insert(d(2007, 1, 1));
    assert_eq!(cal.first_after(d(2000, 12, 31)), Some(d(2007, 1, 1)));
    assert_eq!(cal.first_after(d(2000, 12, 30)), Some(d(2000, 12, 31)));
    assert_eq!(cal.first_after(d(2003, 12, 31)), Some(d(2007, 1, 1)));
    assert_eq!(cal.first_after(d(2006, 12, 31)), Some(d(2007, 1, 1)));
    assert_eq!(cal.first_after(d(2007, 1, 1)), None);
}

#[test]
fn idea17_first_after_leap_day() {
    let mut cal = CompactCalendar::default();
    cal.insert(d(2024, 2, 29));
    cal.insert(d(2024, 3, 1));
    cal.insert(d(2023, 2, 28));
    assert_eq!(cal.first_after(d(2023, 2, 28)), Some(d(2024, 2, 29)));
    assert_eq!(cal.first_after(d(2024, 2, 28)), Some(d(2024, 2, 29)));
    assert_eq!(cal.first_after(d(2024, 2, 29)), Some(d(2024, 3, 1)));
    assert_eq!(cal.first_after(d(2023, 3, 1)), Some(d(2024, 2, 29)));
}

#[test]
fn idea18_first_after_on_empty_calendar_any_year() {
    let cal = CompactCalendar::default();
    for q in [NaiveDate::MIN, d(-1, 12, 31), d(0, 1, 1), d(0, 12, 31), d(1, 1, 1), d(2024, 1, 1), NaiveDate::MAX] {
        assert_eq!(cal.first_after(q), None);
        assert!(!cal.contains(q));
    }
    assert_eq!(cal.count(), 0);
    assert_eq!(cal.iter().count(), 0);
}

#[test]
fn idea19_first_after_query_outside_span_both_sides() {
    let mut cal = CompactCalendar::default();
    cal.insert(d(-50, 7, 1));
    cal.insert(d(-48, 7, 1));
    assert_eq!(cal.first_after(NaiveDate::MIN), Some(d(-50, 7, 1)));
    assert_eq!(cal.first_after(d(-51, 12, 31)), Some(d(-50, 7, 1)));
    assert_eq!(cal.first_after(d(-47, 1, 1)), None);
    assert_eq!(cal.first_after(d(0, 1, 1)), None);
    assert_eq!(cal.first_after(NaiveDate::MAX), None);
    assert_eq!(cal.first_after(d(-49, 1, 1)), Some(d(-48, 7, 1)));
}

// ---------------------------------------------------------------------------------------------
// 20-25: equality
// ---------------------------------------------------------------------------------------------

#[test]
fn idea20_equality_independent_of_insertion_order_and_duplicates() {
    let dates = [d(2001, 1, 1), d(1990, 6, 6), d(2010, 12, 31), d(1995, 2, 28), d(2001, 1, 2)];
    let mut perms: Vec<Vec<NaiveDate>> = Vec::new();
    // all 120 permutations
    fn rec(cur: &mut Vec<NaiveDate>, rest: &mut Vec<NaiveDate>, out: &mut Vec<Vec<NaiveDate>>) {
        if rest.is_empty() {
            out.push(cur.clone());
            return;
        }
        for i in 0..rest.len() {
            let x = rest.remove(i);
            cur.push(x);
            rec(cur, rest, out);
            cur.pop();
            rest.insert(i, x);
        }
    }
    rec(&mut Vec::new(), &mut dates.to_vec(), &mut perms);
    assert_eq!(perms.len(), 120);
    let reference: CompactCalendar = dates.iter().copied().collect();
    for p in perms {
        let mut cal = CompactCalendar::default();
        for &x in &p {
            assert!(cal.insert(x));
        }
        for &x in p.iter().rev() {
            assert!(!cal.insert(x));
        }
        assert_eq!(cal, reference, "{p:?}");
        assert_eq!(hash_of(&cal), hash_of(&reference));
        let mut b1 = Vec::new();
        let mut b2 = Vec::new();
        cal.serialize(&mut b1).unwrap();
        reference.serialize(&mut b2).unwrap();
        assert_eq!(b1, b2);
    }
}

#[test]
fn idea21_inequality_same_pattern_other_year() {
    let a: CompactCalendar = [d(2020, 5, 5)].into_iter().collect();
    let b: CompactCalendar = [d(2021, 5, 5)].into_iter().collect();
    let c: CompactCalendar = [d(-2020, 5, 5)].into_iter().collect();
    assert_ne!(a, b);
    assert_ne!(a, c);
    assert_ne!(roundtrip(&a), roundtrip(&b));
}

#[test]
fn idea22_inequality_subset_superset_and_empty() {
    let a: CompactCalendar = [d(2020, 5, 5)].into_iter().collect();
    let b: CompactCalendar = [d(2020, 5, 5), d(2022, 5, 5)].into_iter().collect();
    let c: CompactCalendar = [d(2018, 5, 5), d(2020, 5, 5)].into_iter().collect();
    let e = CompactCalendar::default();
    assert_ne!(a, b);
    assert_ne!(a, c);
    assert_ne!(b, c);
    assert_ne!(a, e);
    assert_eq!(e, CompactCalendar::default());
    assert_eq!(e, std::iter::empty().collect::<CompactCalendar>());
    // neighbouring days / months share nothing
    let x: CompactCalendar = [d(2020, 1, 31)].into_iter().collect();
    let y: CompactCalendar = [d(2020, 2, 1)].into_iter().collect();
    assert_ne!(x, y);
}

#[test]
fn idea23_equality_from_iter_vs_insert_vs_clone() {
    let dates = [d(2013, 11, 3), d(2022, 3, 5), d(2055, 7, 5), d(2013, 11, 3), d(1999, 1, 1)];
    let a: CompactCalendar = dates.iter().copied().collect();
    let mut b = CompactCalendar::default();
    for &x in dates.iter().rev() {
        b.insert(x);
    }
    assert_eq!(a, b);
    let mut c = a.clone();
    assert_eq!(a, c);
    assert!(c.insert(d(1999, 1, 2)));
    assert_ne!(a, c);
    assert!(!a.contains(d(1999, 1, 2)));
}

#[test]
fn idea24_equality_of_deserialized_with_fresh_build() {
    let dates = [d(-5, 1, 1), d(3, 3, 3), d(0, 12, 31)];
    let a: CompactCalendar = dates.iter().copied().collect();
    let back = roundtrip(&a);
    let mut fresh = CompactCalendar::default();
    for &x in &dates {
        fresh.insert(x);
    }
    assert_eq!(back, fresh);
    assert_eq!(fresh, back);
}

#[test]
fn idea25_year_for_mut_does_not_grow_or_change_set() {
    let mut cal: CompactCalendar = [d(2020, 5, 5)].into_iter().collect();
    let before = cal.clone();
    assert!(cal.year_for_mut(d(2030, 1, 1)).is_none());
    assert!(cal.year_for_mut(d(2010, 1, 1)).is_none());
    assert!(cal.year_for(d(2030, 1, 1)).is_none());
    assert!(cal.year_for(d(2019, 12, 31)).is_none());
    assert!(cal.year_for_mut(d(2020, 1, 1)).is_some());
    assert_eq!(cal, before);
}

// ---------------------------------------------------------------------------------------------
// 26-34: serialization
// ---------------------------------------------------------------------------------------------

#[test]
fn idea26_roundtrip_empty() {
    let e = CompactCalendar::default();
    let mut buf = Vec::new();
    e.serialize(&mut buf).unwrap();
    assert_eq!(buf.len(), 4 + std::mem::size_of::<usize>());
    let back = roundtrip(&e);
    assert_eq!(back, e);
    assert_eq!(back.count(), 0);
}

#[test]
fn idea27_concatenated_stream_slice_reader() {
    let cals: Vec<CompactCalendar> = vec![
        CompactCalendar::default(),
        [d(2020, 5, 5)].into_iter().collect(),
        CompactCalendar::default(),
        [d(-10, 1, 1), d(10, 12, 31)].into_iter().collect(),
        [d(2024, 2, 29), d(2024, 1, 31), d(2025, 1, 1)].into_iter().collect(),
        CompactCalendar::default(),
    ];
    let mut buf = Vec::new();
    let mut sizes = Vec::new();
    for c in &cals {
        let before = buf.len();
        c.serialize(&mut buf).unwrap();
        sizes.push(buf.len() - before);
    }
    let mut reader: &[u8] = buf.as_slice();
    for (c, size) in cals.iter().zip(sizes) {
        let before = reader.len();
        let back = CompactCalendar::deserialize(&mut reader).unwrap();
        assert_eq!(before - reader.len(), size, "consumed bytes");
        assert_eq!(&back, c);
    }
    assert!(reader.is_empty());
    assert!(CompactCalendar::deserialize(&mut reader).is_err());
}

struct OneByte<R>(R);

impl<R: Read> Read for OneByte<R> {
    fn read(&mut self, buf: &mut [u8]) -> io::Result<usize> {
        if buf.is_empty() {
            return Ok(0);
        }
        self.0.read(&mut buf[..1])
    }
}

struct DribbleWriter(Vec<u8>, usize);

impl Write for DribbleWriter {
    fn write(&mut self, buf: &[u8]) -> io::Result<usize> {
        self.1 += 1;
        if self.1 % 3 == 0 {
            return Err(io::Error::new(io::ErrorKind::Interrupted, "again"));
        }
        if buf.is_empty() {
            return Ok(0);
        }
        self.0.push(buf[0]);
        Ok(1)
    }

    fn flush(&mut self) -> io::Result<()> {
        Ok(())
    }
}

#[test]
fn idea28_roundtrip_with_short_reads_and_short_writes() {
    let cal: CompactCalendar = [d(1999, 12, 31), d(2000, 1, 1), d(2000, 2, 29), d(2003, 7, 14)].into_iter().collect();
    let mut plain = Vec::new();
    cal.serialize(&mut plain).unwrap();
    let mut w = DribbleWriter(Vec::new(), 0);
    cal.serialize(&mut w).unwrap();
    assert_eq!(w.0, plain);
    let mut two = plain.clone();
    two.extend_from_slice(&plain);
    let mut r = OneByte(Cursor::new(two.as_slice()));
    let a = CompactCalendar::deserialize(&mut r).unwrap();
    assert_eq!(r.0.position() as usize, plain.len());
    let b = CompactCalendar::deserialize(&mut r).unwrap();
    assert_eq!(r.0.position() as usize, two.len());
    assert_eq!(a, cal);
    assert_eq!(b, cal);
}

#[test]
fn idea29_roundtrip_wrapped_ring_buffer_preserves_year_order() {
    // back growth then front growth: physical layout of the deque is wrapped
    let mut cal = CompactCalendar::default();
    let mut model = BTreeSet::new();
    for y in [2000, 2001, 2002, 2003, 1999, 1998, 2004, 1997, 1990, 2010] {
        let date = d(y, ((y - 1980) % 12 + 1) as u32, ((y - 1980) % 28 + 1) as u32);
        assert!(cal.insert(date));
        model.insert(date);
    }
    let back = roundtrip(&cal);
    assert_eq!(back, cal);
    assert_eq!(back.iter().collect::<Vec<_>>(), model.iter().copied().collect::<Vec<_>>());
    for &x in &model {
        assert!(back.contains(x));
        assert_eq!(back.first_after(x), model_first_after(&model, x));
    }
}

#[test]
fn idea30_deserialized_calendar_keeps_behaving_as_a_set() {
    let mut model: BTreeSet<NaiveDate> = [d(2020, 5, 5), d(2022, 1, 1)].into_iter().collect();
    let cal: CompactCalendar = model.iter().copied().collect();
    let mut back = roundtrip(&cal);
    for x in [d(2019, 12, 31), d(2025, 6, 6), d(2021, 3, 3), d(2020, 5, 5), d(1900, 1, 1), d(2100, 2, 28)] {
        assert_eq!(back.insert(x), model.insert(x), "{x}");
    }
    check_against(&back, &model, &[d(1899, 1, 1), d(2101, 1, 1), d(2000, 1, 1)]);

    // also for the deserialized empty calendar
    let mut e = roundtrip(&CompactCalendar::default());
    assert!(e.insert(d(-7, 3, 3)));
    assert!(e.insert(d(-9, 3, 3)));
    assert!(!e.insert(d(-7, 3, 3)));
    assert_eq!(e, [d(-9, 3, 3), d(-7, 3, 3)].into_iter().collect::<CompactCalendar>());
}

#[test]
fn idea31_serialized_size_is_header_plus_48_bytes_per_year_of_span() {
    let cal: CompactCalendar = [d(-2, 1, 1), d(3, 1, 1)].into_iter().collect();
    let mut buf = Vec::new();
    cal.serialize(&mut buf).unwrap();
    assert_eq!(buf.len(), 4 + std::mem::size_of::<usize>() + 6 * 48);
    // trailing garbage is left untouched
    buf.extend_from_slice(&[0xAA; 13]);
    let mut reader: &[u8] = buf.as_slice();
    let back = CompactCalendar::deserialize(&mut reader).unwrap();
    assert_eq!(back, cal);
    assert_eq!(reader, &[0xAA; 13]);
}

#[test]
fn idea32_roundtrip_negative_first_year_and_extremes() {
    for dates in [
        vec![NaiveDate::MIN],
        vec![NaiveDate::MAX],
        vec![d(-1, 12, 31)],
        vec![d(-262_000, 1, 1), d(-261_990, 12, 31)],
        vec![d(i32::from(i16::MAX) + 1, 1, 1), d(65_536, 1, 1)],
    ] {
        let cal: CompactCalendar = dates.iter().copied().collect();
        let back = roundtrip(&cal);
        assert_eq!(back, cal);
        assert_eq!(back.iter().collect::<Vec<_>>(), dates);
    }
}

#[test]
fn idea33_double_roundtrip_is_byte_stable() {
    let cal: CompactCalendar = [d(2020, 5, 5), d(2010, 1, 31), d(2030, 12, 1)].into_iter().collect();
    let mut b1 = Vec::new();
    cal.serialize(&mut b1).unwrap();
    let back = CompactCalendar::deserialize(b1.as_slice()).unwrap();
    let mut b2 = Vec::new();
    back.serialize(&mut b2).unwrap();
    assert_eq!(b1, b2);
}

#[test]
fn idea34_truncated_stream_is_an_error_not_a_wrong_calendar() {
    let cal: CompactCalendar = [d(2020, 5, 5), d(2021, 5, 5)].into_iter().collect();
    let mut buf = Vec::new();
    cal.serialize(&mut buf).unwrap();
    for cut in 0..buf.len() {
        assert!(CompactCalendar::deserialize(&buf[..cut]).is_err(), "cut at {cut}");
    }
}

// ---------------------------------------------------------------------------------------------
// 35-40: count / iteration / misc
// ---------------------------------------------------------------------------------------------

#[test]
fn idea35_count_and_iter_many_full_years() {
    let mut cal = CompactCalendar::default();
    let mut n = 0u32;
    let mut day = d(1896, 1, 1);
    let end = d(1905, 1, 1);
    let mut all = Vec::new();
    while day < end {
        assert!(cal.insert(day));
        all.push(day);
        n += 1;
        day = day.succ_opt().unwrap();
    }
    // 1900 is not a leap year, 1896 and 1904 are
    assert_eq!(n, 9 * 365 + 2);
    assert_eq!(cal.count(), n);
    assert_eq!(cal.iter().collect::<Vec<_>>(), all);
    for w in all.windows(2) {
        assert_eq!(cal.first_after(w[0]), Some(w[1]));
    }
    assert_eq!(cal.first_after(*all.last().unwrap()), None);
    let back = roundtrip(&cal);
    assert_eq!(back, cal);
    assert_eq!(back.count(), n);
}

#[test]
fn idea36_insert_return_value_for_same_day_number_in_other_month_or_year() {
    let mut cal = CompactCalendar::default();
    assert!(cal.insert(d(2020, 5, 5)));
    assert!(cal.insert(d(2020, 6, 5)));
    assert!(cal.insert(d(2021, 5, 5)));
    assert!(cal.insert(d(2019, 5, 5)));
    assert!(cal.insert(d(2020, 5, 6)));
    assert!(cal.insert(d(2020, 5, 4)));
    for x in cal.iter().collect::<Vec<_>>() {
        assert!(!cal.insert(x));
    }
    assert_eq!(cal.count(), 6);
}

#[test]
fn idea37_iteration_is_sorted_with_31_day_months_and_feb() {
    let dates = [
        d(2021, 3, 31), d(2021, 3, 1), d(2021, 2, 28), d(2021, 4, 30), d(2021, 1, 31),
        d(2021, 12, 31), d(2021, 12, 1), d(2021, 1, 1), d(2020, 2, 29), d(2020, 12, 31),
    ];
    let cal: CompactCalendar = dates.iter().copied().collect();
    let mut sorted = dates.to_vec();
    sorted.sort();
    assert_eq!(cal.iter().collect::<Vec<_>>(), sorted);
    // iterating twice / partially does not disturb anything
    assert_eq!(cal.iter().nth(3), Some(sorted[3]));
    assert_eq!(cal.iter().collect::<Vec<_>>(), sorted);
}

#[test]
fn idea38_debug_lists_the_members() {
    let cal: CompactCalendar = [d(2022, 8, 12), d(2022, 3, 5), d(-1, 1, 1)].into_iter().collect();
    let s = format!("{cal:?}");
    assert!(s.contains("2022-03-05") && s.contains("2022-08-12"), "{s}");
    assert!(s.find("2022-03-05").unwrap() < s.find("2022-08-12").unwrap());
}

#[test]
fn idea39_contains_far_outside_span_with_extreme_first_year() {
    // date.year() - first_year at its extreme magnitudes
    let mut hi = CompactCalendar::default();
    hi.insert(NaiveDate::MAX);
    assert!(!hi.contains(NaiveDate::MIN));
    assert!(hi.year_for(NaiveDate::MIN).is_none());
    assert_eq!(hi.first_after(NaiveDate::MIN), Some(NaiveDate::MAX));
    let mut lo = CompactCalendar::default();
    lo.insert(NaiveDate::MIN);
    assert!(!lo.contains(NaiveDate::MAX));
    assert!(lo.year_for(NaiveDate::MAX).is_none());
    assert_eq!(lo.first_after(NaiveDate::MAX), None);
    assert_eq!(lo.count(), 1);
    assert_eq!(hi.count(), 1);
}

#[test]
fn idea40_ord_agrees_with_eq_on_random_pairs() {
    let mut rng = Rng(0xDEADBEEF);
    for _ in 0..300 {
        let n1 = rng.below(4) as usize;
        let n2 = rng.below(4) as usize;
        let s1: BTreeSet<_> = (0..n1).map(|_| rng.date(2019, 2021)).collect();
        let s2: BTreeSet<_> = if rng.below(3) == 0 { s1.clone() } else { (0..n2).map(|_| rng.date(2019, 2021)).collect() };
        let c1: CompactCalendar = s1.iter().rev().copied().collect();
        let c2: CompactCalendar = s2.iter().copied().collect();
        assert_eq!(c1 == c2, s1 == s2, "{s1:?} vs {s2:?}");
        assert_eq!(c1.cmp(&c2) == std::cmp::Ordering::Equal, s1 == s2);
        if s1 == s2 {
            assert_eq!(hash_of(&c1), hash_of(&c2));
        }
        assert_eq!(roundtrip(&c1) == roundtrip(&c2), s1 == s2);
    }
}

// ---------------------------------------------------------------------------------------------
// 41-47: bounded-exhaustive checks and stream interleavings
// ---------------------------------------------------------------------------------------------

#[test]
fn idea41_all_subsets_of_a_boundary_universe_all_query_days() {
    let universe = [
        d(-1, 12, 31),
        d(0, 1, 1),
        d(0, 1, 31),
        d(0, 2, 1),
        d(0, 2, 29),
        d(0, 12, 31),
        d(2, 1, 1),
        d(2, 6, 30),
        d(-4, 7, 7),
        d(3, 12, 31),
    ];
    let mut queries = Vec::new();
    let mut q = d(-6, 12, 25);
    while q <= d(5, 1, 5) {
        queries.push(q);
        q = q.succ_opt().unwrap();
    }

    for mask in 0u32..(1 << universe.len()) {
        let model: BTreeSet<NaiveDate> = (0..universe.len())
            .filter(|i| mask & (1 << i) != 0)
            .map(|i| universe[i])
            .collect();
        // insertion in universe order (neither sorted nor reverse sorted)
        let mut cal = CompactCalendar::default();
        for (i, &x) in universe.iter().enumerate() {
            if mask & (1 << i) != 0 {
                assert!(cal.insert(x));
            }
        }
        assert_eq!(cal.count() as usize, model.len());
        assert!(cal.iter().eq(model.iter().copied()), "mask {mask:b}");
        let back = roundtrip(&cal);
        assert_eq!(back, cal);
        let sorted: CompactCalendar = model.iter().copied().collect();
        assert_eq!(sorted, cal, "mask {mask:b}");
        // only a sample of masks gets the full per-day sweep, every mask gets a coarse sweep
        let step = if mask % 16 == 5 { 1 } else { 29 };
        for &q in queries.iter().step_by(step).chain(universe.iter()) {
            assert_eq!(cal.contains(q), model.contains(&q), "mask {mask:b} contains({q})");
            assert_eq!(cal.first_after(q), model_first_after(&model, q), "mask {mask:b} first_after({q})");
            assert_eq!(back.first_after(q), model_first_after(&model, q));
        }
    }
}

#[test]
fn idea42_all_permutations_checked_after_every_step() {
    let dates = [d(2001, 12, 31), d(2002, 1, 1), d(1998, 2, 28), d(2005, 7, 31), d(2001, 1, 1), d(1998, 2, 27)];
    let queries = [d(1997, 12, 31), d(1998, 2, 26), d(1999, 6, 6), d(2001, 6, 6), d(2003, 1, 1), d(2005, 8, 1), d(2006, 1, 1)];
    let mut idx: Vec<usize> = (0..dates.len()).collect();
    let mut count = 0;
    // Heap's algorithm, iterative
    let mut c = vec![0usize; idx.len()];
    let run = |order: &[usize]| {
        let mut cal = CompactCalendar::default();
        let mut model = BTreeSet::new();
        for &i in order {
            assert_eq!(cal.insert(dates[i]), model.insert(dates[i]));
            assert_eq!(cal.count() as usize, model.len());
            assert!(cal.iter().eq(model.iter().copied()));
            for &q in queries.iter().chain(dates.iter()) {
                assert_eq!(cal.contains(q), model.contains(&q));
                assert_eq!(cal.first_after(q), model_first_after(&model, q), "{order:?} first_after({q})");
            }
            assert_eq!(roundtrip(&cal), cal);
        }
    };
    run(&idx);
    count += 1;
    let mut i = 0;
    while i < idx.len() {
        if c[i] < i {
            if i % 2 == 0 {
                idx.swap(0, i);
            } else {
                idx.swap(c[i], i);
            }
            run(&idx);
            count += 1;
            c[i] += 1;
            i = 0;
        } else {
            c[i] = 0;
            i += 1;
        }
    }
    assert_eq!(count, 720);
}

#[test]
fn idea43_snapshots_of_a_growing_calendar_in_one_stream() {
    let mut rng = Rng(42);
    let mut cal = CompactCalendar::default();
    let mut snapshots = vec![cal.clone()];
    let mut stream = Vec::new();
    cal.serialize(&mut stream).unwrap();
    for _ in 0..60 {
        cal.insert(rng.date(-30, 30));
        cal.serialize(&mut stream).unwrap();
        snapshots.push(cal.clone());
    }
    let mut cur = Cursor::new(stream.as_slice());
    for snap in &snapshots {
        let back = CompactCalendar::deserialize(&mut cur).unwrap();
        assert_eq!(&back, snap);
        assert!(back.iter().eq(snap.iter()));
    }
    assert_eq!(cur.position() as usize, stream.len());
}

struct Flaky<R>(R, u32);

impl<R: Read> Read for Flaky<R> {
    fn read(&mut self, buf: &mut [u8]) -> io::Result<usize> {
        self.1 += 1;
        if self.1 % 2 == 0 {
            return Err(io::Error::new(io::ErrorKind::Interrupted, "again"));
        }
        let n = buf.len().min(3);
        self.0.read(&mut buf[..n])
    }
}

#[test]
fn idea44_interrupted_reads_do_not_lose_or_skip_bytes() {
    let a: CompactCalendar = [d(2020, 5, 5), d(2018, 1, 1)].into_iter().collect();
    let b: CompactCalendar = [d(-3, 12, 31)].into_iter().collect();
    let mut stream = Vec::new();
    a.serialize(&mut stream).unwrap();
    let split = stream.len();
    b.serialize(&mut stream).unwrap();
    let mut r = Flaky(Cursor::new(stream.as_slice()), 0);
    assert_eq!(CompactCalendar::deserialize(&mut r).unwrap(), a);
    assert_eq!(r.0.position() as usize, split);
    assert_eq!(CompactCalendar::deserialize(&mut r).unwrap(), b);
    assert_eq!(r.0.position() as usize, stream.len());
}

#[test]
fn idea45_huge_span_then_small_calendar_in_one_stream() {
    let big: CompactCalendar = [NaiveDate::MAX, NaiveDate::MIN, d(0, 2, 29)].into_iter().collect();
    let small: CompactCalendar = [d(1, 1, 1)].into_iter().collect();
    let mut stream = Vec::new();
    big.serialize(&mut stream).unwrap();
    let split = stream.len();
    small.serialize(&mut stream).unwrap();
    let mut reader: &[u8] = &stream;
    let b = CompactCalendar::deserialize(&mut reader).unwrap();
    assert_eq!(stream.len() - reader.len(), split);
    let s = CompactCalendar::deserialize(&mut reader).unwrap();
    assert!(reader.is_empty());
    assert_eq!(b, big);
    assert_eq!(s, small);
    assert_eq!(b.iter().collect::<Vec<_>>(), vec![NaiveDate::MIN, d(0, 2, 29), NaiveDate::MAX]);
    assert_eq!(b.count(), 3);
    assert_eq!(b.first_after(d(0, 2, 29)), Some(NaiveDate::MAX));
    assert_eq!(b.first_after(NaiveDate::MIN), Some(d(0, 2, 29)));
}

#[test]
fn idea46_serialize_is_a_pure_observer() {
    let mut cal: CompactCalendar = [d(2020, 5, 5), d(2010, 5, 5)].into_iter().collect();
    let before = cal.clone();
    let mut sink = Vec::new();
    cal.serialize(&mut sink).unwrap();
    cal.serialize(&mut sink).unwrap();
    assert_eq!(cal, before);
    assert!(cal.insert(d(2000, 1, 1)));
    assert_eq!(cal.count(), 3);
    // a failing writer reports the error
    struct Fail;
    impl Write for Fail {
        fn write(&mut self, _: &[u8]) -> io::Result<usize> {
            Err(io::Error::new(io::ErrorKind::Other, "nope"))
        }
        fn flush(&mut self) -> io::Result<()> {
            Ok(())
        }
    }
    assert!(cal.serialize(Fail).is_err());
}

#[test]
fn idea47_every_single_day_of_a_400_year_cycle_sampled_singletons() {
    // singletons: the one member is found from every earlier query and from no later one
    let mut rng = Rng(7);
    for _ in 0..400 {
        let x = rng.date(-401, 401);
        let cal: CompactCalendar = [x].into_iter().collect();
        assert_eq!(cal.count(), 1);
        assert_eq!(cal.iter().collect::<Vec<_>>(), vec![x]);
        for _ in 0..20 {
            let q = rng.date(-405, 405);
            assert_eq!(cal.contains(q), q == x);
            assert_eq!(cal.first_after(q), if q < x { Some(x) } else { None }, "x={x} q={q}");
        }
        assert_eq!(cal.first_after(x.pred_opt().unwrap()), Some(x));
        assert_eq!(cal.first_after(x), None);
        assert_eq!(cal.first_after(x.succ_opt().unwrap()), None);
    }
}

// ---------------------------------------------------------------------------------------------
// Observations OUTSIDE the statement (not insertion sequences of dates): documented, not defects.
// These assert the *observed* behaviour so that they pass.
// ---------------------------------------------------------------------------------------------

#[test]
fn note_a_year_cleared_through_year_for_mut_breaks_set_equality() {
    // year_for_mut hands out `&mut CompactYear`, through which a year can be overwritten: that is
    // a removal, which the statement does not quantify over.
    let mut cal: CompactCalendar = [d(2020, 5, 5), d(2022, 1, 1)].into_iter().collect();
    *cal.year_for_mut(d(2022, 1, 1)).unwrap() = Default::default();
    let fresh: CompactCalendar = [d(2020, 5, 5)].into_iter().collect();
    assert!(cal.iter().eq(fresh.iter()));
    assert_ne!(cal, fresh); // same set, unequal representation (trailing empty years)
}

#[test]
fn note_crafted_stream_with_trailing_empty_year_is_not_equal_to_same_set() {
    let fresh: CompactCalendar = [d(2020, 5, 5)].into_iter().collect();
    let mut buf = Vec::new();
    fresh.serialize(&mut buf).unwrap();
    let n = std::mem::size_of::<usize>();
    buf[4..4 + n].copy_from_slice(&2usize.to_ne_bytes());
    buf.extend_from_slice(&[0; 48]);
    let crafted = CompactCalendar::deserialize(buf.as_slice()).unwrap();
    assert!(crafted.iter().eq(fresh.iter()));
    assert_ne!(crafted, fresh);
}
