//! Defect hunt for: "Normalization does not change the meaning of an expression".

use chrono::{NaiveDate, NaiveDateTime};
use opening_hours::localization::Country;
use opening_hours::{Context, OpeningHours, RuleKind};

fn d(y: i32, m: u32, day: u32) -> NaiveDate {
    NaiveDate::from_ymd_opt(y, m, day).unwrap()
}

/// Flatten the schedule of a day into (start, end, kind) triples, merging adjacent equal kinds.
fn kinds_at(oh: &OpeningHours, date: NaiveDate) -> Vec<(String, String, RuleKind)> {
    let mut out: Vec<(String, String, RuleKind)> = Vec::new();

    for tr in oh.schedule_at(date) {
        let start = format!("{}", tr.range.start);
        let end = format!("{}", tr.range.end);

        if let Some(last) = out.last_mut() {
            if last.2 == tr.kind && last.1 == start {
                last.1 = end;
                continue;
            }
        }

        out.push((start, end, tr.kind));
    }

    out
}

fn full_at(oh: &OpeningHours, date: NaiveDate) -> Vec<(String, String, RuleKind, Vec<String>)> {
    oh.schedule_at(date)
        .into_iter()
        .map(|tr| {
            (
                format!("{}", tr.range.start),
                format!("{}", tr.range.end),
                tr.kind,
                tr.comments.iter().map(|c| c.to_string()).collect(),
            )
        })
        .collect()
}

fn default_dates() -> Vec<NaiveDate> {
    let mut dates = Vec::new();
    let mut date = d(2019, 12, 20);

    while date < d(2022, 1, 15) {
        dates.push(date);
        date = date.succ_opt().unwrap();
    }

    for (y, m, dd) in [
        (1900, 1, 1),
        (1900, 1, 2),
        (1900, 12, 31),
        (1901, 1, 1),
        (1999, 12, 31),
        (2000, 1, 1),
        (2026, 12, 28),
        (2026, 12, 31),
        (2027, 1, 1),
        (2027, 1, 3),
        (2027, 1, 4),
        (9998, 12, 31),
        (9999, 1, 1),
        (9999, 12, 30),
        (9999, 12, 31),
    ] {
        dates.push(d(y, m, dd));
    }

    dates
}

/// Returns the first date where the kinds differ, if any.
fn first_kind_diff(expr: &str, ctx: &Context, dates: &[NaiveDate]) -> Option<String> {
    let oh = OpeningHours::parse(expr)
        .unwrap_or_else(|e| panic!("can't parse {expr:?}: {e}"))
        .with_context(ctx.clone());
    let norm = oh.normalize();

    for &date in dates {
        let a = kinds_at(&oh, date);
        let b = kinds_at(&norm, date);

        if a != b {
            return Some(format!(
                "expr {expr:?} normalized {:?} differ on {date} ({:?}):\n  original:   {a:?}\n  normalized: {b:?}",
                norm.to_string(),
                chrono::Datelike::weekday(&date),
            ));
        }
    }

    None
}

fn first_full_diff(expr: &str, ctx: &Context, dates: &[NaiveDate]) -> Option<String> {
    let oh = OpeningHours::parse(expr)
        .unwrap_or_else(|e| panic!("can't parse {expr:?}: {e}"))
        .with_context(ctx.clone());
    let norm = oh.normalize();

    for &date in dates {
        let a = full_at(&oh, date);
        let b = full_at(&norm, date);

        if a != b {
            return Some(format!(
                "expr {expr:?} normalized {:?} differ (comments included) on {date} ({:?}):\n  original:   {a:?}\n  normalized: {b:?}",
                norm.to_string(),
                chrono::Datelike::weekday(&date),
            ));
        }
    }

    None
}

fn assert_same_kinds(expr: &str) {
    let ctx = Context::default();

    if let Some(msg) = first_kind_diff(expr, &ctx, &default_dates()) {
        panic!("{msg}");
    }
}

fn assert_same_full(expr: &str) {
    let ctx = Context::default();

    if let Some(msg) = first_full_diff(expr, &ctx, &default_dates()) {
        panic!("{msg}");
    }
}

fn dt(s: &str) -> NaiveDateTime {
    NaiveDateTime::parse_from_str(s, "%Y-%m-%d %H:%M").unwrap()
}

// ---------------------------------------------------------------------------------------------
// Random differential exploration (deterministic xorshift)
// ---------------------------------------------------------------------------------------------

struct Rng(u64);

impl Rng {
    fn next(&mut self) -> u64 {
        let mut x = self.0;
        x ^= x << 13;
        x ^= x >> 7;
        x ^= x << 17;
        self.0 = x;
        x
    }

    fn below(&mut self, n: usize) -> usize {
        (self.next() % n as u64) as usize
    }

    fn pick<'a>(&mut self, xs: &[&'a str]) -> &'a str {
        xs[self.below(xs.len())]
    }

    fn chance(&mut self, percent: usize) -> bool {
        self.below(100) < percent
    }
}

fn gen_rule(rng: &mut Rng, allow_noncanon: bool) -> String {
    let years = [
        "2020", "2021", "2020-2021", "2021+", "1900-2020", "2021-2020", "2020,2022", "1900-9999",
        "2020-9999", "9999", "1900",
    ];
    let years_nc = ["2020-2030/2", "2020Jan", "2020Dec-Jan"];
    let months = [
        "Jan", "Dec", "Jan-Mar", "Nov-Feb", "Dec-Jan", "Jan-Dec", "Feb-Jan", "Jun,Dec", "Feb",
        "Dec-Nov",
    ];
    let months_nc = ["Jan 01-Jan 15", "Dec 25", "Dec 24-Jan 02", "easter", "Feb 29", "Dec 31"];
    let weeks = [
        "week 01", "week 53", "week 52-01", "week 01-53", "week 10-20", "week 53-01", "week 02-01",
        "week 01,53", "week 52-53",
    ];
    let weeks_nc = ["week 01-53/2", "week 02-52/10"];
    let wdays = [
        "Mo", "Tu", "Su", "Mo-Fr", "Sa-Su", "Su-Mo", "Fr-Tu", "Mo-Su", "Tu-Mo", "Mo,We,Fr", "Su-Sa",
        "Sa,Su",
    ];
    let wdays_nc = ["PH", "Mo[1]", "Su[-1]", "Mo,PH", "SH", "Tu[2] +1 day", "PH +1 day"];
    let times = [
        "10:00-12:00",
        "00:00-24:00",
        "08:00-12:00,14:00-18:00",
        "00:00-01:00",
        "23:00-24:00",
        "10:00-14:00,12:00-16:00",
        "00:00-12:00",
        "12:00-24:00",
        "11:00-13:00",
        "09:00-11:00",
    ];
    let times_nc_nospill = ["10:00+", "sunrise-sunset", "10:00-16:00/90", "(sunrise+01:00)-18:00", "06:00-sunset"];
    let times_nc = [
        "22:00-02:00",
        "22:00-26:00",
        "10:00-10:00",
        "10:00+",
        "sunrise-sunset",
        "10:00-16:00/90",
        "20:00-48:00",
        "23:00-00:30",
        "00:00-24:01",
        "dusk-dawn",
        "24:00-26:00",
    ];
    let mods = [
        "", "", "open", "off", "closed", "unknown", "\"c1\"", "off \"c2\"", "open \"c3\"",
        "unknown \"c4\"", "closed \"c1\"",
    ];

    loop {
        let mut parts: Vec<String> = Vec::new();
        let nc = |rng: &mut Rng| allow_noncanon && rng.chance(12);

        if rng.chance(3) {
            let mut m = rng.pick(&mods);
            if std::env::var("HUNT_NOCLOSED").is_ok() && (m == "off" || m == "closed") {
                m = "unknown";
            }
            return format!("24/7 {m}").trim().to_string();
        }

        if rng.chance(25) {
            if nc(rng) {
                parts.push(rng.pick(&years_nc).to_string());
            } else {
                parts.push(rng.pick(&years).to_string());
            }
        }

        if rng.chance(30) && !parts.last().is_some_and(|p| p.contains("Jan")) {
            let m = if nc(rng) {
                rng.pick(&months_nc)
            } else {
                rng.pick(&months)
            };

            // no space is allowed between a year selector and a month selector; a lone year
            // followed by a month binds to the month: that is fine, still valid
            if let Some(y) = parts.last_mut() {
                y.push_str(m);
            } else {
                parts.push(m.to_string());
            }
        }

        if rng.chance(20) {
            if nc(rng) {
                parts.push(rng.pick(&weeks_nc).to_string());
            } else {
                parts.push(rng.pick(&weeks).to_string());
            }
        }

        if rng.chance(70) {
            if nc(rng) {
                parts.push(rng.pick(&wdays_nc).to_string());
            } else {
                parts.push(rng.pick(&wdays).to_string());
            }
        }

        if rng.chance(70) {
            if nc(rng) {
                if std::env::var("HUNT_SPILL").map(|s| s == "0").unwrap_or(false) {
                    parts.push(rng.pick(&times_nc_nospill).to_string());
                } else {
                    parts.push(rng.pick(&times_nc).to_string());
                }
            } else {
                parts.push(rng.pick(&times).to_string());
            }
        }

        let mut m = rng.pick(&mods);

        if std::env::var("HUNT_NOCLOSED").is_ok() && (m == "off" || m == "closed") {
            m = "unknown";
        }

        if std::env::var("HUNT_CLOSEDCOMMENT").is_ok() && (m == "off" || m == "closed") {
            m = "closed \"zz\"";
        }

        if !m.is_empty() {
            parts.push(m.to_string());
        }

        if parts.is_empty() {
            continue;
        }

        return parts.join(" ");
    }
}

fn gen_expr(rng: &mut Rng, allow_noncanon: bool) -> String {
    let n = 1 + rng.below(5);
    let mut expr = gen_rule(rng, allow_noncanon);

    for _ in 1..n {
        let sep = match rng.below(10) {
            0..=4 => "; ",
            5..=7 => ", ",
            _ => " || ",
        };

        expr.push_str(sep);
        expr.push_str(&gen_rule(rng, allow_noncanon));
    }

    expr
}

fn sample_dates() -> Vec<NaiveDate> {
    let mut dates = Vec::new();

    // A few full weeks around the interesting boundaries.
    for (y, m, dd, n) in [
        (2019, 12, 23, 21),
        (2020, 2, 24, 10),
        (2020, 6, 1, 8),
        (2020, 12, 21, 21),
        (2021, 3, 1, 8),
        (2021, 11, 25, 45),
        (2022, 12, 26, 10),
        (2023, 4, 3, 10),
        (1900, 1, 1, 8),
        (9999, 12, 20, 12),
    ] {
        let mut date = d(y, m, dd);

        for _ in 0..n {
            dates.push(date);
            date = match date.succ_opt() {
                Some(x) => x,
                None => break,
            };
        }
    }

    dates
}

#[test]
#[ignore]
fn explore_random_mixed() {
    let seed: u64 = std::env::var("HUNT_SEED")
        .ok()
        .and_then(|s| s.parse().ok())
        .unwrap_or(0x1234_5678_9abc_def1);
    let count: usize = std::env::var("HUNT_COUNT")
        .ok()
        .and_then(|s| s.parse().ok())
        .unwrap_or(20000);
    let noncanon = std::env::var("HUNT_NC").map(|s| s != "0").unwrap_or(true);
    let full = std::env::var("HUNT_FULL").map(|s| s != "0").unwrap_or(false);

    let mut rng = Rng(seed);
    let ctx = Context::default().with_holidays(Country::FR.holidays());
    let dates = sample_dates();
    let mut found = 0;
    let mut parsed = 0;

    for _ in 0..count {
        let expr = gen_expr(&mut rng, noncanon);

        if OpeningHours::parse(&expr).is_err() {
            continue;
        }

        parsed += 1;

        let diff = if full {
            first_full_diff(&expr, &ctx, &dates)
        } else {
            first_kind_diff(&expr, &ctx, &dates)
        };

        if let Some(msg) = diff {
            println!("{msg}\n");
            found += 1;

            if found >= 40 {
                break;
            }
        }
    }

    println!("found {found} differences out of {parsed} parsed");
}


fn gen_rule_wide(rng: &mut Rng) -> String {
    const WD: [&str; 7] = ["Mo", "Tu", "We", "Th", "Fr", "Sa", "Su"];
    const MO: [&str; 12] = [
        "Jan", "Feb", "Mar", "Apr", "May", "Jun", "Jul", "Aug", "Sep", "Oct", "Nov", "Dec",
    ];

    loop {
        let mut parts: Vec<String> = Vec::new();

        if rng.chance(20) {
            let n = 1 + rng.below(2);
            let mut items = Vec::new();
            for _ in 0..n {
                let ys = [1900, 1901, 2019, 2020, 2021, 2022, 2023, 9998, 9999];
                let a = ys[rng.below(ys.len())];
                match rng.below(4) {
                    0 => items.push(format!("{a}")),
                    1 => items.push(format!("{a}+")),
                    _ => {
                        let b = ys[rng.below(ys.len())];
                        items.push(format!("{a}-{b}"));
                    }
                }
            }
            parts.push(items.join(","));
        }

        if rng.chance(30) {
            let n = 1 + rng.below(2);
            let mut items = Vec::new();
            for _ in 0..n {
                let a = MO[rng.below(12)];
                if rng.chance(40) {
                    items.push(a.to_string());
                } else {
                    items.push(format!("{a}-{}", MO[rng.below(12)]));
                }
            }
            // a lone year in front of a month would bind to the month (non canonical): make it a range
            if let Some(y) = parts.last_mut() {
                if y.len() == 4 {
                    *y = format!("{y}-{y}");
                }
                // no space allowed between the year selector and the month selector
                y.push_str(&items.join(","));
            } else {
                parts.push(items.join(","));
            }
        }

        if rng.chance(25) {
            let n = 1 + rng.below(2);
            let mut items = Vec::new();
            for _ in 0..n {
                let ws = [1, 2, 3, 26, 51, 52, 53];
                let a = ws[rng.below(ws.len())];
                if rng.chance(40) {
                    items.push(format!("{a:02}"));
                } else {
                    items.push(format!("{a:02}-{:02}", ws[rng.below(ws.len())]));
                }
            }
            parts.push(format!("week {}", items.join(",")));
        }

        if rng.chance(65) {
            let n = 1 + rng.below(3);
            let mut items = Vec::new();
            for _ in 0..n {
                let a = WD[rng.below(7)];
                if rng.chance(50) {
                    items.push(a.to_string());
                } else {
                    items.push(format!("{a}-{}", WD[rng.below(7)]));
                }
            }
            parts.push(items.join(","));
        }

        if rng.chance(70) {
            let n = 1 + rng.below(3);
            let mut items = Vec::new();
            for _ in 0..n {
                let a = rng.below(24);
                let b = a + 1 + rng.below(24 - a);
                let am = if rng.chance(20) { 30 } else { 0 };
                let bm = if b < 24 && rng.chance(20) { 30 } else { 0 };
                items.push(format!("{a:02}:{am:02}-{b:02}:{bm:02}"));
            }
            parts.push(items.join(","));
        }

        let mods = [
            "", "", "", "open", "off", "off", "closed", "unknown", "unknown", "\"c1\"", "off \"c2\"",
            "open \"c3\"", "unknown \"c4\"", "closed \"c1\"", "unknown \"c1\"",
        ];
        let m = rng.pick(&mods);

        if !m.is_empty() {
            parts.push(m.to_string());
        }

        if parts.is_empty() {
            continue;
        }

        return parts.join(" ");
    }
}

#[test]
#[ignore]
fn explore_random_wide() {
    let seed: u64 = std::env::var("HUNT_SEED")
        .ok()
        .and_then(|s| s.parse().ok())
        .unwrap_or(0x9876_5432_1abc_def1);
    let count: usize = std::env::var("HUNT_COUNT")
        .ok()
        .and_then(|s| s.parse().ok())
        .unwrap_or(20000);
    let full = std::env::var("HUNT_FULL").map(|s| s != "0").unwrap_or(false);
    let tail = std::env::var("HUNT_TAIL").ok();

    let mut rng = Rng(seed);
    let ctx = Context::default().with_holidays(Country::FR.holidays());
    let dates = sample_dates();
    let mut found = 0;
    let mut parsed = 0;

    for _ in 0..count {
        let n = 1 + rng.below(7);
        let mut expr = gen_rule_wide(&mut rng);

        for _ in 1..n {
            let sep = match rng.below(10) {
                0..=5 => "; ",
                _ => ", ",
            };
            expr.push_str(sep);
            expr.push_str(&gen_rule_wide(&mut rng));
        }

        if let Some(tail) = &tail {
            expr.push_str(tail);
        }

        if OpeningHours::parse(&expr).is_err() {
            continue;
        }

        parsed += 1;

        let diff = if full {
            first_full_diff(&expr, &ctx, &dates)
        } else {
            first_kind_diff(&expr, &ctx, &dates)
        };

        if let Some(msg) = diff {
            println!("{msg}\n");
            found += 1;

            if found >= 40 {
                break;
            }
        }
    }

    println!("found {found} differences out of {parsed} parsed");
}


/// Intervals of `iter_range` over a window, merged by kind.
fn intervals(oh: &OpeningHours, from: NaiveDateTime, to: NaiveDateTime) -> Vec<(NaiveDateTime, NaiveDateTime, RuleKind)> {
    let mut out: Vec<(NaiveDateTime, NaiveDateTime, RuleKind)> = Vec::new();

    for dtr in oh.iter_range(from, to) {
        if let Some(last) = out.last_mut() {
            if last.2 == dtr.kind && last.1 == dtr.range.start {
                last.1 = dtr.range.end;
                continue;
            }
        }

        out.push((dtr.range.start, dtr.range.end, dtr.kind));
    }

    out
}

#[test]
#[ignore]
fn explore_random_intervals() {
    let seed: u64 = std::env::var("HUNT_SEED")
        .ok()
        .and_then(|s| s.parse().ok())
        .unwrap_or(0x1111_5432_1abc_def1);
    let count: usize = std::env::var("HUNT_COUNT")
        .ok()
        .and_then(|s| s.parse().ok())
        .unwrap_or(3000);

    let mut rng = Rng(seed);
    let ctx = Context::default().with_holidays(Country::FR.holidays());
    let mut found = 0;
    let mut parsed = 0;

    for _ in 0..count {
        let n = 1 + rng.below(5);
        let mut expr = gen_rule_wide(&mut rng);

        for _ in 1..n {
            let sep = match rng.below(10) {
                0..=5 => "; ",
                _ => ", ",
            };
            expr.push_str(sep);
            expr.push_str(&gen_rule_wide(&mut rng));
        }

        let Ok(oh) = OpeningHours::parse(&expr) else {
            continue;
        };

        parsed += 1;
        let oh = oh.with_context(ctx.clone());
        let norm = oh.normalize();

        for (from, to) in [
            (dt("2019-12-15 00:00"), dt("2021-02-01 00:00")),
            (dt("2020-06-03 13:30"), dt("2020-06-20 00:00")),
        ] {
            let a = intervals(&oh, from, to);
            let b = intervals(&norm, from, to);

            if a != b {
                let idx = a.iter().zip(&b).position(|(x, y)| x != y).unwrap_or(a.len().min(b.len()));
                println!(
                    "expr {expr:?} normalized {:?}: intervals differ at #{idx}:\n  original:   {:?}\n  normalized: {:?}\n",
                    norm.to_string(),
                    a.get(idx),
                    b.get(idx)
                );
                found += 1;
                break;
            }
        }

        if found >= 20 {
            break;
        }
    }

    println!("found {found} differences out of {parsed} parsed");
}


/// Finds a date where the normalized expression raises a comment that the original does not raise
/// at the same time (the reverse happens because of the comment leak of `Schedule::insert`).
fn first_extra_comment(expr: &str, ctx: &Context, dates: &[NaiveDate]) -> Option<String> {
    let oh = OpeningHours::parse(expr).unwrap().with_context(ctx.clone());
    let norm = oh.normalize();

    for &date in dates {
        let a: Vec<_> = oh.schedule_at(date).into_iter().collect();
        let b: Vec<_> = norm.schedule_at(date).into_iter().collect();

        for tb in &b {
            for ta in &a {
                let overlap = ta.range.start < tb.range.end && tb.range.start < ta.range.end;

                if overlap && !tb.comments.iter().all(|c| ta.comments.contains(c)) {
                    return Some(format!(
                        "expr {expr:?} normalized {:?} on {date}:\n  original:   {:?}\n  normalized: {:?}",
                        norm.to_string(),
                        full_at(&oh, date),
                        full_at(&norm, date)
                    ));
                }
            }
        }
    }

    None
}

#[test]
#[ignore]
fn explore_random_extra_comments() {
    let count: usize = std::env::var("HUNT_COUNT")
        .ok()
        .and_then(|s| s.parse().ok())
        .unwrap_or(20000);

    let mut rng = Rng(0x2222_5432_1abc_def1);
    let ctx = Context::default().with_holidays(Country::FR.holidays());
    let dates = sample_dates();
    let mut found = 0;

    for _ in 0..count {
        let n = 1 + rng.below(6);
        let mut expr = gen_rule_wide(&mut rng);

        for _ in 1..n {
            let sep = match rng.below(10) {
                0..=5 => "; ",
                _ => ", ",
            };
            expr.push_str(sep);
            expr.push_str(&gen_rule_wide(&mut rng));
        }

        if OpeningHours::parse(&expr).is_err() {
            continue;
        }

        if let Some(msg) = first_extra_comment(&expr, &ctx, &dates) {
            println!("{msg}\n");
            found += 1;

            if found >= 15 {
                break;
            }
        }
    }

    println!("found {found} differences");
}

// ---------------------------------------------------------------------------------------------
// Suspicions
// ---------------------------------------------------------------------------------------------

// ---- CONFIRMED (these fail on the unchanged tree) ----------------------------------------------

/// DEFECT 1. A canonical "closed" rule is dropped by `normalize` (its cells equal the default
/// value of the paving), but in the evaluator it is observable by a later *normal* rule that does
/// not match the day and only spills over midnight (`prev_eval.or(curr_eval)`).
#[test]
fn d1_closed_rule_dropped_before_wrapping_rule() {
    assert_same_kinds("Tu closed; Mo 22:00-02:00");
}

/// Same defect through `state()`.
#[test]
fn d1_state_api() {
    let oh = OpeningHours::parse("Tu closed; Mo 22:00-02:00").unwrap();
    let norm = oh.normalize();
    let t = dt("2024-11-19 01:00"); // a Tuesday
    assert_eq!(oh.state(t), norm.state(t), "normalized is {norm}");
}

/// Same defect with a realistic expression.
#[test]
fn d1_realistic() {
    let oh = OpeningHours::parse("Mo-Fr 09:00-18:00; Su off; Sa 20:00-02:00").unwrap();
    let norm = oh.normalize();
    let t = dt("2024-11-17 01:00"); // a Sunday
    assert_eq!(oh.state(t), norm.state(t), "normalized is {norm}");
}

/// Same defect, the day *after* the dropped closed rule (the evaluator yields `Some(empty)` the
/// day after a rule matched).
#[test]
fn d1_day_after_closed_rule() {
    assert_same_kinds("Mo off; Mo 22:00-02:00");
}

/// Same defect when the closed rule only erases an earlier rule.
#[test]
fn d1_erased_rule() {
    assert_same_kinds("Su 10:00-12:00; Su off; Sa 22:00-26:00");
}

/// Same defect in a located context (timezone + coordinates), with a solar time span.
#[test]
fn d1_with_tz_context() {
    use chrono::TimeZone;
    use opening_hours::localization::{Coordinates, TzLocation};

    let tz = chrono_tz::Europe::Paris;
    let ctx = Context::default()
        .with_holidays(Country::FR.holidays())
        .with_locale(TzLocation::new(tz).with_coords(Coordinates::new(48.85, 2.35).unwrap()));

    let oh = OpeningHours::parse("Su off; Sa sunset-sunrise")
        .unwrap()
        .with_context(ctx);
    let norm = oh.normalize();
    let t = tz.with_ymd_and_hms(2024, 11, 17, 1, 0, 0).unwrap(); // a Sunday
    assert_eq!(oh.state(t), norm.state(t), "normalized is {norm}");
}

/// DEFECT 2. Same root cause, other observer: the dropped closed rule sets `prev_match`, which a
/// later fallback rule reads.
#[test]
fn d2_closed_rule_dropped_before_fallback() {
    assert_same_kinds("Tu off, Mo 22:00-26:00 || Tu 10:00-12:00 unknown");
}

#[test]
fn d2_state_api() {
    let oh = OpeningHours::parse("Tu off, Mo 22:00-26:00 || Tu 10:00-12:00 unknown").unwrap();
    let norm = oh.normalize();
    let t = dt("2024-11-19 11:00"); // a Tuesday
    assert_eq!(oh.state(t), norm.state(t), "normalized is {norm}");
    let t = dt("2024-11-19 01:00");
    assert_eq!(oh.state(t), norm.state(t), "normalized is {norm}");
}

#[test]
fn d2_realistic() {
    let oh =
        OpeningHours::parse("Su off, Sa 20:00-02:00 || unknown \"on appointment\"").unwrap();
    let norm = oh.normalize();
    let t = dt("2024-11-17 12:00"); // a Sunday
    assert_eq!(oh.state(t), norm.state(t), "normalized is {norm}");
}

/// DEFECT 3 (judgement call: comments are part of the schedule, not of the state). The evaluator
/// leaks the comments of a covered range into the range that covers it; the normalized expression
/// has no covered range any more, so its schedule has other comments.
#[test]
fn d3_comments_of_schedule_differ() {
    assert_same_full("10:00-12:00 \"on appointment\"; Mo off");
}

#[test]
fn d3_comments_of_open_range_differ() {
    assert_same_full("08:00-12:00 \"c1\", Mo 11:00-13:00 unknown");
}

// ---- HELD (these pass) ---------------------------------------------------------------------------

#[test]
fn h01_wrapping_year_ranges() {
    assert_same_kinds("2021-2020 Mo 10:00-12:00; 2020 Tu unknown");
    assert_same_kinds("9999-1900 10:00-12:00; 2020-2020 off");
    assert_same_kinds("2021+ 10:00-12:00; 1900-2020 14:00-16:00 unknown");
}

#[test]
fn h02_week_ranges_and_week_53() {
    assert_same_kinds("week 53 10:00-12:00; week 01 unknown; week 52-02 Mo off");
    assert_same_kinds("week 53-52 10:00-12:00; week 26 off");
    assert_same_kinds("week 02-01 10:00-12:00; week 53-01 Su unknown");
    // 2021-01-03 is in ISO week 53 of 2020 but in year 2021
    assert_same_kinds("2020 week 53 10:00-12:00; 2021 week 53 unknown; week 53 Su 20:00-22:00");
}

#[test]
fn h03_weekday_wraps() {
    assert_same_kinds("Su-Mo 10:00-12:00; Tu-Mo 14:00-16:00 unknown; Su-Sa 18:00-20:00 off");
    assert_same_kinds("Sa-Tu 10:00-12:00, Fr-Su 11:00-13:00 unknown, Su off");
}

#[test]
fn h04_month_wraps() {
    assert_same_kinds("Nov-Feb 10:00-12:00; Dec-Nov 14:00-16:00 unknown; Feb-Jan Mo off");
    assert_same_kinds("Dec-Jan 10:00-12:00; Jan unknown; Dec Mo off");
}

#[test]
fn h05_full_ranges_are_removed_safely() {
    assert_same_kinds("1900-9999Jan-Dec week 01-53 Mo-Su 00:00-24:00; Mo off");
    assert_same_kinds("1900-9999 10:00-12:00; week 01-53 Tu unknown; Jan-Dec We off");
}

#[test]
fn h06_bounds_of_the_supported_dates() {
    assert_same_kinds("1900 10:00-12:00; 9999 unknown; 1901-9998 Mo off");
    assert_same_kinds("1900-1900Jan week 01 Mo 00:00-24:00; 9999-9999Dec week 52 Fr unknown");
}

#[test]
fn h07_normal_rule_overrides_the_whole_day() {
    assert_same_kinds("10:00-18:00; Mo 12:00-14:00; Tu 12:00-14:00 unknown; We 12:00-14:00 off");
    assert_same_kinds("10:00-18:00 unknown \"u\"; Mo-We 08:00-09:00 off \"x\"; Tu 20:00-21:00");
}

#[test]
fn h08_three_kinds_and_emission_order() {
    assert_same_kinds(
        "Mo-Fr 08:00-20:00 unknown, We-Su 10:00-12:00 open, Fr-Mo 11:00-15:00 closed \"x\", Sa 09:00-21:00 unknown",
    );
    assert_same_kinds("unknown; Mo-Fr 10:00-12:00 open; We off; Th 10:00-11:00 closed \"x\"");
}

#[test]
fn h09_overlapping_spans_and_day_boundaries() {
    assert_same_kinds("10:00-14:00,12:00-16:00,16:00-17:00; Mo 00:00-00:01,23:59-24:00 unknown");
    assert_same_kinds("00:00-24:00; Mo 00:00-12:00 off; Tu 12:00-24:00 off; We 00:01-23:59 off");
}

#[test]
fn h10_nth_lists_that_select_every_week() {
    assert_same_kinds("Mo[1-5,-1,-2,-3,-4,-5] 10:00-12:00; Mo[1-5] 14:00-16:00; Mo[1] off");
}

#[test]
fn h11_fallback_in_the_middle() {
    assert_same_kinds("Mo-Fr 10:00-12:00; We off || Sa,We unknown; Th 14:00-16:00; Fr off");
    assert_same_kinds("Mo closed \"x\" || open; Tu off || unknown \"y\"");
    assert_same_kinds("Mo 10:00-12:00; Mo 10:00-12:00 off || Mo unknown");
}

#[test]
fn h12_non_canonical_tail_without_spill() {
    let ctx = Context::default().with_holidays(Country::FR.holidays());
    let dates = default_dates();

    for expr in [
        "Mo-Sa 10:00-20:00; Su off; PH off",
        "Mo-Sa 10:00-20:00; Su off, PH 10:00-12:00 unknown",
        "24/7; We off; Mo[1] 10:00+",
        "off, Mo 10:00-12:00; Dec 25 off; Jan 01 sunrise-sunset",
        "Su off; week 01-53/2 Su 10:00-12:00 || Su unknown",
        "Mo off; 2020-2030/2 Mo 10:00-16:00/01:30",
    ] {
        if let Some(msg) = first_kind_diff(expr, &ctx, &dates) {
            panic!("{msg}");
        }
    }
}

#[test]
fn h13_comment_only_rules_and_prefix_comments() {
    assert_same_full("\"on appointment\"; Mo 10:00-12:00 \"x\"");
    assert_same_full("\"summer\":Mo-Fr 10:00-12:00; We unknown \"maybe\"");
}

#[test]
fn h14_empty_results() {
    assert_same_full("24/7 off");
    assert_same_full("Mo 10:00-12:00; Mo off");
    assert_same_full("24/7; off");
}

#[test]
fn h15_intervals_are_the_same() {
    for expr in [
        "Mo-Fr 10:00-12:00,14:00-18:00; We off; week 53 unknown; 2020Dec Sa 10:00-11:00",
        "2021-2020 week 52-01 Su-Mo 10:00-12:00; Jan off",
        "unknown \"u\"; Mo-Fr 08:00-20:00; Nov-Feb Sa,Su off",
    ] {
        let oh = OpeningHours::parse(expr).unwrap();
        let norm = oh.normalize();
        let (from, to) = (dt("2019-12-15 00:00"), dt("2021-02-01 00:00"));
        assert_eq!(intervals(&oh, from, to), intervals(&norm, from, to), "{expr} / {norm}");
    }
}

#[test]
fn h16_bounded_interval_context_and_state() {
    let ctx = Context::default().approx_bound_interval_size(chrono::TimeDelta::days(2));
    let oh = OpeningHours::parse("2030+ 10:00-12:00; 2020 week 10 Mo unknown; Su off")
        .unwrap()
        .with_context(ctx);
    let norm = oh.normalize();

    for t in ["2020-03-02 11:00", "2020-03-03 11:00", "2031-05-05 11:00", "2031-05-04 11:00"] {
        assert_eq!(oh.state(dt(t)), norm.state(dt(t)), "{t} / {norm}");
    }
}

#[test]
fn h17_normalize_twice_same_meaning() {
    for expr in [
        "Mo-Fr 10:00-12:00,14:00-18:00; We off; week 53 unknown; 2020Dec Sa 10:00-11:00",
        "10:00-16:00, We 15:00-20:00 unknown; PH off",
    ] {
        let ctx = Context::default().with_holidays(Country::FR.holidays());
        let oh = OpeningHours::parse(expr).unwrap().with_context(ctx);
        let norm = oh.normalize().normalize();

        for date in default_dates() {
            assert_eq!(kinds_at(&oh, date), kinds_at(&norm, date), "{expr} on {date}");
        }
    }
}

#[test]
fn h18_normalized_text_parsed_again_same_meaning() {
    for expr in [
        "2020-2020Jan-Mar Mo 10:00-12:00; 2020 week 02 Tu unknown; We off \"x\"",
        "5554Mo;5555",
        "2022;Fr",
    ] {
        let oh = OpeningHours::parse(expr).unwrap();
        let text = oh.normalize().to_string();
        let again = OpeningHours::parse(&text).unwrap();

        for date in default_dates().into_iter().chain([d(5554, 1, 3), d(5555, 1, 4), d(2022, 5, 6)]) {
            assert_eq!(kinds_at(&oh, date), kinds_at(&again, date), "{expr} -> {text} on {date}");
        }
    }
}

/// Nit, not reported as a defect: as *values*, the schedules differ because the original keeps
/// explicit closed ranges where the normalized expression has holes (same iteration though).
#[test]
#[ignore]
fn nit_schedule_values_differ_by_representation() {
    let oh = OpeningHours::parse("Mo off").unwrap();
    let norm = oh.normalize();
    let monday = d(2024, 11, 18);
    assert_eq!(oh.schedule_at(monday), norm.schedule_at(monday));
}
